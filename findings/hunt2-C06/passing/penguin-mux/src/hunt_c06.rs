//! exploratory stress for C06 (scratch)
#![allow(clippy::all, clippy::pedantic, clippy::nursery, unused)]

use crate::config::Options;
use crate::ws::{Message, WebSocket};
use crate::*;
use alloc::sync::Arc as StdArc;
use alloc::vec::Vec;
use core::task::{Context, Poll};
use core::time::Duration;
use rand::rngs::SmallRng;
use rand::{RngExt, SeedableRng};
use std::io::ErrorKind;
use std::{eprintln, println};
use tokio::io::{AsyncReadExt, AsyncWriteExt};
use tokio::sync::mpsc;

pub struct MockWs(
    Option<mpsc::UnboundedSender<Message>>,
    mpsc::UnboundedReceiver<Message>,
);

impl WebSocket for MockWs {
    fn poll_ready_unpin(&mut self, _cx: &mut Context<'_>) -> Poll<Result<()>> {
        if self.0.is_none() {
            Poll::Ready(Err(Error::Closed))
        } else {
            Poll::Ready(Ok(()))
        }
    }
    fn start_send_unpin(&mut self, item: Message) -> Result<()> {
        let Some(sender) = &self.0 else {
            return Err(Error::Closed);
        };
        sender.send(item).or(Err(Error::Closed))?;
        Ok(())
    }
    fn poll_flush_unpin(&mut self, _cx: &mut Context<'_>) -> Poll<Result<()>> {
        Poll::Ready(Ok(()))
    }
    fn poll_close_unpin(&mut self, _cx: &mut Context<'_>) -> Poll<Result<()>> {
        self.0.take();
        Poll::Ready(Ok(()))
    }
    fn poll_next_unpin(&mut self, cx: &mut Context<'_>) -> Poll<Option<Result<Message>>> {
        self.1.poll_recv(cx).map(|x| x.map(Ok))
    }
}

pub fn ws_pair() -> (MockWs, MockWs) {
    let (tx1, rx1) = mpsc::unbounded_channel();
    let (tx2, rx2) = mpsc::unbounded_channel();
    (MockWs(Some(tx1), rx2), MockWs(Some(tx2), rx1))
}

#[derive(Debug, Clone, Copy)]
enum Step {
    Write(usize),
    Read(usize),
    Shutdown,
    ReadToEof,
    Pause(u64),
}

fn gen_prog(rng: &mut SmallRng) -> Vec<Step> {
    let n = rng.random_range(0..6);
    let mut v = Vec::new();
    for _ in 0..n {
        let s = match rng.random_range(0..10) {
            0..=3 => Step::Write(rng.random_range(1..8)),
            4..=5 => Step::Read(rng.random_range(1..40)),
            6 => Step::Shutdown,
            7 => Step::ReadToEof,
            _ => Step::Pause(rng.random_range(0..3)),
        };
        v.push(s);
    }
    v
}

#[derive(Debug, Default)]
struct Outcome {
    written: Vec<u8>,
    read: Vec<u8>,
    shutdown_ok: bool,
    saw_eof: bool,
    write_err: Option<ErrorKind>,
    write_timed_out: bool,
    read_timed_out: bool,
}

async fn run_prog(mut s: MuxStream, prog: Vec<Step>, tag: u8, me_done: StdArc<core::sync::atomic::AtomicBool>, peer_done: StdArc<core::sync::atomic::AtomicBool>) -> Outcome {
    let mut o = Outcome::default();
    let mut ctr = 0u8;
    for st in prog {
        match st {
            Step::Write(n) => {
                for _ in 0..n {
                    let data = [tag, ctr, ctr.wrapping_add(1)];
                    match tokio::time::timeout(Duration::from_millis(30), s.write_all(&data)).await
                    {
                        Ok(Ok(())) => {
                            o.written.extend_from_slice(&data);
                            ctr = ctr.wrapping_add(2);
                        }
                        Ok(Err(e)) => {
                            o.write_err = Some(e.kind());
                            break;
                        }
                        Err(_) => {
                            o.write_timed_out = true;
                            break;
                        }
                    }
                }
            }
            Step::Read(n) => {
                let mut buf = alloc::vec![0u8; n];
                match tokio::time::timeout(Duration::from_millis(30), s.read(&mut buf)).await {
                    Ok(Ok(0)) => o.saw_eof = true,
                    Ok(Ok(k)) => o.read.extend_from_slice(&buf[..k]),
                    Ok(Err(e)) => panic!("read error {e}"),
                    Err(_) => {}
                }
            }
            Step::Shutdown => {
                s.shutdown().await.unwrap();
                if o.write_err.is_none() {
                    o.shutdown_ok = true;
                }
            }
            Step::ReadToEof => {
                let mut buf = [0u8; 64];
                let mut waited_not_done = 0u32;
                let mut waited_done = 0u32;
                loop {
                    match tokio::time::timeout(Duration::from_millis(10), s.read(&mut buf)).await {
                        Ok(Ok(0)) => {
                            o.saw_eof = true;
                            break;
                        }
                        Ok(Ok(k)) => o.read.extend_from_slice(&buf[..k]),
                        Ok(Err(e)) => panic!("read error {e}"),
                        Err(_) => {
                            if peer_done.load(core::sync::atomic::Ordering::SeqCst) {
                                waited_done += 1;
                                if waited_done > 200 {
                                    o.read_timed_out = true;
                                    break;
                                }
                            } else {
                                waited_not_done += 1;
                                if waited_not_done > 10 {
                                    break;
                                }
                            }
                        }
                    }
                }
            }
            Step::Pause(ms) => {
                if ms == 0 {
                    tokio::task::yield_now().await;
                } else {
                    tokio::time::sleep(Duration::from_millis(ms)).await;
                }
            }
        }
    }
    drop(s);
    me_done.store(true, core::sync::atomic::Ordering::SeqCst);
    o
}

async fn wait_empty<R>(m: &Multiplexor<R>, expect: usize) -> bool {
    for _ in 0..400 {
        if m.flows.read().len() == expect {
            return true;
        }
        tokio::time::sleep(Duration::from_millis(5)).await;
    }
    false
}

async fn stress(seed: u64, rounds: usize, opts_a: Options, opts_b: Options) {
    let (wa, wb) = ws_pair();
    let (a, ta) = Multiplexor::new_detailed::<_, std::time::Instant>(
        wa,
        opts_a,
        SmallRng::seed_from_u64(seed ^ 0xaaaa),
    );
    let (b, tb) = Multiplexor::new_detailed::<_, std::time::Instant>(
        wb,
        opts_b,
        SmallRng::seed_from_u64(seed ^ 0xbbbb),
    );
    ta.spawn(None);
    tb.spawn(None);
    let a = StdArc::new(a);
    let b = StdArc::new(b);
    let mut rng = SmallRng::seed_from_u64(seed);

    // canary stream
    let (mut ca, mut cb) = tokio::join!(
        async { a.new_stream_channel(b"canary", 1).await.unwrap() },
        async { b.accept_stream_channel().await.unwrap() }
    );
    let mut canary_ctr = 0u8;

    for round in 0..rounds {
        let k = rng.random_range(1..4usize);
        let mut handles = Vec::new();
        for i in 0..k {
            let a_opens = rng.random_bool(0.5);
            let (sa, sb) = if a_opens {
                tokio::join!(
                    async { a.new_stream_channel(b"x", 2).await.unwrap() },
                    async { b.accept_stream_channel().await.unwrap() }
                )
            } else {
                let (sb, sa) = tokio::join!(
                    async { b.new_stream_channel(b"x", 2).await.unwrap() },
                    async { a.accept_stream_channel().await.unwrap() }
                );
                (sa, sb)
            };
            let pa = gen_prog(&mut rng);
            let pb = gen_prog(&mut rng);
            let da = StdArc::new(core::sync::atomic::AtomicBool::new(false));
            let db = StdArc::new(core::sync::atomic::AtomicBool::new(false));
            let ha = tokio::spawn(run_prog(sa, pa.clone(), 0xA0, da.clone(), db.clone()));
            let hb = tokio::spawn(run_prog(sb, pb.clone(), 0xB0, db, da));
            handles.push((pa, pb, ha, hb));
        }
        // canary traffic in the middle
        canary_ctr = canary_ctr.wrapping_add(1);
        ca.write_all(&[canary_ctr; 5]).await.unwrap();
        let mut buf = [0u8; 5];
        tokio::time::timeout(Duration::from_secs(3), cb.read_exact(&mut buf))
            .await
            .expect("canary a->b stalled")
            .unwrap();
        assert_eq!(buf, [canary_ctr; 5]);
        cb.write_all(&[canary_ctr; 5]).await.unwrap();
        tokio::time::timeout(Duration::from_secs(3), ca.read_exact(&mut buf))
            .await
            .expect("canary b->a stalled")
            .unwrap();
        assert_eq!(buf, [canary_ctr; 5]);

        for (pa, pb, ha, hb) in handles {
            let oa = ha.await.unwrap();
            let ob = hb.await.unwrap();
            let ctx = alloc::format!(
                "seed {seed} round {round}\n pa={pa:?}\n pb={pb:?}\n oa={oa:?}\n ob={ob:?}"
            );
            assert!(
                oa.written.starts_with(&ob.read),
                "b read not a prefix of a written: {ctx}"
            );
            assert!(
                ob.written.starts_with(&oa.read),
                "a read not a prefix of b written: {ctx}"
            );
            if oa.saw_eof { assert_eq!(oa.read, ob.written, "a saw EOF before all data: {ctx}"); }
            if ob.saw_eof { assert_eq!(ob.read, oa.written, "b saw EOF before all data: {ctx}"); }
            assert!(!oa.read_timed_out, "a read_to_end hung: {ctx}");
            assert!(!ob.read_timed_out, "b read_to_end hung: {ctx}");
            if let Some(k) = oa.write_err {
                assert_eq!(k, ErrorKind::BrokenPipe, "{ctx}");
            }
            if let Some(k) = ob.write_err {
                assert_eq!(k, ErrorKind::BrokenPipe, "{ctx}");
            }
        }
        assert!(
            wait_empty(&a, 1).await,
            "seed {seed} round {round}: A leaks: {:?}",
            a.flows.read().keys().collect::<Vec<_>>()
        );
        assert!(
            wait_empty(&b, 1).await,
            "seed {seed} round {round}: B leaks: {:?}",
            b.flows.read().keys().collect::<Vec<_>>()
        );
    }
}

#[tokio::test(flavor = "multi_thread", worker_threads = 4)]
async fn hunt_stress_default() {
    let seed: u64 = std::env::var("HUNT_SEED")
        .ok()
        .and_then(|s| s.parse().ok())
        .unwrap_or(1);
    for s in seed..seed + 20 {
        stress(s, 60, Options::new(), Options::new()).await;
    }
}

#[tokio::test(flavor = "multi_thread", worker_threads = 4)]
async fn hunt_stress_asym() {
    let seed: u64 = std::env::var("HUNT_SEED")
        .ok()
        .and_then(|s| s.parse().ok())
        .unwrap_or(1);
    for s in seed..seed + 20 {
        stress(
            s,
            60,
            Options::new().rwnd(1).default_rwnd_threshold(7),
            Options::new().rwnd(9).default_rwnd_threshold(2),
        )
        .await;
    }
}

/// cycles through a tiny id space
pub struct SmallIds(pub u32, pub u32, pub u32);
impl rand::TryRng for SmallIds {
    type Error = core::convert::Infallible;
    fn try_next_u32(&mut self) -> core::result::Result<u32, Self::Error> {
        self.0 = (self.0 + self.2) % self.1;
        Ok(self.0 + 1)
    }
    fn try_next_u64(&mut self) -> core::result::Result<u64, Self::Error> {
        self.try_next_u32().map(u64::from)
    }
    fn try_fill_bytes(&mut self, dst: &mut [u8]) -> core::result::Result<(), Self::Error> {
        dst.fill(0);
        Ok(())
    }
}

async fn stress_reuse(seed: u64, rounds: usize, opts_a: Options, opts_b: Options, space: u32) {
    let (wa, wb) = ws_pair();
    let (a, ta) =
        Multiplexor::new_detailed::<_, std::time::Instant>(wa, opts_a, SmallIds(0, space, 1));
    let (b, tb) =
        Multiplexor::new_detailed::<_, std::time::Instant>(wb, opts_b, SmallIds(0, space, 5));
    ta.spawn(None);
    tb.spawn(None);
    let a = StdArc::new(a);
    let b = StdArc::new(b);
    let mut rng = SmallRng::seed_from_u64(seed);

    for round in 0..rounds {
        let ka = rng.random_range(0..3u16);
        let kb = rng.random_range(0..3u16);
        if ka + kb == 0 {
            continue;
        }
        let open = |m: StdArc<Multiplexor<SmallIds>>, n: u16, base: u16| async move {
            let mut v = Vec::new();
            for i in 0..n {
                v.push(m.new_stream_channel(b"x", base + i).await.unwrap());
            }
            v
        };
        let accept = |m: StdArc<Multiplexor<SmallIds>>, n: u16| async move {
            let mut v = Vec::new();
            for _ in 0..n {
                v.push(m.accept_stream_channel().await.unwrap());
            }
            v
        };
        let (oa, ob, mut aa, mut ab) = tokio::time::timeout(Duration::from_secs(5), async {
            tokio::join!(
                tokio::spawn(open(a.clone(), ka, 100)),
                tokio::spawn(open(b.clone(), kb, 200)),
                tokio::spawn(accept(a.clone(), kb)),
                tokio::spawn(accept(b.clone(), ka)),
            )
        })
        .await
        .unwrap_or_else(|_| panic!("seed {seed} round {round}: open/accept hung"));
        let (oa, ob, mut aa, mut ab) = (oa.unwrap(), ob.unwrap(), aa.unwrap(), ab.unwrap());
        // extra accepted (phantom) streams?
        let mut pairs = Vec::new();
        for s in oa {
            let port = {
                // opener does not know its port from the stream; use order: A opened sequentially
                0
            };
            pairs.push(s);
        }
        // A-opened streams arrive at B in order of successful Connect; sort by dest_port
        ab.sort_by_key(|s| s.dest_port);
        aa.sort_by_key(|s| s.dest_port);
        let mut handles = Vec::new();
        for (sa, sb) in pairs.into_iter().zip(ab.into_iter()) {
            assert_eq!(sa.flow_id, sb.flow_id, "seed {seed} round {round}");
            let pa = gen_prog(&mut rng);
            let pb = gen_prog(&mut rng);
            let da = StdArc::new(core::sync::atomic::AtomicBool::new(false));
            let db = StdArc::new(core::sync::atomic::AtomicBool::new(false));
            let ha = tokio::spawn(run_prog(sa, pa.clone(), 0xA0, da.clone(), db.clone()));
            let hb = tokio::spawn(run_prog(sb, pb.clone(), 0xB0, db, da));
            handles.push((pa, pb, ha, hb));
        }
        for (sb, sa) in ob.into_iter().zip(aa.into_iter()) {
            assert_eq!(sa.flow_id, sb.flow_id, "seed {seed} round {round}");
            let pa = gen_prog(&mut rng);
            let pb = gen_prog(&mut rng);
            let da = StdArc::new(core::sync::atomic::AtomicBool::new(false));
            let db = StdArc::new(core::sync::atomic::AtomicBool::new(false));
            let ha = tokio::spawn(run_prog(sa, pa.clone(), 0xA0, da.clone(), db.clone()));
            let hb = tokio::spawn(run_prog(sb, pb.clone(), 0xB0, db, da));
            handles.push((pa, pb, ha, hb));
        }
        for (pa, pb, ha, hb) in handles {
            let oa = ha.await.unwrap();
            let ob = hb.await.unwrap();
            let ctx = alloc::format!(
                "seed {seed} round {round}\n pa={pa:?}\n pb={pb:?}\n oa={oa:?}\n ob={ob:?}"
            );
            assert!(oa.written.starts_with(&ob.read), "b read not a prefix: {ctx}");
            assert!(ob.written.starts_with(&oa.read), "a read not a prefix: {ctx}");
            if oa.saw_eof { assert_eq!(oa.read, ob.written, "a saw EOF before all data: {ctx}"); }
            if ob.saw_eof { assert_eq!(ob.read, oa.written, "b saw EOF before all data: {ctx}"); }
            assert!(!oa.read_timed_out, "a read_to_end hung: {ctx}");
            assert!(!ob.read_timed_out, "b read_to_end hung: {ctx}");
            if let Some(k) = oa.write_err {
                assert_eq!(k, ErrorKind::BrokenPipe, "{ctx}");
            }
            if let Some(k) = ob.write_err {
                assert_eq!(k, ErrorKind::BrokenPipe, "{ctx}");
            }
        }
        assert!(wait_empty(&a, 0).await, "seed {seed} round {round}: A leaks");
        assert!(wait_empty(&b, 0).await, "seed {seed} round {round}: B leaks");
        // link quiescence: let stray Resets drain
        tokio::time::sleep(Duration::from_millis(3)).await;
    }
}

#[tokio::test(flavor = "multi_thread", worker_threads = 4)]
async fn hunt_stress_reuse() {
    let seed: u64 = std::env::var("HUNT_SEED")
        .ok()
        .and_then(|s| s.parse().ok())
        .unwrap_or(1);
    for s in seed..seed + 10 {
        stress_reuse(
            s,
            150,
            Options::new().max_flow_id_retries(64),
            Options::new().max_flow_id_retries(64),
            12,
        )
        .await;
    }
}


async fn stress_tung(seed: u64, rounds: usize, opts_a: Options, opts_b: Options, mss: usize) {
    use tokio_tungstenite::{WebSocketStream, tungstenite::protocol::Role};
    let (c, sv) = tokio::io::duplex(mss);
    let wa = WebSocketStream::from_raw_socket(c, Role::Client, None).await;
    let wb = WebSocketStream::from_raw_socket(sv, Role::Server, None).await;
    let (a, ta) = Multiplexor::new_detailed::<_, std::time::Instant>(
        wa,
        opts_a,
        SmallRng::seed_from_u64(seed ^ 0xaaaa),
    );
    let (b, tb) = Multiplexor::new_detailed::<_, std::time::Instant>(
        wb,
        opts_b,
        SmallRng::seed_from_u64(seed ^ 0xbbbb),
    );
    ta.spawn(None);
    tb.spawn(None);
    let a = StdArc::new(a);
    let b = StdArc::new(b);
    let mut rng = SmallRng::seed_from_u64(seed);
    for round in 0..rounds {
        let k = rng.random_range(1..5usize);
        let mut handles = Vec::new();
        for i in 0..k {
            let a_opens = rng.random_bool(0.5);
            let (sa, sb) = if a_opens {
                tokio::join!(
                    async { a.new_stream_channel(b"x", 2).await.unwrap() },
                    async { b.accept_stream_channel().await.unwrap() }
                )
            } else {
                let (sb, sa) = tokio::join!(
                    async { b.new_stream_channel(b"x", 2).await.unwrap() },
                    async { a.accept_stream_channel().await.unwrap() }
                );
                (sa, sb)
            };
            let pa = gen_prog(&mut rng);
            let pb = gen_prog(&mut rng);
            let da = StdArc::new(core::sync::atomic::AtomicBool::new(false));
            let db = StdArc::new(core::sync::atomic::AtomicBool::new(false));
            let ha = tokio::spawn(run_prog(sa, pa.clone(), 0xA0, da.clone(), db.clone()));
            let hb = tokio::spawn(run_prog(sb, pb.clone(), 0xB0, db, da));
            handles.push((pa, pb, ha, hb));
        }
        for (pa, pb, ha, hb) in handles {
            let oa = ha.await.unwrap();
            let ob = hb.await.unwrap();
            let ctx = alloc::format!(
                "seed {seed} round {round}\n pa={pa:?}\n pb={pb:?}\n oa={oa:?}\n ob={ob:?}"
            );
            assert!(oa.written.starts_with(&ob.read), "b read not a prefix: {ctx}");
            assert!(ob.written.starts_with(&oa.read), "a read not a prefix: {ctx}");
            if oa.saw_eof { assert_eq!(oa.read, ob.written, "a saw EOF before all data: {ctx}"); }
            if ob.saw_eof { assert_eq!(ob.read, oa.written, "b saw EOF before all data: {ctx}"); }
            assert!(!oa.read_timed_out, "a read_to_end hung: {ctx}");
            assert!(!ob.read_timed_out, "b read_to_end hung: {ctx}");
            if let Some(k) = oa.write_err {
                assert_eq!(k, ErrorKind::BrokenPipe, "{ctx}");
            }
            if let Some(k) = ob.write_err {
                assert_eq!(k, ErrorKind::BrokenPipe, "{ctx}");
            }
        }
        assert!(wait_empty(&a, 0).await, "seed {seed} round {round}: A leaks");
        assert!(wait_empty(&b, 0).await, "seed {seed} round {round}: B leaks");
    }
}

#[tokio::test(flavor = "multi_thread", worker_threads = 4)]
async fn hunt_stress_tung() {
    let seed: u64 = std::env::var("HUNT_SEED")
        .ok()
        .and_then(|s| s.parse().ok())
        .unwrap_or(1);
    for s in seed..seed + 8 {
        stress_tung(s, 60, Options::new(), Options::new(), 7).await;
        stress_tung(
            s,
            60,
            Options::new().rwnd(2).default_rwnd_threshold(1),
            Options::new().rwnd(16).default_rwnd_threshold(16),
            33,
        )
        .await;
    }
}

/// ids from a fixed list, then counting up
pub struct ListIds(pub Vec<u32>, pub usize);
impl rand::TryRng for ListIds {
    type Error = core::convert::Infallible;
    fn try_next_u32(&mut self) -> core::result::Result<u32, Self::Error> {
        let v = if self.1 < self.0.len() { self.0[self.1] } else { 1000 + self.1 as u32 };
        self.1 += 1;
        Ok(v)
    }
    fn try_next_u64(&mut self) -> core::result::Result<u64, Self::Error> {
        self.try_next_u32().map(u64::from)
    }
    fn try_fill_bytes(&mut self, dst: &mut [u8]) -> core::result::Result<(), Self::Error> {
        dst.fill(0);
        Ok(())
    }
}

async fn settle() {
    tokio::time::sleep(Duration::from_millis(20)).await;
}

fn mk(ids_a: Vec<u32>, ids_b: Vec<u32>, oa: Options, ob: Options) -> (Multiplexor<ListIds>, Multiplexor<ListIds>) {
    let (wa, wb) = ws_pair();
    let (a, ta) = Multiplexor::new_detailed::<_, std::time::Instant>(wa, oa, ListIds(ids_a, 0));
    let (b, tb) = Multiplexor::new_detailed::<_, std::time::Instant>(wb, ob, ListIds(ids_b, 0));
    ta.spawn(None);
    tb.spawn(None);
    (a, b)
}

async fn check_fresh(a: &Multiplexor<ListIds>, b: &Multiplexor<ListIds>, expect_id: u32, a_opens: bool) {
    // open a new stream that must get `expect_id`, and check it is a brand new one with full credit
    let (mut s_open, mut s_acc) = if a_opens {
        let (x, y) = tokio::join!(a.new_stream_channel(b"h", 9), b.accept_stream_channel());
        (x.unwrap(), y.unwrap())
    } else {
        let (x, y) = tokio::join!(b.new_stream_channel(b"h", 9), a.accept_stream_channel());
        (x.unwrap(), y.unwrap())
    };
    assert_eq!(s_open.flow_id, expect_id);
    assert_eq!(s_acc.flow_id, expect_id);
    // full window both directions, no reader: exactly rwnd(4) frames each
    for i in 0..4u8 {
        tokio::time::timeout(Duration::from_millis(200), s_open.write_all(&[i])).await.expect("credit missing").unwrap();
        tokio::time::timeout(Duration::from_millis(200), s_acc.write_all(&[i + 10])).await.expect("credit missing").unwrap();
    }
    assert!(tokio::time::timeout(Duration::from_millis(50), s_open.write_all(&[9])).await.is_err(), "extra credit");
    assert!(tokio::time::timeout(Duration::from_millis(50), s_acc.write_all(&[9])).await.is_err(), "extra credit");
    let mut buf = [0u8; 4];
    s_acc.read_exact(&mut buf).await.unwrap();
    assert_eq!(buf, [0, 1, 2, 3]);
    s_open.read_exact(&mut buf).await.unwrap();
    assert_eq!(buf, [10, 11, 12, 13]);
    // nothing else buffered
    assert!(tokio::time::timeout(Duration::from_millis(50), s_acc.read(&mut buf)).await.is_err(), "stale data or EOF");
    assert!(tokio::time::timeout(Duration::from_millis(50), s_open.read(&mut buf)).await.is_err(), "stale data or EOF");
    s_open.shutdown().await.unwrap();
    s_acc.shutdown().await.unwrap();
    assert_eq!(s_open.read(&mut buf).await.unwrap(), 0);
    assert_eq!(s_acc.read(&mut buf).await.unwrap(), 0);
    drop(s_open);
    drop(s_acc);
    settle().await;
    assert_eq!(a.flows.read().len(), 0);
    assert_eq!(b.flows.read().len(), 0);
}

#[tokio::test]
async fn hunt_orders() {
    // every order of {shutdown, drop} on both sides, with data left unread, then reuse at quiescence
    for order in 0..24u32 {
        for a_reopens in [true, false] {
            let (a, b) = mk(alloc::vec![7, 7, 7, 7], alloc::vec![7, 7, 7, 7], Options::new(), Options::new());
            let (sa, sb) = tokio::join!(a.new_stream_channel(b"h", 1), b.accept_stream_channel());
            let (mut sa, mut sb) = (Some(sa.unwrap()), Some(sb.unwrap()));
            sa.as_mut().unwrap().write_all(b"ab").await.unwrap();
            sb.as_mut().unwrap().write_all(b"cd").await.unwrap();
            // permutation of 4 events: 0=A.shutdown 1=A.drop 2=B.shutdown 3=B.drop
            let mut ev = alloc::vec![0u8, 1, 2, 3];
            let mut perm = Vec::new();
            let mut k = order;
            for n in (1..=4u32).rev() {
                perm.push(ev.remove((k % n) as usize));
                k /= n;
            }
            for e in &perm {
                match e {
                    0 => { if let Some(s) = sa.as_mut() { s.shutdown().await.unwrap(); } }
                    1 => { sa.take(); }
                    2 => { if let Some(s) = sb.as_mut() { s.shutdown().await.unwrap(); } }
                    _ => { sb.take(); }
                }
                if order % 2 == 0 { tokio::task::yield_now().await; } else { settle().await; }
            }
            settle().await;
            assert_eq!(a.flows.read().len(), 0, "perm {perm:?}");
            assert_eq!(b.flows.read().len(), 0, "perm {perm:?}");
            check_fresh(&a, &b, 7, a_reopens).await;
        }
    }
}

#[tokio::test]
async fn hunt_old_handles() {
    // old handles kept by the applications while the id is re-opened; everything they do must be inert
    let (a, b) = mk(alloc::vec![7, 7, 7, 7, 7], alloc::vec![7, 7, 7, 7], Options::new(), Options::new());
    let (sa, sb) = tokio::join!(a.new_stream_channel(b"h", 1), b.accept_stream_channel());
    let (mut sa_old, mut sb_old) = (sa.unwrap(), sb.unwrap());
    // B fills A's window, then aborts
    for i in 0..4u8 { sb_old.write_all(&[i]).await.unwrap(); }
    drop(sb_old);
    settle().await;
    assert_eq!(a.flows.read().len(), 0);
    // A still holds sa_old (4 frames unread). Reopen 7 from A.
    let (s2a, s2b) = tokio::join!(a.new_stream_channel(b"h", 1), b.accept_stream_channel());
    let (mut s2a, mut s2b) = (s2a.unwrap(), s2b.unwrap());
    assert_eq!(s2a.flow_id, 7);
    // old handle: read all (would have acked 4), write, shutdown, drop
    let mut v = Vec::new();
    sa_old.read_to_end(&mut v).await.unwrap();
    assert_eq!(v, [0, 1, 2, 3]);
    assert_eq!(sa_old.write(b"x").await.unwrap_err().kind(), ErrorKind::BrokenPipe);
    sa_old.shutdown().await.unwrap();
    drop(sa_old);
    settle().await;
    assert_eq!(a.flows.read().len(), 1);
    assert_eq!(b.flows.read().len(), 1);
    // new flow has exactly its window
    for i in 0..4u8 { s2b.write_all(&[i + 20]).await.unwrap(); }
    assert!(tokio::time::timeout(Duration::from_millis(50), s2b.write_all(&[9])).await.is_err(), "extra credit leaked");
    let mut buf = [0u8; 4];
    s2a.read_exact(&mut buf).await.unwrap();
    assert_eq!(buf, [20, 21, 22, 23]);
    drop(s2a);
    drop(s2b);
    settle().await;
    assert_eq!(a.flows.read().len(), 0);
    assert_eq!(b.flows.read().len(), 0);
    check_fresh(&a, &b, 7, false).await;
}

#[tokio::test]
async fn hunt_cancel_open() {
    // cancel a pending open at several points
    for delay_us in [0u64, 1, 50, 200, 1000, 5000] {
        let (a, b) = mk(alloc::vec![7, 7, 7], alloc::vec![7, 7], Options::new(), Options::new());
        let r = tokio::time::timeout(Duration::from_micros(delay_us), a.new_stream_channel(b"h", 1)).await;
        let opened = matches!(r, Ok(Ok(_)));
        drop(r);
        settle().await;
        // B may have an accepted stream in its queue: it must be dead (EOF) and the slot gone
        assert_eq!(a.flows.read().len(), 0, "delay {delay_us}");
        assert_eq!(b.flows.read().len(), 0, "delay {delay_us}");
        if let Ok(Ok(mut s)) = tokio::time::timeout(Duration::from_millis(20), b.accept_stream_channel()).await {
            let mut buf = [0u8; 1];
            assert_eq!(s.read(&mut buf).await.unwrap(), 0);
            assert_eq!(s.write(b"x").await.unwrap_err().kind(), ErrorKind::BrokenPipe);
        }
        settle().await;
        check_fresh(&a, &b, 7, true).await;
        let _ = opened;
    }
}
