//! C05 hunt demos. All three tests FAIL on the unmodified tree.
//!
//! Run with:
//!   cargo test -p penguin-mux --offline --test hunt_c05

use futures_util::{SinkExt, StreamExt};
use penguin_mux::{Multiplexor, config::Options, frame::Frame};
use std::io::ErrorKind;
use std::time::Duration;
use tokio::io::{AsyncReadExt, AsyncWriteExt, DuplexStream};
use tokio_tungstenite::{
    WebSocketStream,
    tungstenite::{Message, protocol::Role},
};

async fn ws_pair() -> (WebSocketStream<DuplexStream>, WebSocketStream<DuplexStream>) {
    let (c, s) = tokio::io::duplex(1 << 16);
    let c = WebSocketStream::from_raw_socket(c, Role::Client, None).await;
    let s = WebSocketStream::from_raw_socket(s, Role::Server, None).await;
    (c, s)
}

/// Finding 1.
///
/// `a` half-closes its stream (`shutdown`) and then drops it while `b` is
/// parked in a write waiting for flow-control credit. `a` is gone for good (the
/// two frames `b` wrote are discarded with `a`'s receive queue), so `b`'s write
/// must fail with `BrokenPipe`. Instead nothing at all is sent to `b` and the
/// write stays pending forever.
#[tokio::test]
async fn parked_writer_fails_when_peer_drops_after_shutdown() {
    let (c, s) = ws_pair().await;
    // `a` can buffer two frames
    let mux_a = Multiplexor::new_with_opt(c, Options::new().rwnd(2), None);
    let mux_b = Multiplexor::new_with_opt(s, Options::new(), None);
    let (a, b) = tokio::join!(
        mux_a.new_stream_channel(b"x", 1),
        mux_b.accept_stream_channel()
    );
    let (mut a, b) = (a.unwrap(), b.unwrap());
    let (mut b_rd, mut b_wr) = tokio::io::split(b);

    // `b` uses up the window of `a`, which is not reading
    assert_eq!(b_wr.write(b"one").await.unwrap(), 3);
    assert_eq!(b_wr.write(b"two").await.unwrap(), 3);
    // ... so the third write parks
    let parked = tokio::spawn(async move { b_wr.write(b"three").await });
    tokio::time::sleep(Duration::from_millis(100)).await;
    assert!(!parked.is_finished(), "the third write should wait for credit");

    // `a` says it has nothing more to send and then goes away without reading
    a.shutdown().await.unwrap();
    drop(a);

    // `b` learns that `a` finished writing ...
    let mut buf = [0u8; 8];
    assert_eq!(b_rd.read(&mut buf).await.unwrap(), 0);
    // ... but is never told that `a` is gone: the parked write neither fails nor completes
    let res = tokio::time::timeout(Duration::from_secs(3), parked)
        .await
        .expect("write still parked 3 s after the peer dropped its end of the stream")
        .unwrap();
    assert_eq!(res.unwrap_err().kind(), ErrorKind::BrokenPipe);
}

/// Finding 2.
///
/// The peer here is a hand-driven WebSocket speaking PROTOCOL.md (which does not
/// forbid a `Push` frame without data; a `penguin-mux` before the zero-length write
/// fix, same protocol version, emits exactly this for `write(b"")`). The reader must
/// see "helloworld" and then end-of-stream. Instead the empty `Push` is reported as
/// end-of-stream (release) or panics the reader (debug), before the peer's `Finish`.
#[tokio::test]
async fn empty_push_from_the_wire_is_not_end_of_stream() {
    let (mut raw, s) = ws_pair().await;
    let mux = Multiplexor::new_with_opt(s, Options::new(), None);
    let id = 0x1234_5678;
    let bin = |f: Frame<'_>| Message::Binary(Vec::<u8>::from(f).into());
    raw.send(bin(Frame::new_connect(b"x", 1, id, 16))).await.unwrap();
    let mut stream = mux.accept_stream_channel().await.unwrap();
    // `Acknowledge` of the `Connect`
    let Message::Binary(ack) = raw.next().await.unwrap().unwrap() else {
        panic!("expected a binary message");
    };
    assert_eq!(ack[0] & 0x0f, 1, "expected `Acknowledge`");
    raw.send(bin(Frame::new_push(id, b"hello"))).await.unwrap();
    raw.send(bin(Frame::new_push(id, b""))).await.unwrap();
    raw.send(bin(Frame::new_push(id, b"world"))).await.unwrap();
    raw.send(bin(Frame::new_finish(id))).await.unwrap();

    let reader = tokio::spawn(async move {
        let mut got = Vec::new();
        stream.read_to_end(&mut got).await.unwrap();
        got
    });
    let got = reader
        .await
        .expect("reader panicked on a `Push` frame without data");
    assert_eq!(
        String::from_utf8_lossy(&got),
        "helloworld",
        "end-of-stream was reported before the peer's `Finish`"
    );
}

/// An in-memory WebSocket pair whose `b` to `a` direction can be held back, to model
/// frames that are still on the wire.
mod gated {
    use penguin_mux::Error;
    use penguin_mux::ws::{Message, WebSocket};
    use std::task::{Context, Poll};
    use tokio::sync::{mpsc, watch};

    pub struct ChanWs {
        tx: Option<mpsc::UnboundedSender<Message>>,
        rx: mpsc::UnboundedReceiver<Message>,
    }

    impl WebSocket for ChanWs {
        fn poll_ready_unpin(&mut self, _cx: &mut Context<'_>) -> Poll<Result<(), Error>> {
            Poll::Ready(self.tx.as_ref().map(|_| ()).ok_or(Error::Closed))
        }
        fn start_send_unpin(&mut self, item: Message) -> Result<(), Error> {
            let tx = self.tx.as_ref().ok_or(Error::Closed)?;
            tx.send(item).or(Err(Error::Closed))
        }
        fn poll_flush_unpin(&mut self, _cx: &mut Context<'_>) -> Poll<Result<(), Error>> {
            Poll::Ready(Ok(()))
        }
        fn poll_close_unpin(&mut self, _cx: &mut Context<'_>) -> Poll<Result<(), Error>> {
            self.tx.take();
            Poll::Ready(Ok(()))
        }
        fn poll_next_unpin(
            &mut self,
            cx: &mut Context<'_>,
        ) -> Poll<Option<Result<Message, Error>>> {
            self.rx.poll_recv(cx).map(|m| m.map(Ok))
        }
    }

    /// Returns `(a, b, gate)`: messages from `b` to `a` are delivered, in order, only
    /// while `gate` holds `true`.
    pub fn pair() -> (ChanWs, ChanWs, watch::Sender<bool>) {
        let (a_tx, b_rx) = mpsc::unbounded_channel();
        let (b_tx, mut wire_rx) = mpsc::unbounded_channel::<Message>();
        let (wire_tx, a_rx) = mpsc::unbounded_channel();
        let (gate, mut gate_rx) = watch::channel(true);
        tokio::spawn(async move {
            while let Some(m) = wire_rx.recv().await {
                if gate_rx.wait_for(|open| *open).await.is_err() || wire_tx.send(m).is_err() {
                    break;
                }
            }
        });
        let a = ChanWs {
            tx: Some(a_tx),
            rx: a_rx,
        };
        let b = ChanWs {
            tx: Some(b_tx),
            rx: b_rx,
        };
        (a, b, gate)
    }
}

/// Draws `first` twice and then counts up: `a` wants to use the same flow ID again.
struct ScriptedRng {
    first: u32,
    calls: u32,
}

impl rand::TryRng for ScriptedRng {
    type Error = std::convert::Infallible;
    fn try_next_u32(&mut self) -> Result<u32, Self::Error> {
        self.calls += 1;
        Ok(if self.calls <= 2 {
            self.first
        } else {
            self.first + self.calls
        })
    }
    fn try_next_u64(&mut self) -> Result<u64, Self::Error> {
        self.try_next_u32().map(u64::from)
    }
    fn try_fill_bytes(&mut self, dst: &mut [u8]) -> Result<(), Self::Error> {
        dst.fill(0);
        Ok(())
    }
}

/// Finding 3.
///
/// Both applications have dropped their ends of a flow after an orderly half-close on
/// both sides (`Finish` both ways, no `Reset`), and both multiplexors have freed its ID.
/// The last frames of `b` (`Acknowledge`, `Push`, `Finish`) are still on the wire when `a`
/// opens a new stream and draws the same ID. The new stream `a2` then returns bytes that
/// its peer `b2` never wrote and reports end-of-stream although `b2` is alive and has not
/// shut down.
#[tokio::test]
async fn last_frames_of_a_flow_closed_by_both_ends_do_not_leak_into_a_new_flow() {
    let (ws_a, ws_b, gate) = gated::pair();
    let rng = ScriptedRng {
        first: 0x00c0_ffee,
        calls: 0,
    };
    let (mux_a, task_a) =
        Multiplexor::new_detailed::<_, std::time::Instant>(ws_a, Options::new(), rng);
    task_a.spawn(None);
    // `b` acknowledges every frame
    let mux_b = Multiplexor::new_with_opt(ws_b, Options::new().default_rwnd_threshold(1), None);

    let (a1, b1) = tokio::join!(
        mux_a.new_stream_channel(b"x", 1),
        mux_b.accept_stream_channel()
    );
    let (mut a1, mut b1) = (a1.unwrap(), b1.unwrap());
    // From now on, what `b` sends stays on the wire for a while
    gate.send(false).unwrap();

    // `a`: one request, half-close, done with this stream
    a1.write_all(b"old").await.unwrap();
    a1.shutdown().await.unwrap();
    drop(a1);
    // `b`: read the request to the end, answer, half-close, done with this stream
    let mut got = Vec::new();
    b1.read_to_end(&mut got).await.unwrap();
    assert_eq!(got, b"old");
    b1.write_all(b"stale").await.unwrap();
    b1.shutdown().await.unwrap();
    drop(b1);
    // Let both multiplexor tasks process the drops: the flow ID is free at both ends
    tokio::time::sleep(Duration::from_millis(200)).await;

    // `a` opens another stream (and draws the same ID). `b` accepts it; then the wire delivers.
    let (a2, b2) = tokio::join!(mux_a.new_stream_channel(b"y", 2), async {
        let b2 = mux_b.accept_stream_channel().await;
        gate.send(true).unwrap();
        b2
    });
    let (mut a2, mut b2) = (a2.unwrap(), b2.unwrap());

    // `b2` has written nothing and has not shut down: a read on `a2` must stay pending
    let mut buf = [0u8; 16];
    match tokio::time::timeout(Duration::from_millis(500), a2.read(&mut buf)).await {
        Err(_) => {}
        Ok(Ok(0)) => panic!("`a2` reports end-of-stream but `b2` has not shut down"),
        Ok(Ok(n)) => panic!(
            "`a2` returned {:?}, which `b2` never wrote",
            String::from_utf8_lossy(&buf[..n])
        ),
        Ok(Err(e)) => panic!("`a2` read failed: {e}"),
    }
    // ... and the new flow carries exactly what `b2` writes, then its end-of-stream
    b2.write_all(b"new").await.unwrap();
    b2.shutdown().await.unwrap();
    let mut got = Vec::new();
    a2.read_to_end(&mut got).await.unwrap();
    assert_eq!(String::from_utf8_lossy(&got), "new");
}
