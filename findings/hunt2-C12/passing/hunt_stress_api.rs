// Scratch: multi-thread stress of parked writers through the public API.
use penguin_mux::{Multiplexor, config::Options};
use std::sync::Arc;
use std::sync::atomic::{AtomicU64, Ordering::Relaxed};
static DONE: AtomicU64 = AtomicU64::new(0);
static FAIL: AtomicU64 = AtomicU64::new(0);
static NOCONN: AtomicU64 = AtomicU64::new(0);
use std::time::Duration;
use tokio::io::{AsyncReadExt, AsyncWriteExt};
use tokio_tungstenite::{WebSocketStream, tungstenite::protocol::Role};

async fn pair(mss: usize) -> (
    WebSocketStream<tokio::io::DuplexStream>,
    WebSocketStream<tokio::io::DuplexStream>,
) {
    let (c, s) = tokio::io::duplex(mss);
    (
        WebSocketStream::from_raw_socket(c, Role::Client, None).await,
        WebSocketStream::from_raw_socket(s, Role::Server, None).await,
    )
}

fn rnd(seed: &mut u64) -> u64 {
    *seed ^= *seed << 13;
    *seed ^= *seed >> 7;
    *seed ^= *seed << 17;
    *seed
}

#[derive(Clone, Copy, Debug)]
enum Peer {
    ReadAll,
    DropAfter(usize),
    DropMux(usize),
    ShutdownThenReadAll,
}

async fn one(seed0: u64) {
    let mut seed = seed0 | 1;
    let rw_a = 1 + (rnd(&mut seed) % 3) as u32;
    let rw_b = 1 + (rnd(&mut seed) % 3) as u32;
    let th_a = 1 + (rnd(&mut seed) % 4) as u32;
    let th_b = 1 + (rnd(&mut seed) % 4) as u32;
    let nstreams = 1 + (rnd(&mut seed) % 4) as usize;
    let frames = 1 + (rnd(&mut seed) % 40) as usize;
    let (c, s) = pair(64 + (rnd(&mut seed) % 4096) as usize).await;
    let a = Arc::new(Multiplexor::new_with_opt(c, Options::new().rwnd(rw_a).default_rwnd_threshold(th_a), None));
    let b = Arc::new(Multiplexor::new_with_opt(s, Options::new().rwnd(rw_b).default_rwnd_threshold(th_b), None));
    let mut modes = Vec::new();
    for _ in 0..nstreams {
        let m = match rnd(&mut seed) % 8 {
            0..=2 => Peer::ReadAll,
            3..=4 => Peer::DropAfter((rnd(&mut seed) % (frames as u64 + 1)) as usize),
            5 => Peer::DropMux((rnd(&mut seed) % (frames as u64 + 1)) as usize),
            _ => Peer::ShutdownThenReadAll,
        };
        modes.push(m);
    }
    let desc = format!("seed {seed0} rw {rw_a}/{rw_b} th {th_a}/{th_b} frames {frames} modes {modes:?}");
    let mut tasks = tokio::task::JoinSet::new();
    // acceptor side
    {
        let b = b.clone();
        let modes = modes.clone();
        tasks.spawn(async move {
            let mut inner = tokio::task::JoinSet::new();
            for _ in 0..modes.len() {
                let Ok(mut st) = b.accept_stream_channel().await else { break };
                let mode = modes[st.dest_port as usize];
                let b2 = b.clone();
                inner.spawn(async move {
                    let mut buf = [0u8; 16];
                    match mode {
                        Peer::ReadAll => {
                            while let Ok(n) = st.read(&mut buf).await { if n == 0 { break } }
                        }
                        Peer::ShutdownThenReadAll => {
                            st.shutdown().await.ok();
                            while let Ok(n) = st.read(&mut buf).await { if n == 0 { break } }
                        }
                        Peer::DropAfter(k) => {
                            for _ in 0..k { if !matches!(st.read(&mut buf).await, Ok(n) if n > 0) { break } }
                            drop(st);
                        }
                        Peer::DropMux(k) => {
                            for _ in 0..k { if !matches!(st.read(&mut buf).await, Ok(n) if n > 0) { break } }
                            drop(b2);
                            // keep reading so that we are not the C05-1 case
                            while let Ok(n) = st.read(&mut buf).await { if n == 0 { break } }
                        }
                    }
                });
            }
            drop(b);
            while inner.join_next().await.is_some() {}
        });
    }
    drop(b);
    for i in 0..nstreams {
        let a = a.clone();
        tasks.spawn(async move {
            let Ok(mut st) = a.new_stream_channel(b"x", i as u16).await else { NOCONN.fetch_add(1, Relaxed); return };
            for _ in 0..frames {
                if st.write_all(b"0123456789abcdef").await.is_err() { FAIL.fetch_add(1, Relaxed); return }
            }
            DONE.fetch_add(1, Relaxed);
            st.shutdown().await.ok();
            let mut buf = [0u8; 16];
            while let Ok(n) = st.read(&mut buf).await { if n == 0 { break } }
        });
    }
    drop(a);
    let r = tokio::time::timeout(Duration::from_secs(10), async { while let Some(r) = tasks.join_next().await { r.unwrap(); } }).await;
    assert!(r.is_ok(), "HANG: {desc}");
}

#[test]
fn stress_api() {
    let n: u64 = std::env::var("HUNT_N").ok().and_then(|s| s.parse().ok()).unwrap_or(300);
    let rt = tokio::runtime::Builder::new_multi_thread().worker_threads(6).enable_all().build().unwrap();
    rt.block_on(async {
        let mut js = tokio::task::JoinSet::new();
        let mut next = 1u64;
        let mut running = 0;
        while next <= n || running > 0 {
            while running < 16 && next <= n {
                js.spawn(one(next.wrapping_mul(0x9E3779B97F4A7C15)));
                next += 1;
                running += 1;
            }
            js.join_next().await.unwrap().unwrap();
            running -= 1;
        }
    });
    println!("done {} fail {} noconn {}", DONE.load(Relaxed), FAIL.load(Relaxed), NOCONN.load(Relaxed));
}
