//! Exploration harness for C19 (not the demo).
#![allow(clippy::all, clippy::pedantic)]

use futures_util::{SinkExt, StreamExt};
use penguin_mux::timing::OptionalDuration;
use rusty_penguin_lib::arg::{ClientArgs, Remote, ServerUrl};
use rusty_penguin_lib::client::{self, HandlerResources};
use std::str::FromStr;
use std::sync::{Arc, Mutex};
use std::time::{Duration, Instant};
use tokio::io::{AsyncReadExt, AsyncWriteExt};
use tokio::net::{TcpListener, TcpStream};
use tokio_tungstenite::tungstenite::handshake::server::{Request, Response};

#[derive(Clone, Copy, Debug)]
pub enum B {
    /// accept, then close the TCP connection at once
    Drop,
    /// accept, never answer
    Stall,
    /// complete the handshake, then close after d ms with a Close frame
    CloseOrderly(u64),
    /// complete the handshake, then drop TCP after d ms
    CloseAbrupt(u64),
    /// complete the handshake, read and discard everything, never answer
    Mute,
    /// handshake, after d ms send a Close frame, read the reply, keep TCP open
    CloseFrameHold(u64),
    /// handshake, answer the first binary message with garbage
    Garbage,
    /// full multiplexor, echo
    Healthy,
    /// full multiplexor, echo, but drop the connection after d ms
    HealthyFor(u64),
}

fn cb(req: &Request, mut resp: Response) -> Result<Response, http::Response<Option<String>>> {
    if let Some(p) = req.headers().get("sec-websocket-protocol") {
        resp.headers_mut()
            .insert("sec-websocket-protocol", p.clone());
    }
    Ok(resp)
}

pub struct Fake {
    pub addr: std::net::SocketAddr,
    pub log: Arc<Mutex<Vec<Instant>>>,
}

async fn echo_mux(ws: tokio_tungstenite::WebSocketStream<TcpStream>, life: Option<u64>) {
    let mux = penguin_mux::Multiplexor::new(ws);
    let serve = async {
        while let Ok(mut s) = mux.accept_stream_channel().await {
            tokio::spawn(async move {
                let mut buf = vec![0u8; 4096];
                loop {
                    match s.read(&mut buf).await {
                        Ok(0) | Err(_) => break,
                        Ok(n) => {
                            if s.write_all(&buf[..n]).await.is_err() {
                                break;
                            }
                        }
                    }
                }
                s.shutdown().await.ok();
            });
        }
    };
    match life {
        Some(d) => {
            tokio::time::timeout(Duration::from_millis(d), serve).await.ok();
        }
        None => serve.await,
    }
}

pub async fn fake_server(script: Vec<B>, rest: B) -> Fake {
    let listener = TcpListener::bind("127.0.0.1:0").await.unwrap();
    let addr = listener.local_addr().unwrap();
    let log = Arc::new(Mutex::new(Vec::new()));
    let log2 = log.clone();
    tokio::spawn(async move {
        let mut i = 0;
        loop {
            let (tcp, _) = listener.accept().await.unwrap();
            log2.lock().unwrap().push(Instant::now());
            let b = script.get(i).copied().unwrap_or(rest);
            i += 1;
            tokio::spawn(async move {
                match b {
                    B::Drop => drop(tcp),
                    B::Stall => {
                        tokio::time::sleep(Duration::from_secs(3600)).await;
                        drop(tcp);
                    }
                    B::CloseOrderly(d) => {
                        let mut ws = tokio_tungstenite::accept_hdr_async(tcp, cb).await.unwrap();
                        tokio::time::sleep(Duration::from_millis(d)).await;
                        ws.close(None).await.ok();
                        while let Some(Ok(_)) = ws.next().await {}
                    }
                    B::CloseAbrupt(d) => {
                        let ws = tokio_tungstenite::accept_hdr_async(tcp, cb).await.unwrap();
                        tokio::time::sleep(Duration::from_millis(d)).await;
                        drop(ws);
                    }
                    B::CloseFrameHold(d) => {
                        let mut ws = tokio_tungstenite::accept_hdr_async(tcp, cb).await.unwrap();
                        tokio::time::sleep(Duration::from_millis(d)).await;
                        ws.close(None).await.ok();
                        while let Some(Ok(m)) = ws.next().await { println!("server got {m:?}"); }
                        println!("server: closing handshake complete; holding TCP");
                        tokio::time::sleep(Duration::from_secs(3600)).await;
                        drop(ws);
                    }
                    B::Garbage => {
                        let mut ws = tokio_tungstenite::accept_hdr_async(tcp, cb).await.unwrap();
                        while let Some(Ok(m)) = ws.next().await {
                            if m.is_binary() {
                                ws.send(tokio_tungstenite::tungstenite::Message::Binary(bytes::Bytes::from_static(b"\xff\xff\xff\xff\xff\xff\xff\xff"))).await.ok();
                            }
                        }
                    }
                    B::Mute => {
                        let mut ws = tokio_tungstenite::accept_hdr_async(tcp, cb).await.unwrap();
                        while let Some(Ok(_)) = ws.next().await {}
                    }
                    B::Healthy => {
                        let ws = tokio_tungstenite::accept_hdr_async(tcp, cb).await.unwrap();
                        echo_mux(ws, None).await;
                    }
                    B::HealthyFor(d) => {
                        let ws = tokio_tungstenite::accept_hdr_async(tcp, cb).await.unwrap();
                        echo_mux(ws, Some(d)).await;
                    }
                }
            });
        }
    });
    Fake { addr, log }
}

pub async fn free_port() -> u16 {
    let l = TcpListener::bind("127.0.0.1:0").await.unwrap();
    l.local_addr().unwrap().port()
}

pub struct Client {
    pub task: tokio::task::JoinHandle<Result<(), client::Error>>,
    pub lport: u16,
}

pub async fn start_client(
    server: std::net::SocketAddr,
    max_retry_count: u32,
    max_retry_interval: u64,
    handshake_timeout: OptionalDuration,
    channel_timeout: OptionalDuration,
    remote_kind: &str,
) -> Client {
    let lport = free_port().await;
    let remote = match remote_kind {
        "tcp" => format!("127.0.0.1:{lport}:127.0.0.1:9"),
        "socks" => format!("127.0.0.1:{lport}:socks"),
        _ => unreachable!(),
    };
    let args: &'static ClientArgs = Box::leak(Box::new(ClientArgs {
        server: ServerUrl::from_str(&format!("ws://{server}/ws")).unwrap(),
        remote: vec![Remote::from_str(&remote).unwrap()],
        keepalive: OptionalDuration::NONE,
        max_retry_count,
        max_retry_interval,
        handshake_timeout,
        channel_timeout,
        ..Default::default()
    }));
    let (hr, srx, drx) = HandlerResources::create();
    let hr: &'static HandlerResources = Box::leak(Box::new(hr));
    let task = tokio::spawn(client::client_main_inner(args, hr, srx, drx));
    Client { task, lport }
}

fn gaps(log: &[Instant]) -> Vec<u128> {
    log.windows(2).map(|w| (w[1] - w[0]).as_millis()).collect()
}

async fn echo_check(lport: u16, msg: &[u8], timeout: Duration) -> Result<(), String> {
    let fut = async {
        let mut s = TcpStream::connect(("127.0.0.1", lport))
            .await
            .map_err(|e| format!("connect: {e}"))?;
        s.write_all(msg).await.map_err(|e| format!("write: {e}"))?;
        let mut buf = vec![0u8; msg.len()];
        s.read_exact(&mut buf)
            .await
            .map_err(|e| format!("read: {e}"))?;
        if buf == msg {
            Ok(())
        } else {
            Err("mismatch".to_string())
        }
    };
    tokio::time::timeout(timeout, fut)
        .await
        .map_err(|_| "timeout".to_string())?
}

#[tokio::test(flavor = "multi_thread", worker_threads = 2)]
async fn s1_backoff_sequence() {
    let f = fake_server(vec![B::Drop; 6], B::Healthy).await;
    let c = start_client(
        f.addr,
        0,
        1000,
        OptionalDuration::from_secs(5),
        OptionalDuration::from_secs(5),
        "tcp",
    )
    .await;
    tokio::time::sleep(Duration::from_secs(6)).await;
    let log = f.log.lock().unwrap().clone();
    println!("s1 gaps {:?}", gaps(&log));
    assert!(!c.task.is_finished());
    echo_check(c.lport, b"hello", Duration::from_secs(3))
        .await
        .unwrap();
}

#[tokio::test(flavor = "multi_thread", worker_threads = 2)]
async fn s2_reset_after_success() {
    for first in [
        B::CloseOrderly(100),
        B::CloseAbrupt(100),
        B::CloseOrderly(0),
        B::CloseAbrupt(0),
        B::HealthyFor(100),
    ] {
        let f = fake_server(
            vec![B::Drop, B::Drop, B::Drop, first, B::Drop, B::Drop, B::Drop],
            B::Healthy,
        )
        .await;
        let c = start_client(
            f.addr,
            0,
            100_000,
            OptionalDuration::from_secs(5),
            OptionalDuration::from_secs(5),
            "tcp",
        )
        .await;
        tokio::time::sleep(Duration::from_secs(5)).await;
        let log = f.log.lock().unwrap().clone();
        println!("s2 {first:?} gaps {:?}", gaps(&log));
        assert!(!c.task.is_finished());
        echo_check(c.lport, b"hello", Duration::from_secs(3))
            .await
            .unwrap();
        c.task.abort();
    }
}

#[tokio::test(flavor = "multi_thread", worker_threads = 2)]
async fn s3_give_up() {
    for n in [1u32, 2, 3] {
        let f = fake_server(vec![], B::Drop).await;
        let c = start_client(
            f.addr,
            n,
            300,
            OptionalDuration::from_secs(5),
            OptionalDuration::from_secs(5),
            "tcp",
        )
        .await;
        let r = tokio::time::timeout(Duration::from_secs(10), c.task)
            .await
            .expect("should give up")
            .unwrap();
        let log = f.log.lock().unwrap().clone();
        println!("s3 n={n} attempts {} gaps {:?} r={r:?}", log.len(), gaps(&log));
        assert_eq!(log.len() as u32, n + 1);
        assert!(matches!(r, Err(client::Error::MaxRetryCountReached(_))));
    }
    // give up count after a success
    let f = fake_server(vec![B::Drop, B::CloseOrderly(50)], B::Drop).await;
    let c = start_client(
        f.addr,
        2,
        300,
        OptionalDuration::from_secs(5),
        OptionalDuration::from_secs(5),
        "tcp",
    )
    .await;
    let r = tokio::time::timeout(Duration::from_secs(10), c.task)
        .await
        .expect("should give up")
        .unwrap();
    let log = f.log.lock().unwrap().clone();
    println!("s3b attempts {} gaps {:?} r={r:?}", log.len(), gaps(&log));
}

#[tokio::test(flavor = "multi_thread", worker_threads = 2)]
async fn s5_pending_local_connection() {
    for (kind, first) in [
        ("tcp", B::Drop),
        ("tcp", B::Stall),
        ("tcp", B::Mute),
        ("tcp", B::CloseOrderly(300)),
        ("tcp", B::CloseAbrupt(300)),
    ] {
        let f = fake_server(vec![first, first], B::Healthy).await;
        let c = start_client(
            f.addr,
            0,
            500,
            OptionalDuration::from_secs(1),
            OptionalDuration::from_secs(1),
            kind,
        )
        .await;
        tokio::time::sleep(Duration::from_millis(100)).await;
        let t = Instant::now();
        let r = echo_check(c.lport, b"pending", Duration::from_secs(10)).await;
        let log = f.log.lock().unwrap().clone();
        println!(
            "s5 {kind} {first:?}: {r:?} after {:?}; attempts {} gaps {:?}; finished={}",
            t.elapsed(),
            log.len(),
            gaps(&log),
            c.task.is_finished()
        );
        assert!(r.is_ok());
        // a second one
        let r = echo_check(c.lport, b"second", Duration::from_secs(10)).await;
        assert!(r.is_ok(), "{r:?}");
        c.task.abort();
    }
}

#[tokio::test(flavor = "multi_thread", worker_threads = 2)]
async fn s6_many_pending() {
    // many local connections while the tunnel is down
    let f = fake_server(vec![B::Drop, B::Drop, B::Mute, B::CloseAbrupt(50)], B::Healthy).await;
    let c = start_client(
        f.addr,
        0,
        300,
        OptionalDuration::from_secs(1),
        OptionalDuration::from_secs(1),
        "tcp",
    )
    .await;
    tokio::time::sleep(Duration::from_millis(50)).await;
    let mut hs = vec![];
    for i in 0..20u8 {
        let lport = c.lport;
        hs.push(tokio::spawn(async move {
            echo_check(lport, &[i; 100], Duration::from_secs(15)).await
        }));
    }
    for h in hs {
        let r = h.await.unwrap();
        assert!(r.is_ok(), "{r:?}");
    }
    let log = f.log.lock().unwrap().clone();
    println!("s6 attempts {} gaps {:?}", log.len(), gaps(&log));
}

#[tokio::test(flavor = "multi_thread", worker_threads = 2)]
async fn s7_close_frame_hold() {
    let f = fake_server(vec![B::CloseFrameHold(100)], B::Healthy).await;
    let c = start_client(
        f.addr,
        0,
        300,
        OptionalDuration::from_secs(1),
        OptionalDuration::from_secs(1),
        "tcp",
    )
    .await;
    tokio::time::sleep(Duration::from_secs(4)).await;
    let log = f.log.lock().unwrap().clone();
    println!("s7 attempts {} gaps {:?} finished={}", log.len(), gaps(&log), c.task.is_finished());
    let r = echo_check(c.lport, b"pending", Duration::from_secs(10)).await;
    let log = f.log.lock().unwrap().clone();
    println!("s7 after tcp req: {r:?} attempts {} gaps {:?}", log.len(), gaps(&log));
}

#[tokio::test(flavor = "multi_thread", worker_threads = 2)]
async fn s8_garbage() {
    let f = fake_server(vec![], B::Garbage).await;
    let c = start_client(
        f.addr,
        3,
        300,
        OptionalDuration::from_secs(1),
        OptionalDuration::from_secs(1),
        "tcp",
    )
    .await;
    tokio::time::sleep(Duration::from_millis(300)).await;
    let r = echo_check(c.lport, b"pending", Duration::from_secs(4)).await;
    let log = f.log.lock().unwrap().clone();
    println!("s8: {r:?} attempts {} gaps {:?} finished={}", log.len(), gaps(&log), c.task.is_finished());
    if c.task.is_finished() { println!("s8 result {:?}", c.task.await); }
}

#[test]
fn s9_backoff_exhaustive() {
    use penguin_mux::timing::Backoff;
    let ms = Duration::from_millis;
    for initial in 0..6u64 { for max in 0..8u64 { for mult in 0..4u32 { for max_count in 0..5u32 {
        let mut b = Backoff::new(ms(initial), ms(max), mult, max_count);
        for round in 0..3 {
            let steps = if round == 1 { 2 } else { 8 };
            for k in 0..steps {
                let got = b.advance();
                let expect = if max_count != 0 && k >= max_count { None } else {
                    let v = (initial as u128) * (mult as u128).pow(k);
                    Some(ms(v.min(max as u128) as u64))
                };
                assert_eq!(got, expect, "{initial} {max} {mult} {max_count} round {round} k {k}");
            }
            b.reset();
        }
    }}}}
}

#[tokio::test(flavor = "multi_thread", worker_threads = 2)]
async fn s10_refuse() {
    let port = free_port().await;
    let addr: std::net::SocketAddr = format!("127.0.0.1:{port}").parse().unwrap();
    let t = Instant::now();
    let c = start_client(addr, 3, 300, OptionalDuration::from_secs(1), OptionalDuration::from_secs(1), "tcp").await;
    let r = c.task.await.unwrap();
    println!("s10 {:?} r={r:?}", t.elapsed());
    // unresolvable name
    let args: &'static ClientArgs = Box::leak(Box::new(ClientArgs {
        server: ServerUrl::from_str("ws://nonexistent.invalid:1234/ws").unwrap(),
        remote: vec![Remote::from_str("127.0.0.1:0:socks").unwrap()],
        keepalive: OptionalDuration::NONE,
        max_retry_count: 3,
        max_retry_interval: 300,
        handshake_timeout: OptionalDuration::from_secs(5),
        ..Default::default()
    }));
    let (hr, srx, drx) = HandlerResources::create();
    let hr: &'static HandlerResources = Box::leak(Box::new(hr));
    let t = Instant::now();
    let r = client::client_main_inner(args, hr, srx, drx).await;
    println!("s10 dns {:?} r={r:?}", t.elapsed());
}

#[tokio::test(flavor = "multi_thread", worker_threads = 2)]
async fn s11_many_remotes() {
    let f = fake_server(vec![], B::Healthy).await;
    let n = 70;
    let mut ports = vec![];
    let mut remotes = vec![];
    let mut holders = vec![];
    for _ in 0..n {
        let l = TcpListener::bind("127.0.0.1:0").await.unwrap();
        ports.push(l.local_addr().unwrap().port());
        holders.push(l);
    }
    drop(holders);
    for p in &ports {
        remotes.push(Remote::from_str(&format!("127.0.0.1:{p}:127.0.0.1:9")).unwrap());
    }
    let args: &'static ClientArgs = Box::leak(Box::new(ClientArgs {
        server: ServerUrl::from_str(&format!("ws://{}/ws", f.addr)).unwrap(),
        remote: remotes,
        keepalive: OptionalDuration::NONE,
        max_retry_count: 0,
        max_retry_interval: 300,
        handshake_timeout: OptionalDuration::from_secs(5),
        channel_timeout: OptionalDuration::from_secs(5),
        ..Default::default()
    }));
    let (hr, srx, drx) = HandlerResources::create();
    let hr: &'static HandlerResources = Box::leak(Box::new(hr));
    let task = tokio::spawn(client::client_main_inner(args, hr, srx, drx));
    tokio::time::sleep(Duration::from_secs(1)).await;
    let mut bad = vec![];
    for (i, p) in ports.iter().enumerate() {
        let r = echo_check(*p, b"x", Duration::from_millis(1500)).await;
        if r.is_err() { bad.push((i, r)); }
    }
    for k in 0..3 {
        let r = echo_check(ports[0], b"y", Duration::from_millis(3000)).await;
        println!("s11 port0 again #{k}: {r:?}");
    }
    println!("s11 unserved {} of {n}: {:?} finished={}", bad.len(), bad, task.is_finished());
}
