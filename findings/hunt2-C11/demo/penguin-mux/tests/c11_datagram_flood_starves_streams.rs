//! C11: "no datagram, whatever its size or rate, ... blocks ... stream traffic".
//!
//! Two real endpoints A and B on one connection (in-memory WebSocket on tokio channels,
//! the same construction as the crate's own `MockWebSocketStream`). A sends datagrams to
//! B at a steady rate; B's application reads them as fast as it can. While that goes on,
//! B's application writes four bytes into an established stream towards A.
//!
//! Expected: the four bytes reach A while the datagrams keep coming (the two directions
//! of a connection are independent, datagrams never block stream traffic).
//! Actual: B's connection task handles the receive direction first (`select_biased!` in
//! `Task::start`) and the receive loop `process_ws_next` never yields while messages are
//! ready, so it uses up the whole cooperative budget of every poll of the task; the send
//! direction (and keepalive, and the dropped-flow duty) of B is not served at all while
//! the flood lasts.
//!
//! Deterministic: single-threaded runtime, no timers, no randomness. A's connection task
//! runs `unconstrained` so that A can put more than 128 frames per scheduler round on the
//! link (any real transport that is faster than B's frame handling does the same).

use bytes::Bytes;
use penguin_mux::ws::{Message, WebSocket};
use penguin_mux::{Datagram, Multiplexor, config::Options};
use rand::{SeedableRng, rngs::SmallRng};
use std::sync::Arc;
use std::sync::atomic::{AtomicBool, AtomicUsize, Ordering};
use std::task::{Context, Poll};
use tokio::io::{AsyncReadExt, AsyncWriteExt};
use tokio::sync::mpsc;

struct MemWs(
    Option<mpsc::UnboundedSender<Message>>,
    mpsc::UnboundedReceiver<Message>,
);

impl WebSocket for MemWs {
    fn poll_ready_unpin(&mut self, _cx: &mut Context<'_>) -> Poll<Result<(), penguin_mux::Error>> {
        if self.0.is_none() {
            Poll::Ready(Err(penguin_mux::Error::Closed))
        } else {
            Poll::Ready(Ok(()))
        }
    }
    fn start_send_unpin(&mut self, item: Message) -> Result<(), penguin_mux::Error> {
        let Some(s) = &self.0 else {
            return Err(penguin_mux::Error::Closed);
        };
        s.send(item).or(Err(penguin_mux::Error::Closed))
    }
    fn poll_flush_unpin(&mut self, _cx: &mut Context<'_>) -> Poll<Result<(), penguin_mux::Error>> {
        Poll::Ready(Ok(()))
    }
    fn poll_close_unpin(&mut self, _cx: &mut Context<'_>) -> Poll<Result<(), penguin_mux::Error>> {
        self.0.take();
        Poll::Ready(Ok(()))
    }
    fn poll_next_unpin(
        &mut self,
        cx: &mut Context<'_>,
    ) -> Poll<Option<Result<Message, penguin_mux::Error>>> {
        self.1.poll_recv(cx).map(|x| x.map(Ok))
    }
}

fn link() -> (MemWs, MemWs) {
    let (t1, r1) = mpsc::unbounded_channel();
    let (t2, r2) = mpsc::unbounded_channel();
    (MemWs(Some(t1), r2), MemWs(Some(t2), r1))
}

/// Datagrams per scheduler round, and number of rounds the flood lasts
const PER_ROUND: usize = 256;
const ROUNDS: usize = 2000;

#[tokio::test(flavor = "current_thread")]
async fn datagram_flood_does_not_block_stream_traffic_of_the_receiver() {
    let (wa, wb) = link();
    // A: a plain `Multiplexor`; its task is spawned by hand so that it is not throttled
    let (a, a_task) = Multiplexor::new_detailed::<_, std::time::Instant>(
        wa,
        Options::new(),
        SmallRng::seed_from_u64(1),
    );
    tokio::spawn(tokio::task::unconstrained(a_task.into_task()));
    let a = Arc::new(a);
    // B: completely standard
    let b = Arc::new(Multiplexor::new_with_opt(wb, Options::new(), None));

    let (mut stream_a, mut stream_b) = tokio::join!(
        async { a.new_stream_channel(b"x", 1).await.unwrap() },
        async { b.accept_stream_channel().await.unwrap() }
    );

    let sent = Arc::new(AtomicUsize::new(0));
    let flood_over = Arc::new(AtomicBool::new(false));
    let received = Arc::new(AtomicUsize::new(0));

    // A's application: a steady datagram source
    let flooder = {
        let (a, sent, flood_over) = (a.clone(), sent.clone(), flood_over.clone());
        tokio::spawn(async move {
            for _ in 0..ROUNDS {
                for _ in 0..PER_ROUND {
                    a.send_datagram(Datagram {
                        flow_id: 1,
                        target_host: Bytes::from_static(b"example.com"),
                        target_port: 53,
                        data: Bytes::from_static(b"0123456789abcdef"),
                    })
                    .await
                    .unwrap();
                    sent.fetch_add(1, Ordering::Relaxed);
                }
                tokio::task::yield_now().await;
            }
            flood_over.store(true, Ordering::Relaxed);
        })
    };
    // B's application: reads datagrams as fast as they come
    let reader = {
        let (b, received) = (b.clone(), received.clone());
        tokio::spawn(async move {
            while b.get_datagram().await.is_ok() {
                received.fetch_add(1, Ordering::Relaxed);
            }
        })
    };

    // Let the flood run for a few rounds, then use the stream in the OTHER direction
    for _ in 0..20 {
        tokio::task::yield_now().await;
    }
    let sent_at_write = sent.load(Ordering::Relaxed);
    assert!(!flood_over.load(Ordering::Relaxed));
    stream_b.write_all(b"ping").await.unwrap();
    let mut buf = [0u8; 4];
    stream_a.read_exact(&mut buf).await.unwrap();
    assert_eq!(&buf, b"ping");
    let sent_at_arrival = sent.load(Ordering::Relaxed);
    let arrived_during_flood = !flood_over.load(Ordering::Relaxed);
    eprintln!(
        "stream bytes written by B after datagram #{sent_at_write}, arrived at A after datagram \
         #{sent_at_arrival} (flood still running: {arrived_during_flood}); B's application had \
         received {} datagrams by then",
        received.load(Ordering::Relaxed)
    );
    flooder.await.unwrap();
    reader.abort();
    assert!(
        arrived_during_flood,
        "B's stream data was held back until the datagram flood from A was over: written after \
         datagram #{sent_at_write}, delivered only after all {} had been sent",
        ROUNDS * PER_ROUND
    );
    // Generous bound: a fair task serves its send direction within a few rounds
    assert!(
        sent_at_arrival - sent_at_write <= 50 * PER_ROUND,
        "B's stream data waited for {} further datagrams",
        sent_at_arrival - sent_at_write
    );
}

/// The same observation with nothing special at all: both endpoints are created by
/// `Multiplexor::new_with_opt`, multi-threaded runtime, A's application sends datagrams
/// as fast as it can for a while. Handling a frame costs B's task more than forwarding it
/// costs A's task, so frames pile up on the link and B's task never finds its source
/// empty. Not deterministic (it depends on the two tasks running in parallel), but on the
/// unmodified tree B's four bytes did not get through in any of my runs.
#[tokio::test(flavor = "multi_thread", worker_threads = 4)]
async fn datagram_flood_does_not_block_stream_traffic_standard_tasks() {
    let (wa, wb) = link();
    let a = Arc::new(Multiplexor::new_with_opt(wa, Options::new(), None));
    let b = Arc::new(Multiplexor::new_with_opt(wb, Options::new(), None));
    let (mut stream_a, mut stream_b) = tokio::join!(
        async { a.new_stream_channel(b"x", 1).await.unwrap() },
        async { b.accept_stream_channel().await.unwrap() }
    );
    let stop = Arc::new(AtomicBool::new(false));
    let sent = Arc::new(AtomicUsize::new(0));
    let flooder = {
        let (a, stop, sent) = (a.clone(), stop.clone(), sent.clone());
        tokio::spawn(async move {
            while !stop.load(Ordering::Relaxed) {
                for _ in 0..PER_ROUND {
                    a.send_datagram(Datagram {
                        flow_id: 1,
                        target_host: Bytes::from_static(b"example.com"),
                        target_port: 53,
                        data: Bytes::from_static(b"0123456789abcdef"),
                    })
                    .await
                    .unwrap();
                    sent.fetch_add(1, Ordering::Relaxed);
                }
                tokio::task::yield_now().await;
            }
        })
    };
    let reader = {
        let b = b.clone();
        tokio::spawn(async move { while b.get_datagram().await.is_ok() {} })
    };
    tokio::time::sleep(std::time::Duration::from_millis(300)).await;
    let result = tokio::time::timeout(std::time::Duration::from_secs(3), async {
        stream_b.write_all(b"ping").await.unwrap();
        let mut buf = [0u8; 4];
        stream_a.read_exact(&mut buf).await.unwrap();
    })
    .await;
    eprintln!(
        "{} datagrams sent so far; stream bytes from B arrived: {}",
        sent.load(Ordering::Relaxed),
        result.is_ok()
    );
    stop.store(true, Ordering::Relaxed);
    flooder.await.unwrap();
    reader.abort();
    assert!(
        result.is_ok(),
        "four bytes written by B into an established stream did not reach A within 3 s \
         while A kept sending datagrams to B"
    );
}
