#!/bin/bash
# tools/ingest_seed.sh <ID> <round> "<checks to run>"  : copy /tmp/wt<round>-<ID>/seed into seeded/<ID>-seed<round>/, drop the worktree
set -u
id=$1; rnd=$2; checks=$3
src=/tmp/wt$rnd-$id/seed
d=/verif/seeded/$id-seed$rnd
[ -d $src ] || { echo "no $src"; exit 1; }
mkdir -p $d
cp -r $src/. $d/
rm -f $d/suite_with_patch.log $d/*.log
echo "$checks" > $d/checks.txt
git -C /repo worktree remove --force /tmp/wt$rnd-$id && echo "ingested $id -> $d"
ls $d
