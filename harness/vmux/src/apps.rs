//! Application-side actors written against the public penguin-mux API, and
//! the ledger they record their observations in.

use crate::link::{Link, MemWs};
use crate::sim::{GROUP_NONE, Sim, Spawner};
use bytes::Bytes;
use penguin_mux::config::Options;
use penguin_mux::timing::TimestampProvider;
use penguin_mux::{Multiplexor, MuxStream};
use std::cell::RefCell;
use std::collections::BTreeMap;
use std::convert::Infallible;
use std::io::IoSlice;
use std::rc::Rc;
use std::time::Duration;
use tokio::io::{AsyncReadExt, AsyncWriteExt};

// ---------------------------------------------------------------- RNG

/// Flow-id generator owned by the scenario: a fixed script, then a counter.
#[derive(Debug, Clone)]
pub struct ScriptRng {
    script: Vec<u32>,
    pos: usize,
    next: u32,
    pub draws: Rc<RefCell<Vec<u32>>>,
    /// values the driver pushes at run time; drawn before anything else
    pub inject: Rc<RefCell<std::collections::VecDeque<u32>>>,
}

// The multiplexor requires `R: Send`; the simulator is single-threaded and the
// log handle never leaves the thread.
unsafe impl Send for ScriptRng {}

impl ScriptRng {
    pub fn new(script: &[u32], fallback_start: u32) -> Self {
        Self {
            script: script.to_vec(),
            pos: 0,
            next: fallback_start,
            draws: Rc::new(RefCell::new(Vec::new())),
            inject: Rc::new(RefCell::new(std::collections::VecDeque::new())),
        }
    }
    fn draw(&mut self) -> u32 {
        let injected = self.inject.borrow_mut().pop_front();
        let v = if let Some(v) = injected {
            v
        } else if self.pos < self.script.len() {
            self.pos += 1;
            self.script[self.pos - 1]
        } else {
            self.next = self.next.wrapping_add(1);
            self.next
        };
        self.draws.borrow_mut().push(v);
        v
    }
}

impl rand::TryRng for ScriptRng {
    type Error = Infallible;
    fn try_next_u32(&mut self) -> Result<u32, Infallible> {
        Ok(self.draw())
    }
    fn try_next_u64(&mut self) -> Result<u64, Infallible> {
        Ok(u64::from(self.draw()))
    }
    fn try_fill_bytes(&mut self, dst: &mut [u8]) -> Result<(), Infallible> {
        for c in dst.chunks_mut(4) {
            let v = self.draw().to_le_bytes();
            c.copy_from_slice(&v[..c.len()]);
        }
        Ok(())
    }
}

// ---------------------------------------------------------------- clock

/// Timestamp provider on tokio's (pausable) clock.
#[derive(Clone, Copy, Debug)]
pub struct VClock(tokio::time::Instant);

impl TimestampProvider for VClock {
    fn now() -> Self {
        Self(tokio::time::Instant::now())
    }
    fn duration_since(&self, earlier: Self) -> Duration {
        self.0.duration_since(earlier.0)
    }
}

pub type Mux = Multiplexor<ScriptRng>;

// ---------------------------------------------------------------- ledger

/// Direction of a logical stream: 0 = opener -> acceptor, 1 = acceptor -> opener.
pub type Tag = u8;

#[derive(Clone, Debug, PartialEq, Eq, Hash)]
pub enum Ev {
    OpenOk { tag: Tag, side: usize },
    OpenErr { tag: Tag, side: usize, err: String },
    Accepted { tag: Tag, side: usize, host: Vec<u8>, port: u16 },
    AcceptErr { side: usize, err: String },
    /// one write call returned: `asked` bytes offered (per slice for vectored)
    Wrote { tag: Tag, dir: u8, asked: Vec<usize>, res: Result<usize, String> },
    Shutdown { tag: Tag, dir: u8, res: Result<(), String> },
    /// one read call returned (0 = end of stream)
    Read { tag: Tag, dir: u8, res: Result<usize, String> },
    Dropped { tag: Tag, side: usize },
    DgramSent { side: usize, n: u32, res: Result<(), String> },
    DgramGot { side: usize, flow: u32, host: Vec<u8>, port: u16, data: Vec<u8> },
    DgramErr { side: usize, err: String },
    BindResult { side: usize, n: u32, res: Result<bool, String> },
    BindSeen { side: usize, flow: u32, btype: u8, host: Vec<u8>, port: u16 },
    BindAnswered { side: usize, flow: u32, how: &'static str },
    BindNextErr { side: usize, err: String },
    Note(String),
}

#[derive(Clone, Debug, Default, PartialEq, Eq, Hash)]
pub struct DirLedger {
    /// bytes accepted by successful writes, in order
    pub written: Vec<u8>,
    /// bytes returned by reads, in order
    pub read: Vec<u8>,
    /// successful writes that accepted at least one byte (each is one Push frame / one unit of credit)
    pub writes_ok: u32,
    /// all successful write calls, including zero-length ones
    pub write_calls_ok: u32,
    pub shutdown: bool,
    pub eof: bool,
    pub write_err: Option<String>,
    pub read_err: Option<String>,
    pub writer_done: bool,
    pub reader_done: bool,
}

#[derive(Default, Debug)]
pub struct Obs {
    pub dirs: BTreeMap<(Tag, u8), DirLedger>,
    pub events: Vec<Ev>,
    /// named application futures: false = pending, true = resolved
    pub futures: BTreeMap<String, bool>,
    /// flow id of the stream with tag `tag` on `side` (through the verif hook)
    pub flow_ids: BTreeMap<(Tag, usize), u32>,
    /// oracle violations raised inside actors (key, description)
    pub violations: Vec<(String, String)>,
    /// what each sequential stream actor is currently doing: (tag, side) -> op
    pub current_op: BTreeMap<(Tag, usize), Op>,
    /// gates opened by the driver, and the wakers of applications waiting at a gate
    pub gates_open: std::collections::BTreeSet<u8>,
    pub gate_wakers: Vec<(u8, std::task::Waker)>,
}

pub type ObsRef = Rc<RefCell<Obs>>;

/// Wait at gate `n` until the driver opens it.
pub async fn wait_gate(obs: &ObsRef, n: u8) {
    std::future::poll_fn(|cx| {
        let mut o = obs.borrow_mut();
        if o.gates_open.contains(&n) {
            std::task::Poll::Ready(())
        } else {
            o.gate_wakers.push((n, cx.waker().clone()));
            std::task::Poll::Pending
        }
    })
    .await;
}

impl Obs {
    /// Let the applications waiting at gate `n` go on.
    pub fn open_gate(&mut self, n: u8) {
        self.gates_open.insert(n);
        let (go, keep): (Vec<_>, Vec<_>) = std::mem::take(&mut self.gate_wakers).into_iter().partition(|(g, _)| *g == n);
        self.gate_wakers = keep;
        for (_, w) in go {
            w.wake();
        }
    }
    pub fn dir(&mut self, tag: Tag, dir: u8) -> &mut DirLedger {
        self.dirs.entry((tag, dir)).or_default()
    }
    pub fn ev(&mut self, e: Ev) {
        self.events.push(e);
    }
    pub fn begin(&mut self, name: &str) {
        self.futures.insert(name.to_string(), false);
    }
    pub fn end(&mut self, name: &str) {
        self.futures.insert(name.to_string(), true);
    }
    pub fn pending(&self) -> Vec<String> {
        self.futures.iter().filter(|(_, d)| !**d).map(|(n, _)| n.clone()).collect()
    }
}

/// Byte `j` of the data written on stream `tag` in direction `dir`: distinct
/// across streams and directions, position-dependent.
pub fn pbyte(tag: Tag, dir: u8, j: usize) -> u8 {
    ((tag & 7) << 5) | ((dir & 1) << 4) | ((j % 13) as u8 + 1)
}

pub fn payload(tag: Tag, dir: u8, off: usize, len: usize) -> Vec<u8> {
    (off..off + len).map(|j| pbyte(tag, dir, j)).collect()
}

fn es(e: &std::io::Error) -> String {
    format!("{:?}", e.kind())
}

// ---------------------------------------------------------------- stream operations

#[derive(Clone, Debug, PartialEq, Eq, Hash)]
pub enum Op {
    /// one `write` call offering n bytes
    W(usize),
    /// one `write_vectored` call offering these slices
    WV(Vec<usize>),
    /// n consecutive `W(size)` calls
    Burst(usize, usize),
    Flush,
    Shutdown,
    /// read with a buffer of `chunk` bytes until end-of-stream or error
    ReadToEof(usize),
    /// read exactly `total` bytes (or until EOF/error) with a buffer of `chunk`
    ReadN(usize, usize),
    /// one read call with a buffer of `chunk` bytes
    ReadOnce(usize),
    /// drop the stream now (remaining ops are skipped)
    Drop,
    /// keep the stream and never complete (an application that just sits there)
    Park,
    /// wait until the driver opens gate `n` (`Obs::open_gate`): lets a driver decide WHEN an application goes on
    Gate(u8),
}

pub fn op_str(ops: &[Op]) -> String {
    ops.iter()
        .map(|o| match o {
            Op::W(n) => format!("w({n})"),
            Op::WV(v) if v.len() > 8 && v.iter().all(|x| *x == v[0]) => format!("wv({} slices of {})", v.len(), v[0]),
            Op::WV(v) => format!("wv({v:?})"),
            Op::Burst(n, s) => format!("burst({n}x{s})"),
            Op::Flush => "flush".into(),
            Op::Shutdown => "shutdown".into(),
            Op::ReadToEof(c) => format!("read_to_eof({c})"),
            Op::ReadN(t, c) => format!("read_n({t},{c})"),
            Op::ReadOnce(c) => format!("read({c})"),
            Op::Drop => "drop".into(),
            Op::Park => "park".into(),
            Op::Gate(n) => format!("gate({n})"),
        })
        .collect::<Vec<_>>()
        .join(",")
}

/// Anything that reads and writes like a stream (whole `MuxStream` or split halves).
pub trait RW: tokio::io::AsyncRead + tokio::io::AsyncWrite + Unpin {}
impl<T: tokio::io::AsyncRead + tokio::io::AsyncWrite + Unpin> RW for T {}

async fn do_write<S: tokio::io::AsyncWrite + Unpin>(s: &mut S, obs: &ObsRef, tag: Tag, wdir: u8, sizes: &[usize], vectored: bool) -> bool {
    let off = obs.borrow_mut().dir(tag, wdir).written.len();
    let total: usize = sizes.iter().sum();
    let data = payload(tag, wdir, off, total);
    let res = if vectored {
        let mut slices = Vec::new();
        let mut p = 0;
        for &n in sizes {
            slices.push(IoSlice::new(&data[p..p + n]));
            p += n;
        }
        s.write_vectored(&slices).await
    } else {
        s.write(&data).await
    };
    let mut o = obs.borrow_mut();
    match res {
        Ok(n) => {
            if n > total {
                o.violations.push(("write.overcount".into(), format!("write of {total} bytes returned {n}")));
            }
            let n2 = n.min(total);
            let d = o.dir(tag, wdir);
            d.written.extend_from_slice(&data[..n2]);
            // a zero-length write transmits nothing and takes no credit
            if n2 > 0 {
                d.writes_ok += 1;
            }
            d.write_calls_ok += 1;
            o.ev(Ev::Wrote { tag, dir: wdir, asked: sizes.to_vec(), res: Ok(n) });
            true
        }
        Err(e) => {
            o.dir(tag, wdir).write_err = Some(es(&e));
            o.ev(Ev::Wrote { tag, dir: wdir, asked: sizes.to_vec(), res: Err(es(&e)) });
            false
        }
    }
}

async fn do_read<S: tokio::io::AsyncRead + Unpin>(s: &mut S, obs: &ObsRef, tag: Tag, rdir: u8, chunk: usize) -> Option<usize> {
    let mut buf = vec![0u8; chunk];
    let res = s.read(&mut buf).await;
    let mut o = obs.borrow_mut();
    match res {
        Ok(n) => {
            let d = o.dir(tag, rdir);
            d.read.extend_from_slice(&buf[..n]);
            if n == 0 {
                d.eof = true;
            }
            o.ev(Ev::Read { tag, dir: rdir, res: Ok(n) });
            Some(n)
        }
        Err(e) => {
            o.dir(tag, rdir).read_err = Some(es(&e));
            o.ev(Ev::Read { tag, dir: rdir, res: Err(es(&e)) });
            None
        }
    }
}

/// Run `ops` in order on `s`.  `wdir` is the direction this end writes in
/// (0 if this end opened the stream), reads are recorded in `1 - wdir`.
/// Stops at the first failing write (later writes would fail the same way)
/// unless `keep_going`.
pub async fn run_ops<S: RW>(mut s: S, obs: ObsRef, tag: Tag, side: usize, wdir: u8, ops: Vec<Op>, keep_going: bool) {
    let rdir = 1 - wdir;
    for op in ops {
        obs.borrow_mut().current_op.insert((tag, side), op.clone());
        match op {
            Op::W(n) => {
                if !do_write(&mut s, &obs, tag, wdir, &[n], false).await && !keep_going {
                    break;
                }
            }
            Op::WV(v) => {
                if !do_write(&mut s, &obs, tag, wdir, &v, true).await && !keep_going {
                    break;
                }
            }
            Op::Burst(n, sz) => {
                let mut ok = true;
                for _ in 0..n {
                    if !do_write(&mut s, &obs, tag, wdir, &[sz], false).await {
                        ok = false;
                        break;
                    }
                }
                if !ok && !keep_going {
                    break;
                }
            }
            Op::Flush => {
                let _ = s.flush().await;
            }
            Op::Shutdown => {
                let r = s.shutdown().await;
                let mut o = obs.borrow_mut();
                if r.is_ok() {
                    o.dir(tag, wdir).shutdown = true;
                }
                o.ev(Ev::Shutdown { tag, dir: wdir, res: r.map_err(|e| es(&e)) });
            }
            Op::ReadToEof(chunk) => loop {
                match do_read(&mut s, &obs, tag, rdir, chunk).await {
                    Some(0) | None => break,
                    Some(_) => {}
                }
            },
            Op::ReadN(total, chunk) => {
                let mut got = 0;
                while got < total {
                    match do_read(&mut s, &obs, tag, rdir, chunk.min(total - got)).await {
                        Some(0) | None => break,
                        Some(n) => got += n,
                    }
                }
            }
            Op::ReadOnce(chunk) => {
                let _ = do_read(&mut s, &obs, tag, rdir, chunk).await;
            }
            Op::Drop => break,
            Op::Park => {
                std::future::pending::<()>().await;
            }
            Op::Gate(n) => wait_gate(&obs, n).await,
        }
    }
    {
        let mut o = obs.borrow_mut();
        o.current_op.remove(&(tag, side));
        o.dir(tag, wdir).writer_done = true;
        o.dir(tag, rdir).reader_done = true;
        o.ev(Ev::Dropped { tag, side });
    }
    drop(s);
}

/// What one end of a stream does once it has the stream.
#[derive(Clone, Debug, PartialEq, Eq, Hash)]
pub enum EndPlan {
    /// one task, sequential operations
    Seq(Vec<Op>),
    /// as `Seq` but carries on after a failed write (to observe later operations)
    SeqKeep(Vec<Op>),
    /// two tasks on split halves: (writer ops, reader ops)
    Split(Vec<Op>, Vec<Op>),
    /// the stream is bridged (`into_copy_bidirectional`, as penguin's client and server do) to an
    /// in-memory pipe of the given capacity; the operations run on the far end of that pipe
    Bridged(usize, Vec<Op>),
}

pub fn plan_str(p: &EndPlan) -> String {
    match p {
        EndPlan::Seq(o) => format!("seq[{}]", op_str(o)),
        EndPlan::SeqKeep(o) => format!("seq*[{}]", op_str(o)),
        EndPlan::Split(w, r) => format!("split[w:{} | r:{}]", op_str(w), op_str(r)),
        EndPlan::Bridged(c, o) => format!("bridged({c})[{}]", op_str(o)),
    }
}

pub fn start_end(sp: &Spawner, obs: &ObsRef, stream: MuxStream, tag: Tag, side: usize, wdir: u8, plan: EndPlan) {
    let (fid, ..) = stream.verif_state();
    obs.borrow_mut().flow_ids.insert((tag, side), fid);
    match plan {
        EndPlan::Seq(_) | EndPlan::SeqKeep(_) => {
            let keep = matches!(plan, EndPlan::SeqKeep(_));
            let (EndPlan::Seq(ops) | EndPlan::SeqKeep(ops)) = plan else { unreachable!() };
            let name = format!("s{tag}.{}", if side == 0 { "a" } else { "b" });
            obs.borrow_mut().begin(&name);
            let o2 = obs.clone();
            let n2 = name.clone();
            sp.spawn(name, GROUP_NONE, async move {
                run_ops(stream, o2.clone(), tag, side, wdir, ops, keep).await;
                o2.borrow_mut().end(&n2);
            });
        }
        EndPlan::Bridged(cap, ops) => {
            let (local, app) = tokio::io::duplex(cap.max(1));
            let sfx = if side == 0 { "a" } else { "b" };
            let bname = format!("s{tag}.{sfx}.bridge");
            let aname = format!("s{tag}.{sfx}");
            obs.borrow_mut().begin(&bname);
            obs.borrow_mut().begin(&aname);
            let (o1, o2) = (obs.clone(), obs.clone());
            let (b2, a2) = (bname.clone(), aname.clone());
            sp.spawn(bname, GROUP_NONE, async move {
                // a local pipe of a megabyte or more stands for "a fast producer": it is read through a buffer whose size
                // does not divide the frame limit (the caller may bring any buffer), else through the default one
                let r = if cap >= 1_000_000 { stream.into_copy_bidirectional_with_buf(tokio::io::BufReader::with_capacity(12_345, local)).await } else { stream.into_copy_bidirectional(local).await };
                o1.borrow_mut().ev(Ev::Note(format!("bridge {b2} ended: {:?}", r.map_err(|e| e.kind()))));
                o1.borrow_mut().end(&b2);
            });
            sp.spawn(aname, GROUP_NONE, async move {
                run_ops(app, o2.clone(), tag, side, wdir, ops, false).await;
                o2.borrow_mut().end(&a2);
            });
        }
        EndPlan::Split(wops, rops) => {
            let (r, w) = tokio::io::split(stream);
            let wn = format!("s{tag}.{}.w", if side == 0 { "a" } else { "b" });
            let rn = format!("s{tag}.{}.r", if side == 0 { "a" } else { "b" });
            obs.borrow_mut().begin(&wn);
            obs.borrow_mut().begin(&rn);
            let (o1, o2) = (obs.clone(), obs.clone());
            let (wn2, rn2) = (wn.clone(), rn.clone());
            sp.spawn(wn, GROUP_NONE, async move {
                run_half_w(w, o1.clone(), tag, wdir, wops).await;
                o1.borrow_mut().end(&wn2);
            });
            sp.spawn(rn, GROUP_NONE, async move {
                run_half_r(r, o2.clone(), tag, 1 - wdir, rops).await;
                o2.borrow_mut().end(&rn2);
            });
        }
    }
}

async fn run_half_w<S: tokio::io::AsyncWrite + Unpin>(mut s: S, obs: ObsRef, tag: Tag, wdir: u8, ops: Vec<Op>) {
    'outer: for op in ops {
        match op {
            Op::W(n) => {
                if !do_write(&mut s, &obs, tag, wdir, &[n], false).await {
                    break;
                }
            }
            Op::WV(v) => {
                if !do_write(&mut s, &obs, tag, wdir, &v, true).await {
                    break;
                }
            }
            Op::Burst(n, sz) => {
                for _ in 0..n {
                    if !do_write(&mut s, &obs, tag, wdir, &[sz], false).await {
                        break 'outer;
                    }
                }
            }
            Op::Flush => {
                let _ = s.flush().await;
            }
            Op::Shutdown => {
                let r = s.shutdown().await;
                let mut o = obs.borrow_mut();
                if r.is_ok() {
                    o.dir(tag, wdir).shutdown = true;
                }
                o.ev(Ev::Shutdown { tag, dir: wdir, res: r.map_err(|e| es(&e)) });
            }
            Op::Park => std::future::pending::<()>().await,
            Op::Gate(n) => wait_gate(&obs, n).await,
            Op::Drop => break,
            _ => {}
        }
    }
    obs.borrow_mut().dir(tag, wdir).writer_done = true;
}

async fn run_half_r<S: tokio::io::AsyncRead + Unpin>(mut s: S, obs: ObsRef, tag: Tag, rdir: u8, ops: Vec<Op>) {
    for op in ops {
        match op {
            Op::ReadToEof(chunk) => loop {
                match do_read(&mut s, &obs, tag, rdir, chunk).await {
                    Some(0) | None => break,
                    Some(_) => {}
                }
            },
            Op::ReadN(total, chunk) => {
                let mut got = 0;
                while got < total {
                    match do_read(&mut s, &obs, tag, rdir, chunk.min(total - got)).await {
                        Some(0) | None => break,
                        Some(n) => got += n,
                    }
                }
            }
            Op::ReadOnce(chunk) => {
                let _ = do_read(&mut s, &obs, tag, rdir, chunk).await;
            }
            Op::Park => std::future::pending::<()>().await,
            Op::Gate(n) => wait_gate(&obs, n).await,
            Op::Drop => break,
            _ => {}
        }
    }
    obs.borrow_mut().dir(tag, rdir).reader_done = true;
}

// ---------------------------------------------------------------- world

pub const GROUP_MUX_A: u8 = 1;
pub const GROUP_MUX_B: u8 = 2;

pub fn group_of(side: usize) -> u8 {
    if side == 0 { GROUP_MUX_A } else { GROUP_MUX_B }
}

#[derive(Clone, Debug)]
pub struct SideCfg {
    pub opts: Options,
    pub rng: Vec<u32>,
}

pub struct World {
    pub sim: Sim,
    pub obs: ObsRef,
    /// the application's handle; taken (dropped) by the "drop multiplexor" fault
    pub mux: [Option<Rc<Mux>>; 2],
    pub task_idx: [Option<usize>; 2],
    pub task_result: [Rc<RefCell<Option<Result<(), String>>>>; 2],
    pub rng_draws: [Rc<RefCell<Vec<u32>>>; 2],
    pub rng_inject: [Rc<RefCell<std::collections::VecDeque<u32>>>; 2],
    /// the byte pipes under the endpoints' real tungstenite WebSockets (`two_tungstenite` only; `sim.link` is unused then)
    pub pipe: Option<crate::bytepipe::BytePipe>,
}

impl World {
    /// Two real endpoints over a fresh link.
    pub fn two(cap: usize, a: &SideCfg, b: &SideCfg) -> Self {
        // experiment knob (never set by the registered checks): force a link capacity on every two-endpoint driver
        let cap = std::env::var("VERIF_FORCE_CAP").ok().and_then(|v| v.parse().ok()).unwrap_or(cap);
        let link = Link::new(cap);
        let mut w = World {
            sim: Sim::new(link.clone()),
            obs: Rc::new(RefCell::new(Obs::default())),
            mux: [None, None],
            task_idx: [None, None],
            task_result: [Rc::new(RefCell::new(None)), Rc::new(RefCell::new(None))],
            rng_draws: [Rc::new(RefCell::new(Vec::new())), Rc::new(RefCell::new(Vec::new()))],
            rng_inject: [Rc::new(RefCell::new(std::collections::VecDeque::new())), Rc::new(RefCell::new(std::collections::VecDeque::new()))],
            pipe: None,
        };
        w.add_endpoint(0, a);
        w.add_endpoint(1, b);
        w
    }

    /// One real endpoint on `side`; the other side is driven raw by the driver.
    pub fn one(cap: usize, side: usize, cfg: &SideCfg) -> Self {
        let link = Link::new(cap);
        let mut w = World {
            sim: Sim::new(link.clone()),
            obs: Rc::new(RefCell::new(Obs::default())),
            mux: [None, None],
            task_idx: [None, None],
            task_result: [Rc::new(RefCell::new(None)), Rc::new(RefCell::new(None))],
            rng_draws: [Rc::new(RefCell::new(Vec::new())), Rc::new(RefCell::new(Vec::new()))],
            rng_inject: [Rc::new(RefCell::new(std::collections::VecDeque::new())), Rc::new(RefCell::new(std::collections::VecDeque::new()))],
            pipe: None,
        };
        w.add_endpoint(side, cfg);
        w.sim.raw_side = Some(1 - side);
        w
    }

    /// Two real endpoints whose WebSocket is a REAL `tokio_tungstenite::WebSocketStream` (A in the client role, B in the
    /// server role, no HTTP handshake) over the in-memory byte pipes of `bytepipe.rs` with `cap_bytes` per direction: the
    /// crate's tungstenite adapter (`ws.rs`) and tungstenite's close / end-of-file / error behaviour are part of the system.
    /// Deliveries of the pipes are the `Step::Deliver` steps of the simulator; `sim.link` stays empty.
    pub fn two_tungstenite(cap_bytes: usize, a: &SideCfg, b: &SideCfg) -> Self {
        let pipe = crate::bytepipe::BytePipe::new(cap_bytes);
        let mut w = World::two_unconnected();
        w.sim.xport = Some(Rc::new(pipe.clone()));
        for (side, cfg) in [(0, a), (1, b)] {
            let ws = tungstenite_over(&pipe, side);
            w.add_endpoint_on(side, cfg, ws);
        }
        w.pipe = Some(pipe);
        w
    }

    /// One real endpoint on `side` over a real `WebSocketStream` (side 0: client role, side 1: server role); the other end
    /// of the byte pipes belongs to the driver, which plays a raw BYTE-level peer (`BytePipe::inject` / `raw_take`).
    pub fn one_tungstenite(cap_bytes: usize, side: usize, cfg: &SideCfg) -> Self {
        let pipe = crate::bytepipe::BytePipe::new(cap_bytes);
        let mut w = World::two_unconnected();
        w.sim.xport = Some(Rc::new(pipe.clone()));
        let ws = tungstenite_over(&pipe, side);
        w.add_endpoint_on(side, cfg, ws);
        w.pipe = Some(pipe);
        w
    }

    fn two_unconnected() -> Self {
        World {
            sim: Sim::new(Link::new(crate::link::UNBOUNDED_CAP)),
            obs: Rc::new(RefCell::new(Obs::default())),
            mux: [None, None],
            task_idx: [None, None],
            task_result: [Rc::new(RefCell::new(None)), Rc::new(RefCell::new(None))],
            rng_draws: [Rc::new(RefCell::new(Vec::new())), Rc::new(RefCell::new(Vec::new()))],
            rng_inject: [Rc::new(RefCell::new(std::collections::VecDeque::new())), Rc::new(RefCell::new(std::collections::VecDeque::new()))],
            pipe: None,
        }
    }

    fn add_endpoint(&mut self, side: usize, cfg: &SideCfg) {
        let ws: MemWs = self.sim.link.endpoint(side);
        self.add_endpoint_on(side, cfg, ws);
    }

    fn add_endpoint_on<S: penguin_mux::ws::WebSocket>(&mut self, side: usize, cfg: &SideCfg, ws: S) {
        let rng = ScriptRng::new(&cfg.rng, if side == 0 { 0x0a00_0000 } else { 0x0b00_0000 });
        self.rng_draws[side] = rng.draws.clone();
        self.rng_inject[side] = rng.inject.clone();
        let (mux, taskdata) = Mux::new_detailed::<S, VClock>(ws, cfg.opts, rng);
        self.mux[side] = Some(Rc::new(mux));
        let res = self.task_result[side].clone();
        let name = if side == 0 { "taskA" } else { "taskB" };
        let idx = self.sim.spawn(name, GROUP_NONE, async move {
            let r = taskdata.into_task().await;
            *res.borrow_mut() = Some(r.map_err(|e| format!("{e:?}")));
        });
        self.task_idx[side] = Some(idx);
    }

    pub fn mux(&self, side: usize) -> Rc<Mux> {
        self.mux[side].as_ref().expect("mux present").clone()
    }

    /// The application lets go of the multiplexor on `side`: every task that
    /// still uses the handle is cancelled first (a future borrowing the
    /// multiplexor cannot outlive it), then the handle is dropped.
    pub fn drop_mux(&mut self, side: usize) {
        let g = group_of(side);
        let cancelled: Vec<String> = self.sim.tasks.iter().filter(|t| t.group == g && !t.done).map(|t| t.name.clone()).collect();
        self.sim.cancel_group(g);
        {
            let mut o = self.obs.borrow_mut();
            for n in cancelled {
                // cancelled by the application itself: not a pending operation any more
                if o.futures.contains_key(&n) {
                    o.end(&n);
                }
                o.ev(Ev::Note(format!("cancelled {n}")));
            }
        }
        self.mux[side] = None;
    }

    /// Spawn a task that opens a stream and then follows `plan`.
    pub fn spawn_opener(&mut self, side: usize, tag: Tag, host: Vec<u8>, port: u16, plan: EndPlan) {
        let mux = self.mux(side);
        let obs = self.obs.clone();
        let sp = self.sim.spawner.clone();
        let name = format!("open{tag}.{}", if side == 0 { "a" } else { "b" });
        obs.borrow_mut().begin(&name);
        let n2 = name.clone();
        self.sim.spawn(name, group_of(side), async move {
            let r = mux.new_stream_channel(&host, port).await;
            match r {
                Ok(s) => {
                    obs.borrow_mut().ev(Ev::OpenOk { tag, side });
                    start_end(&sp, &obs, s, tag, side, 0, plan);
                }
                Err(e) => obs.borrow_mut().ev(Ev::OpenErr { tag, side, err: format!("{e:?}") }),
            }
            obs.borrow_mut().end(&n2);
        });
    }

    /// Spawn a task that accepts `n` streams (or forever if `n == usize::MAX`);
    /// the plan of each accepted stream is looked up by the tag in `dest_host[0]`.
    pub fn spawn_acceptor(&mut self, side: usize, n: usize, plans: BTreeMap<Tag, EndPlan>) {
        let mux = self.mux(side);
        let obs = self.obs.clone();
        let sp = self.sim.spawner.clone();
        let name = format!("accept.{}", if side == 0 { "a" } else { "b" });
        obs.borrow_mut().begin(&name);
        let n2 = name.clone();
        let restart = restart_waits();
        self.sim.spawn(name, group_of(side), async move {
            let mut i = 0;
            while i < n {
                match wait_restarting(restart, || mux.accept_stream_channel()).await {
                    Ok(s) => {
                        let tag = s.dest_host.first().copied().unwrap_or(0xff);
                        obs.borrow_mut().ev(Ev::Accepted { tag, side, host: s.dest_host.to_vec(), port: s.dest_port });
                        let plan = plans.get(&tag).cloned().unwrap_or(EndPlan::Seq(vec![Op::Drop]));
                        start_end(&sp, &obs, s, tag, side, 1, plan);
                    }
                    Err(e) => {
                        obs.borrow_mut().ev(Ev::AcceptErr { side, err: format!("{e:?}") });
                        break;
                    }
                }
                i += 1;
            }
            obs.borrow_mut().end(&n2);
        });
    }

    /// Like `spawn_acceptor`, but the tag and plan of an accepted stream are looked up by (host, port).
    pub fn spawn_acceptor_by(&mut self, side: usize, n: usize, table: BTreeMap<(Vec<u8>, u16), (Tag, EndPlan)>) {
        self.spawn_acceptor_by_named(side, "", n, table);
    }

    /// Several accept tasks on one side need distinct names (`accept<suffix>.<side>`).
    pub fn spawn_acceptor_by_named(&mut self, side: usize, suffix: &str, n: usize, table: BTreeMap<(Vec<u8>, u16), (Tag, EndPlan)>) {
        let mux = self.mux(side);
        let obs = self.obs.clone();
        let sp = self.sim.spawner.clone();
        let name = format!("accept{suffix}.{}", if side == 0 { "a" } else { "b" });
        obs.borrow_mut().begin(&name);
        let n2 = name.clone();
        let restart = restart_waits();
        self.sim.spawn(name, group_of(side), async move {
            let mut i = 0;
            while i < n {
                match wait_restarting(restart, || mux.accept_stream_channel()).await {
                    Ok(s) => {
                        let key = (s.dest_host.to_vec(), s.dest_port);
                        let (tag, plan) = table.get(&key).cloned().unwrap_or((0xff, EndPlan::Seq(vec![Op::Drop])));
                        obs.borrow_mut().ev(Ev::Accepted { tag, side, host: key.0, port: key.1 });
                        start_end(&sp, &obs, s, tag, side, 1, plan);
                    }
                    Err(e) => {
                        obs.borrow_mut().ev(Ev::AcceptErr { side, err: format!("{e:?}") });
                        break;
                    }
                }
                i += 1;
            }
            obs.borrow_mut().end(&n2);
        });
    }

    pub fn task_done(&self, side: usize) -> bool {
        self.task_idx[side].is_some_and(|i| self.sim.tasks[i].done)
    }
}

/// A real `WebSocketStream` on end `side` of the byte pipes (side 0: client role, side 1: server role), no HTTP handshake.
fn tungstenite_over(pipe: &crate::bytepipe::BytePipe, side: usize) -> tokio_tungstenite::WebSocketStream<crate::bytepipe::PipeEnd> {
    use tokio_tungstenite::{WebSocketStream, tungstenite::protocol::{Role, WebSocketConfig}};
    // tungstenite's defaults except the size of the read buffer: the default (128 KiB) is allocated per endpoint and
    // zero-filled on EVERY read of the byte stream (~2 ms per execution, 20x the rest); 4 KiB holds every frame of
    // the scenarios many times over and changes nothing but the chunking of reads
    let mut wscfg = WebSocketConfig::default().read_buffer_size(4096);
    let limit = WS_WRITE_LIMIT.with(std::cell::Cell::get);
    if limit > 0 {
        // an application may bound what the WebSocket buffers for writing (tungstenite: a message that does not fit is
        // handed back with `WriteBufferFull`)
        wscfg = wscfg.write_buffer_size(0).max_write_buffer_size(limit);
    }
    // `from_raw_socket` only wraps the stream: ready at its first poll (the waker it registers is replaced by the
    // connection task's at the first `poll_next`)
    let mut mk = Box::pin(WebSocketStream::from_raw_socket(pipe.endpoint(side), if side == 0 { Role::Client } else { Role::Server }, Some(wscfg)));
    let std::task::Poll::Ready(ws) = mk.as_mut().poll(&mut std::task::Context::from_waker(std::task::Waker::noop())) else { panic!("from_raw_socket not ready at once") };
    ws
}

pub fn opts(rwnd: u32, thr: u32) -> Options {
    Options::new().rwnd(rwnd).default_rwnd_threshold(thr)
}

pub fn bytes_of(v: &[u8]) -> Bytes {
    Bytes::copy_from_slice(v)
}

thread_local! {
    /// `max_write_buffer_size` for the WebSockets `two_tungstenite` builds (0 = tungstenite's default)
    pub static WS_WRITE_LIMIT: std::cell::Cell<usize> = const { std::cell::Cell::new(0) };
}

/// Sets `WS_WRITE_LIMIT` for the current thread until dropped.
pub struct WsWriteLimit;
impl WsWriteLimit {
    pub fn set(v: usize) -> Self {
        WS_WRITE_LIMIT.with(|c| c.set(v));
        WsWriteLimit
    }
}
impl Drop for WsWriteLimit {
    fn drop(&mut self) {
        WS_WRITE_LIMIT.with(|c| c.set(0));
    }
}

// ---------------------------------------------------------------- waits inside a select-like loop

thread_local! {
    /// When set (by a driver, for the executions of one case), the application actors below do not keep ONE future of
    /// `accept_stream_channel` / `get_datagram` / `next_bind_request` across polls: like a `select!` in a loop they make
    /// a fresh future for every poll and drop it when it is not ready. The three calls are documented as cancel safe
    /// (and the penguin binaries use them exactly so), so nothing may be lost or duplicated that way.
    pub static RESTART_WAITS: std::cell::Cell<bool> = const { std::cell::Cell::new(false) };
}

/// Sets `RESTART_WAITS` for the current thread until dropped (also when the execution unwinds).
pub struct RestartWaits;
impl RestartWaits {
    pub fn set(v: bool) -> Self {
        RESTART_WAITS.with(|c| c.set(v));
        RestartWaits
    }
}
impl Drop for RestartWaits {
    fn drop(&mut self) {
        RESTART_WAITS.with(|c| c.set(false));
    }
}

pub fn restart_waits() -> bool {
    RESTART_WAITS.with(std::cell::Cell::get)
}

pub async fn wait_restarting<T, F: Future<Output = T>>(restart: bool, mut mk: impl FnMut() -> F) -> T {
    if !restart {
        return mk().await;
    }
    std::future::poll_fn(|cx| {
        let mut f = Box::pin(mk());
        f.as_mut().poll(cx)
    })
    .await
}

// ---------------------------------------------------------------- datagram actors

use penguin_mux::Datagram;

pub fn dgram(flow: u32, host: &[u8], port: u16, data: &[u8]) -> Datagram {
    Datagram { flow_id: flow, target_host: bytes_of(host), target_port: port, data: bytes_of(data) }
}

impl World {
    /// Send `list` datagrams in order, then (optionally) wait for `expect_replies` datagrams.
    /// With `lockstep`, wait for one reply after each datagram instead (ping-pong).
    pub fn spawn_dgram_sender(&mut self, side: usize, name: &str, list: Vec<Datagram>, expect_replies: usize, lockstep: bool) {
        let mux = self.mux(side);
        let obs = self.obs.clone();
        let name = name.to_string();
        obs.borrow_mut().begin(&name);
        let n2 = name.clone();
        self.sim.spawn(name, group_of(side), async move {
            for (i, d) in list.into_iter().enumerate() {
                let r = mux.send_datagram(d).await;
                obs.borrow_mut().ev(Ev::DgramSent { side, n: i as u32, res: r.map_err(|e| format!("{e:?}")) });
                if lockstep {
                    match mux.get_datagram().await {
                        Ok(d) => obs.borrow_mut().ev(Ev::DgramGot { side, flow: d.flow_id, host: d.target_host.to_vec(), port: d.target_port, data: d.data.to_vec() }),
                        Err(e) => {
                            obs.borrow_mut().ev(Ev::DgramErr { side, err: format!("{e:?}") });
                            break;
                        }
                    }
                }
            }
            for _ in 0..if lockstep { 0 } else { expect_replies } {
                match mux.get_datagram().await {
                    Ok(d) => obs.borrow_mut().ev(Ev::DgramGot { side, flow: d.flow_id, host: d.target_host.to_vec(), port: d.target_port, data: d.data.to_vec() }),
                    Err(e) => {
                        obs.borrow_mut().ev(Ev::DgramErr { side, err: format!("{e:?}") });
                        break;
                    }
                }
            }
            obs.borrow_mut().end(&n2);
        });
    }

    /// Receive `n` datagrams (usize::MAX = forever); echo each back when `echo`.
    pub fn spawn_dgram_receiver(&mut self, side: usize, name: &str, n: usize, echo: bool) {
        let mux = self.mux(side);
        let obs = self.obs.clone();
        let name = name.to_string();
        obs.borrow_mut().begin(&name);
        let n2 = name.clone();
        let restart = restart_waits();
        self.sim.spawn(name, group_of(side), async move {
            let mut i = 0;
            while i < n {
                match wait_restarting(restart, || mux.get_datagram()).await {
                    Ok(d) => {
                        obs.borrow_mut().ev(Ev::DgramGot { side, flow: d.flow_id, host: d.target_host.to_vec(), port: d.target_port, data: d.data.to_vec() });
                        if echo {
                            let r = mux.send_datagram(d).await;
                            obs.borrow_mut().ev(Ev::DgramSent { side, n: i as u32, res: r.map_err(|e| format!("{e:?}")) });
                        }
                    }
                    Err(e) => {
                        obs.borrow_mut().ev(Ev::DgramErr { side, err: format!("{e:?}") });
                        break;
                    }
                }
                i += 1;
            }
            obs.borrow_mut().end(&n2);
        });
    }
}

// ---------------------------------------------------------------- bind actors

use penguin_mux::frame::BindType;

#[derive(Clone, Copy, Debug, PartialEq, Eq, Hash)]
pub enum BindAnswer {
    Accept,
    Reject,
    /// drop the `BindRequest` without answering
    DropIt,
    /// keep the request forever without answering
    Never,
}

pub fn btype_of(b: u8) -> BindType {
    if b == 1 { BindType::Stream } else { BindType::Datagram }
}

impl World {
    /// One `request_bind` call; the result is recorded as `BindResult { n }`.
    pub fn spawn_bind_requester(&mut self, side: usize, n: u32, btype: u8, host: Vec<u8>, port: u16) {
        let mux = self.mux(side);
        let obs = self.obs.clone();
        let name = format!("bindreq{n}.{}", if side == 0 { "a" } else { "b" });
        obs.borrow_mut().begin(&name);
        let n2 = name.clone();
        self.sim.spawn(name, group_of(side), async move {
            let r = mux.request_bind(&host, port, btype_of(btype)).await;
            obs.borrow_mut().ev(Ev::BindResult { side, n, res: r.map_err(|e| format!("{e:?}")) });
            obs.borrow_mut().end(&n2);
        });
    }

    /// Collect `expect` bind requests, then answer them: `order[i]` is the index (arrival
    /// order) of the i-th request to answer, `answers[j]` what to do with arrival j.
    /// With `expect == 0` every request is answered immediately with `answers[0]` forever.
    pub fn spawn_bind_responder(&mut self, side: usize, expect: usize, order: Vec<usize>, answers: Vec<BindAnswer>) {
        self.spawn_bind_responder_named(side, "", expect, order, answers);
    }

    /// Several responder tasks on one side need distinct names (`bindresp<suffix>.<side>`).
    pub fn spawn_bind_responder_named(&mut self, side: usize, suffix: &str, expect: usize, order: Vec<usize>, answers: Vec<BindAnswer>) {
        let mux = self.mux(side);
        let obs = self.obs.clone();
        let name = format!("bindresp{suffix}.{}", if side == 0 { "a" } else { "b" });
        obs.borrow_mut().begin(&name);
        let n2 = name.clone();
        let restart = restart_waits();
        self.sim.spawn(name, group_of(side), async move {
            let mut held: Vec<Option<penguin_mux::BindRequest<'static>>> = Vec::new();
            loop {
                if expect > 0 && held.len() >= expect {
                    break;
                }
                match wait_restarting(restart, || mux.next_bind_request()).await {
                    Ok(req) => {
                        obs.borrow_mut().ev(Ev::BindSeen {
                            side,
                            flow: req.flow_id(),
                            btype: req.bind_type() as u8,
                            host: req.host().to_vec(),
                            port: req.port(),
                        });
                        if expect == 0 {
                            answer(&obs, side, req, answers[0]);
                        } else {
                            held.push(Some(req));
                        }
                    }
                    Err(e) => {
                        obs.borrow_mut().ev(Ev::BindNextErr { side, err: format!("{e:?}") });
                        break;
                    }
                }
            }
            let mut keep = Vec::new();
            for &j in &order {
                if let Some(req) = held.get_mut(j).and_then(Option::take) {
                    if let Some(k) = answer(&obs, side, req, answers[j]) {
                        keep.push(k);
                    }
                }
            }
            obs.borrow_mut().end(&n2);
            if !keep.is_empty() || held.iter().any(Option::is_some) {
                // requests that are never answered stay alive with this task
                std::future::pending::<()>().await;
            }
        });
    }
}

fn answer(obs: &ObsRef, side: usize, req: penguin_mux::BindRequest<'static>, a: BindAnswer) -> Option<penguin_mux::BindRequest<'static>> {
    let flow = req.flow_id();
    match a {
        BindAnswer::Accept => {
            let _ = req.reply(true);
            obs.borrow_mut().ev(Ev::BindAnswered { side, flow, how: "accept" });
            // the request object is dropped after an explicit answer: its Drop sends a Reset as well
            drop(req);
            None
        }
        BindAnswer::Reject => {
            let _ = req.reply(false);
            obs.borrow_mut().ev(Ev::BindAnswered { side, flow, how: "reject" });
            drop(req);
            None
        }
        BindAnswer::DropIt => {
            obs.borrow_mut().ev(Ev::BindAnswered { side, flow, how: "drop" });
            drop(req);
            None
        }
        BindAnswer::Never => {
            obs.borrow_mut().ev(Ev::BindAnswered { side, flow, how: "never" });
            Some(req)
        }
    }
}
