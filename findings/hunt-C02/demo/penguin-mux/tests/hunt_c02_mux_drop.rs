//! C02 demo 3: the reading endpoint drops its `Multiplexor` handle (it still holds the
//! stream and reads it to the end). Data that the peer wrote successfully and closed
//! with a successful `shutdown` is thrown away by the peer's task as soon as it sees the
//! WebSocket `Close`, and the reader gets a *clean* end-of-stream after a strict prefix.

use core::sync::atomic::{AtomicBool, Ordering};
use core::task::{Context, Poll};
use core::time::Duration;
use futures_util::task::AtomicWaker;
use penguin_mux::ws::{Message, WebSocket};
use penguin_mux::{Error, Multiplexor};
use std::sync::Arc;
use tokio::io::{AsyncReadExt, AsyncWriteExt};
use tokio::sync::mpsc;

/// In-memory, reliable, ordered link whose sending side can exert back-pressure
/// (`poll_ready` is `Pending` while the gate is closed), like a full TCP send buffer.
struct Gate {
    open: AtomicBool,
    waker: AtomicWaker,
}
struct Link {
    tx: Option<mpsc::UnboundedSender<Message>>,
    rx: mpsc::UnboundedReceiver<Message>,
    outbound_gate: Option<Arc<Gate>>,
}
impl WebSocket for Link {
    fn poll_ready_unpin(&mut self, cx: &mut Context<'_>) -> Poll<Result<(), Error>> {
        if self.tx.is_none() {
            return Poll::Ready(Err(Error::Closed));
        }
        if let Some(gate) = &self.outbound_gate {
            if !gate.open.load(Ordering::Acquire) {
                gate.waker.register(cx.waker());
                if !gate.open.load(Ordering::Acquire) {
                    return Poll::Pending;
                }
            }
        }
        Poll::Ready(Ok(()))
    }
    fn start_send_unpin(&mut self, item: Message) -> Result<(), Error> {
        self.tx.as_ref().ok_or(Error::Closed)?.send(item).or(Err(Error::Closed))
    }
    fn poll_flush_unpin(&mut self, _cx: &mut Context<'_>) -> Poll<Result<(), Error>> {
        Poll::Ready(Ok(()))
    }
    fn poll_close_unpin(&mut self, _cx: &mut Context<'_>) -> Poll<Result<(), Error>> {
        if let Some(tx) = self.tx.take() {
            tx.send(Message::Close).ok();
        }
        Poll::Ready(Ok(()))
    }
    fn poll_next_unpin(&mut self, cx: &mut Context<'_>) -> Poll<Option<Result<Message, Error>>> {
        self.rx.poll_recv(cx).map(|m| m.map(Ok))
    }
}

#[tokio::test(flavor = "multi_thread")]
async fn c02_reader_drops_multiplexor_handle_peer_data_lost_with_clean_eof() {
    let gate = Arc::new(Gate {
        open: AtomicBool::new(true),
        waker: AtomicWaker::new(),
    });
    let (a2b_tx, a2b_rx) = mpsc::unbounded_channel();
    let (b2a_tx, b2a_rx) = mpsc::unbounded_channel();
    let link_a = Link { tx: Some(a2b_tx), rx: b2a_rx, outbound_gate: None };
    let link_b = Link { tx: Some(b2a_tx), rx: a2b_rx, outbound_gate: Some(gate.clone()) };
    let mux_a = Multiplexor::new(link_a);
    let mux_b = Multiplexor::new(link_b);

    let mut reader = mux_a.new_stream_channel(&[], 0).await.unwrap();
    let mut writer = mux_b.accept_stream_channel().await.unwrap();
    tokio::time::sleep(Duration::from_millis(50)).await;

    // B's link is congested for a moment
    gate.open.store(false, Ordering::Release);
    writer.write_all(b"hello").await.unwrap();
    writer.flush().await.unwrap();
    writer.shutdown().await.unwrap();
    tokio::time::sleep(Duration::from_millis(50)).await;

    // A only needs the one stream it has
    drop(mux_a);
    tokio::time::sleep(Duration::from_millis(50)).await;
    gate.open.store(true, Ordering::Release);
    gate.waker.wake();

    let mut got = Vec::new();
    reader.read_to_end(&mut got).await.unwrap();
    assert_eq!(
        String::from_utf8_lossy(&got),
        "hello",
        "write_all/flush/shutdown all succeeded on the peer, read_to_end succeeded here"
    );
    drop(mux_b);
}
