//! C01 (end-to-end transparency of the tunnel): tests that FAIL on the unmodified tree.
//! See hunt/REPORT.md. Run inside `unshare -nm` with the hosts file of the report bound
//! over /etc/hosts (finding 2 needs a `localhost` that is both `::1` and `127.0.0.1`).
#![allow(clippy::all, clippy::pedantic, clippy::unwrap_used, dead_code, unused_imports)]

use penguin_mux::timing::OptionalDuration;
use rusty_penguin_lib::arg::{ClientArgs, Remote, ServerArgs, ServerUrl};
use rusty_penguin_lib::client::{HandlerResources, client_main_inner};
use rusty_penguin_lib::server::server_main;
use std::net::SocketAddr;
use std::str::FromStr;
use std::time::Duration;
use tokio::io::{AsyncReadExt, AsyncWriteExt};
use tokio::net::{TcpListener, TcpStream, UdpSocket};
use tokio::time::timeout;

fn free_tcp_port(host: &str) -> u16 {
    std::net::TcpListener::bind((host, 0))
        .unwrap()
        .local_addr()
        .unwrap()
        .port()
}

fn free_udp_port(host: &str) -> u16 {
    std::net::UdpSocket::bind((host, 0))
        .unwrap()
        .local_addr()
        .unwrap()
        .port()
}

struct Env {
    client: tokio::task::JoinHandle<()>,
    server: tokio::task::JoinHandle<()>,
}

impl Drop for Env {
    fn drop(&mut self) {
        self.client.abort();
        self.server.abort();
    }
}

fn logging() {
    use tracing_subscriber::{EnvFilter, layer::SubscriberExt, util::SubscriberInitExt};
    tracing_subscriber::registry()
        .with(tracing_subscriber::fmt::layer())
        .with(EnvFilter::from_default_env())
        .try_init()
        .ok();
    rusty_penguin_lib::tls::init_crypto_provider();
}

async fn start(remotes: &[String]) -> Env {
    logging();
    let sport = free_tcp_port("127.0.0.1");
    let server_args: &'static ServerArgs = Box::leak(Box::new(ServerArgs {
        host: vec!["127.0.0.1".to_string()],
        port: vec![sport],
        not_found_resp: "404".to_string(),
        timeout: OptionalDuration::from_secs(5),
        ..Default::default()
    }));
    let client_args: &'static ClientArgs = Box::leak(Box::new(ClientArgs {
        server: ServerUrl::from_str(&format!("ws://127.0.0.1:{sport}/ws")).unwrap(),
        remote: remotes
            .iter()
            .map(|r| Remote::from_str(r).unwrap())
            .collect(),
        keepalive: OptionalDuration::NONE,
        max_retry_count: 10,
        max_retry_interval: 10,
        channel_timeout: OptionalDuration::from_secs(10),
        ..Default::default()
    }));
    let (hr, stream_command_rx, datagram_rx) = HandlerResources::create();
    let hr: &'static HandlerResources = Box::leak(Box::new(hr));
    let server = tokio::spawn(async move {
        let r = server_main(server_args).await;
        eprintln!("server exited: {r:?}");
    });
    tokio::time::sleep(Duration::from_millis(300)).await;
    let client = tokio::spawn(async move {
        let r = client_main_inner(client_args, hr, stream_command_rx, datagram_rx).await;
        eprintln!("client exited: {r:?}");
    });
    tokio::time::sleep(Duration::from_millis(700)).await;
    Env { client, server }
}

fn pattern(n: usize, seed: u8) -> Vec<u8> {
    (0..n)
        .map(|i| (i as u32).wrapping_mul(2654435761).to_be_bytes()[0] ^ seed)
        .collect()
}

const T: Duration = Duration::from_secs(20);

// ---------------------------------------------------------------- helpers

/// Entry kinds
#[derive(Clone, Copy, Debug)]
enum Entry {
    Fixed,
    Socks5,
    Socks4,
    Socks4a,
    Http,
}

async fn open(entry: Entry, lport: u16, target: SocketAddr) -> TcpStream {
    let mut s = TcpStream::connect(("127.0.0.1", lport)).await.unwrap();
    match entry {
        Entry::Fixed => {}
        Entry::Socks5 => {
            s.write_all(b"\x05\x01\x00").await.unwrap();
            let mut b = [0u8; 2];
            s.read_exact(&mut b).await.unwrap();
            assert_eq!(b, [5, 0]);
            let mut req = vec![5, 1, 0];
            match target {
                SocketAddr::V4(a) => {
                    req.push(1);
                    req.extend(a.ip().octets());
                }
                SocketAddr::V6(a) => {
                    req.push(4);
                    req.extend(a.ip().octets());
                }
            }
            req.extend(target.port().to_be_bytes());
            s.write_all(&req).await.unwrap();
            let mut b = [0u8; 10];
            s.read_exact(&mut b).await.unwrap();
            assert_eq!(&b[..2], &[5, 0]);
        }
        Entry::Socks4 => {
            let SocketAddr::V4(a) = target else { panic!() };
            let mut req = vec![4, 1];
            req.extend(a.port().to_be_bytes());
            req.extend(a.ip().octets());
            req.extend(b"me\0");
            s.write_all(&req).await.unwrap();
            let mut b = [0u8; 8];
            s.read_exact(&mut b).await.unwrap();
            assert_eq!(&b[..2], &[0, 0x5a]);
        }
        Entry::Socks4a => {
            let mut req = vec![4, 1];
            req.extend(target.port().to_be_bytes());
            req.extend([0, 0, 0, 1]);
            req.extend(b"me\0");
            req.extend(target.ip().to_string().as_bytes());
            req.push(0);
            s.write_all(&req).await.unwrap();
            let mut b = [0u8; 8];
            s.read_exact(&mut b).await.unwrap();
            assert_eq!(&b[..2], &[0, 0x5a]);
        }
        Entry::Http => {
            s.write_all(format!("CONNECT {target} HTTP/1.1\r\nHost: {target}\r\n\r\n").as_bytes())
                .await
                .unwrap();
            // read until \r\n\r\n
            let mut acc = Vec::new();
            loop {
                let mut b = [0u8; 1];
                let n = s.read(&mut b).await.unwrap();
                assert_eq!(n, 1, "EOF in CONNECT reply: {:?}", String::from_utf8_lossy(&acc));
                acc.push(b[0]);
                if acc.ends_with(b"\r\n\r\n") {
                    break;
                }
            }
            assert!(acc.starts_with(b"HTTP/1.1 200"), "{:?}", String::from_utf8_lossy(&acc));
        }
    }
    s
}

fn remote_for(entry: Entry, lport: u16, target: SocketAddr) -> String {
    match entry {
        Entry::Fixed => format!("127.0.0.1:{lport}:{target}"),
        Entry::Socks5 | Entry::Socks4 | Entry::Socks4a => format!("127.0.0.1:{lport}:socks"),
        Entry::Http => format!("127.0.0.1:{lport}:http"),
    }
}

async fn udp_echo_target(host: &str) -> (SocketAddr, tokio::task::JoinHandle<()>) {
    let sock = UdpSocket::bind((host, 0)).await.unwrap();
    let addr = sock.local_addr().unwrap();
    let h = tokio::spawn(async move {
        let mut buf = vec![0u8; 70000];
        loop {
            let (n, src) = sock.recv_from(&mut buf).await.unwrap();
            // reply = payload prefixed by nothing: pure echo
            sock.send_to(&buf[..n], src).await.unwrap();
        }
    });
    (addr, h)
}

async fn udp_roundtrip(sock: &UdpSocket, to: SocketAddr, payload: &[u8], wait: Duration) -> Option<(Vec<u8>, SocketAddr)> {
    sock.send_to(payload, to).await.unwrap();
    let mut buf = vec![0u8; 70000];
    match timeout(wait, sock.recv_from(&mut buf)).await {
        Ok(r) => {
            let (n, from) = r.unwrap();
            buf.truncate(n);
            Some((buf, from))
        }
        Err(_) => None,
    }
}

async fn socks5_associate(lport: u16) -> (TcpStream, SocketAddr) {
    let mut sock = TcpStream::connect(("127.0.0.1", lport)).await.unwrap();
    sock.write_all(b"\x05\x01\x00").await.unwrap();
    let mut b = [0u8; 2];
    sock.read_exact(&mut b).await.unwrap();
    sock.write_all(b"\x05\x03\x00\x01\x00\x00\x00\x00\x00\x00").await.unwrap();
    let mut b = [0u8; 10];
    sock.read_exact(&mut b).await.unwrap();
    assert_eq!(&b[..4], &[5, 0, 0, 1]);
    let addr: SocketAddr = ([b[4], b[5], b[6], b[7]], u16::from_be_bytes([b[8], b[9]])).into();
    (sock, addr)
}

fn socks5_udp_wrap(target: SocketAddr, payload: &[u8]) -> Vec<u8> {
    let mut v = vec![0, 0, 0];
    match target {
        SocketAddr::V4(a) => {
            v.push(1);
            v.extend(a.ip().octets());
        }
        SocketAddr::V6(a) => {
            v.push(4);
            v.extend(a.ip().octets());
        }
    }
    v.extend(target.port().to_be_bytes());
    v.extend(payload);
    v
}

/// Strip an RFC 1928 UDP header. Returns (addr, payload)
fn socks5_udp_unwrap(d: &[u8]) -> Option<(SocketAddr, &[u8])> {
    if d.len() < 4 || d[0] != 0 || d[1] != 0 || d[2] != 0 {
        return None;
    }
    match d[3] {
        1 if d.len() >= 10 => {
            let a: SocketAddr = ([d[4], d[5], d[6], d[7]], u16::from_be_bytes([d[8], d[9]])).into();
            Some((a, &d[10..]))
        }
        4 if d.len() >= 22 => {
            let mut ip = [0u8; 16];
            ip.copy_from_slice(&d[4..20]);
            let a: SocketAddr = (ip, u16::from_be_bytes([d[20], d[21]])).into();
            Some((a, &d[22..]))
        }
        _ => None,
    }
}

// ---------------------------------------------------------------- findings 1-5

/// HTTP CONNECT to an IPv6 literal
#[tokio::test]
async fn http_connect_ipv6_literal() {
    let tl = TcpListener::bind("[::1]:0").await.unwrap();
    let target = tl.local_addr().unwrap();
    let lport = free_tcp_port("127.0.0.1");
    let _env = start(&[remote_for(Entry::Http, lport, target)]).await;
    let tt = tokio::spawn(async move {
        let (mut s, _) = tl.accept().await.unwrap();
        let mut b = [0u8; 5];
        s.read_exact(&mut b).await.unwrap();
        s.write_all(&b).await.unwrap();
    });
    let mut s = open(Entry::Http, lport, target).await;
    s.write_all(b"hello").await.unwrap();
    let mut b = [0u8; 5];
    let r = timeout(Duration::from_secs(5), s.read_exact(&mut b))
        .await
        .expect("hang");
    assert!(r.is_ok(), "CONNECT {target}: connection closed instead of reaching the target: {r:?}");
    assert_eq!(&b, b"hello");
    tt.await.unwrap();
}

/// SOCKS5 CONNECT to the same IPv6 literal works (control)
#[tokio::test]
async fn socks5_connect_ipv6_literal() {
    let tl = TcpListener::bind("[::1]:0").await.unwrap();
    let target = tl.local_addr().unwrap();
    let lport = free_tcp_port("127.0.0.1");
    let _env = start(&[remote_for(Entry::Socks5, lport, target)]).await;
    let tt = tokio::spawn(async move {
        let (mut s, _) = tl.accept().await.unwrap();
        let mut b = [0u8; 5];
        s.read_exact(&mut b).await.unwrap();
        s.write_all(&b).await.unwrap();
    });
    let mut s = open(Entry::Socks5, lport, target).await;
    s.write_all(b"hello").await.unwrap();
    let mut b = [0u8; 5];
    timeout(Duration::from_secs(5), s.read_exact(&mut b))
        .await
        .expect("hang")
        .unwrap();
    assert_eq!(&b, b"hello");
    tt.await.unwrap();
}

/// Needs a hosts file where `localhost` has both `::1` and `127.0.0.1` (Debian/Ubuntu default)
#[tokio::test]
async fn fixed_remote_localhost_dual_stack() {
    let addrs: Vec<SocketAddr> = tokio::net::lookup_host(("localhost", 1)).await.unwrap().collect();
    eprintln!("localhost resolves to {addrs:?}");
    if !(addrs.len() >= 2 && addrs[0].is_ipv6()) {
        eprintln!("PRECONDITION NOT MET: skipping");
        return;
    }
    let tl = TcpListener::bind("127.0.0.1:0").await.unwrap();
    let tport = tl.local_addr().unwrap().port();
    // Control: a direct connection from "the server host" reaches the target
    let mut direct = TcpStream::connect(("localhost", tport)).await.expect("direct connect works");
    let (mut acc, _) = tl.accept().await.unwrap();
    direct.write_all(b"x").await.unwrap();
    assert_eq!(acc.read_u8().await.unwrap(), b'x');
    drop((direct, acc));

    let lport = free_tcp_port("127.0.0.1");
    let _env = start(&[format!("127.0.0.1:{lport}:localhost:{tport}")]).await;
    let tt = tokio::spawn(async move {
        let (mut s, _) = tl.accept().await.unwrap();
        let mut b = [0u8; 5];
        s.read_exact(&mut b).await.unwrap();
        s.write_all(&b).await.unwrap();
    });
    let mut s = TcpStream::connect(("127.0.0.1", lport)).await.unwrap();
    s.write_all(b"hello").await.unwrap();
    let mut b = [0u8; 5];
    let r = timeout(Duration::from_secs(5), s.read_exact(&mut b)).await.expect("hang");
    assert!(r.is_ok(), "tunnel to localhost:{tport} closed although a direct connection works: {r:?}");
    tt.await.unwrap();
}

/// A client that talks, stays idle for a bit more than UDP_PRUNE_TIMEOUT (10 s), talks again
#[tokio::test]
async fn udp_remote_idle_gap() {
    let (target, _h) = udp_echo_target("127.0.0.1").await;
    let lport = free_udp_port("127.0.0.1");
    let _env = start(&[format!("127.0.0.1:{lport}:{target}/udp")]).await;
    let to: SocketAddr = ([127, 0, 0, 1], lport).into();
    let s = UdpSocket::bind("127.0.0.1:0").await.unwrap();
    let r = udp_roundtrip(&s, to, b"one", Duration::from_secs(3)).await;
    assert_eq!(r.expect("first datagram lost").0, b"one");
    tokio::time::sleep(rusty_penguin_lib::config::UDP_PRUNE_TIMEOUT + Duration::from_secs(2)).await;
    let r = udp_roundtrip(&s, to, b"two", Duration::from_secs(3)).await;
    assert_eq!(
        r.expect("second datagram (after an idle gap) never reached the target / no reply").0,
        b"two"
    );
}

/// One association, two targets of different address families
#[tokio::test]
async fn socks5_udp_two_targets_v4_v6() {
    let (t4, _h4) = udp_echo_target("127.0.0.1").await;
    let (t6, _h6) = udp_echo_target("::1").await;
    let lport = free_tcp_port("127.0.0.1");
    let _env = start(&[format!("127.0.0.1:{lport}:socks")]).await;
    let (_ctl, relay) = socks5_associate(lport).await;
    let s = UdpSocket::bind("127.0.0.1:0").await.unwrap();
    for (k, t) in [t4, t6, t4, t6, t4].into_iter().enumerate() {
        let p = pattern(20, k as u8);
        let r = udp_roundtrip(&s, relay, &socks5_udp_wrap(t, &p), Duration::from_secs(3)).await;
        let (got, _from) = r.unwrap_or_else(|| panic!("no reply for datagram {k} to {t}"));
        let (_a, payload) = socks5_udp_unwrap(&got).expect("malformed reply header");
        assert!(payload == p);
    }
}

/// A stray malformed datagram must not break the association for later datagrams
#[tokio::test]
async fn socks5_udp_survives_garbage() {
    let (target, _h) = udp_echo_target("127.0.0.1").await;
    let lport = free_tcp_port("127.0.0.1");
    let _env = start(&[format!("127.0.0.1:{lport}:socks")]).await;
    let (_ctl, relay) = socks5_associate(lport).await;
    let s = UdpSocket::bind("127.0.0.1:0").await.unwrap();
    let r = udp_roundtrip(&s, relay, &socks5_udp_wrap(target, b"one"), Duration::from_secs(3)).await;
    assert!(r.is_some());
    // someone else on the host sends two bytes to the relay port
    let other = UdpSocket::bind("127.0.0.1:0").await.unwrap();
    other.send_to(b"zz", relay).await.unwrap();
    tokio::time::sleep(Duration::from_millis(300)).await;
    let r = udp_roundtrip(&s, relay, &socks5_udp_wrap(target, b"two"), Duration::from_secs(3)).await;
    assert!(r.is_some(), "association dead after a stray datagram from another socket");
}
