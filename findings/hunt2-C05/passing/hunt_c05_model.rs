//! Scratch random model test for C05 (not a deliverable)
#![allow(clippy::all, clippy::pedantic, clippy::nursery, missing_docs, unused)]

use futures_util::FutureExt;
use penguin_mux::config::Options;
use penguin_mux::ws::{Message, WebSocket};
use penguin_mux::{Multiplexor, MuxStream};
use rand::rngs::SmallRng;
use rand::{Rng, RngExt, SeedableRng};
use std::collections::VecDeque;
use std::io::IoSlice;
use std::sync::{Arc, Mutex};
use std::task::{Context, Poll, Waker};
use tokio::io::{AsyncReadExt, AsyncWriteExt};

#[derive(Default)]
struct Dir {
    wire: VecDeque<Message>,
    inbox: VecDeque<Message>,
    hold: bool,
    closed: bool,
    rx_waker: Option<Waker>,
}

impl Dir {
    fn deliver(&mut self, n: usize) {
        for _ in 0..n {
            if let Some(m) = self.wire.pop_front() {
                self.inbox.push_back(m);
            }
        }
        if let Some(w) = self.rx_waker.take() {
            w.wake();
        }
    }
}

struct Ws {
    tx: Arc<Mutex<Dir>>,
    rx: Arc<Mutex<Dir>>,
}

impl WebSocket for Ws {
    fn poll_ready_unpin(&mut self, _cx: &mut Context<'_>) -> Poll<Result<(), penguin_mux::Error>> {
        Poll::Ready(Ok(()))
    }
    fn start_send_unpin(&mut self, item: Message) -> Result<(), penguin_mux::Error> {
        let mut d = self.tx.lock().unwrap();
        if d.closed {
            return Err(penguin_mux::Error::Closed);
        }
        d.wire.push_back(item);
        if !d.hold {
            let n = d.wire.len();
            d.deliver(n);
        }
        Ok(())
    }
    fn poll_flush_unpin(&mut self, _cx: &mut Context<'_>) -> Poll<Result<(), penguin_mux::Error>> {
        Poll::Ready(Ok(()))
    }
    fn poll_close_unpin(&mut self, _cx: &mut Context<'_>) -> Poll<Result<(), penguin_mux::Error>> {
        let mut d = self.tx.lock().unwrap();
        if !d.closed {
            d.wire.push_back(Message::Close);
            d.closed = true;
            if !d.hold {
                let n = d.wire.len();
                d.deliver(n);
            }
        }
        Poll::Ready(Ok(()))
    }
    fn poll_next_unpin(
        &mut self,
        cx: &mut Context<'_>,
    ) -> Poll<Option<Result<Message, penguin_mux::Error>>> {
        let mut d = self.rx.lock().unwrap();
        if let Some(m) = d.inbox.pop_front() {
            return Poll::Ready(Some(Ok(m)));
        }
        if d.closed && d.wire.is_empty() {
            return Poll::Ready(None);
        }
        d.rx_waker = Some(cx.waker().clone());
        Poll::Pending
    }
}

async fn settle() {
    for _ in 0..30 {
        tokio::task::yield_now().await;
    }
}

#[derive(Debug, PartialEq, Clone, Copy)]
enum WState {
    Open,
    Shutdown,
}

struct End {
    stream: Option<MuxStream>,
    wstate: WState,
    /// dropped without shutdown
    aborted: bool,
    written: Vec<u8>,
    nread: usize,
    eof: bool,
}

fn run(seed: u64) -> Result<(), String> {
    let rt = tokio::runtime::Builder::new_current_thread().build().unwrap();
    rt.block_on(async move {
        let mut rng = SmallRng::seed_from_u64(seed);
        let ab = Arc::new(Mutex::new(Dir::default()));
        let ba = Arc::new(Mutex::new(Dir::default()));
        let wa = Ws { tx: ab.clone(), rx: ba.clone() };
        let wb = Ws { tx: ba.clone(), rx: ab.clone() };
        let oa = Options::new()
            .rwnd(rng.random_range(1..6))
            .default_rwnd_threshold(rng.random_range(1..8));
        let ob = Options::new()
            .rwnd(rng.random_range(1..6))
            .default_rwnd_threshold(rng.random_range(1..8));
        let mut js = tokio::task::JoinSet::new();
        let ma = Multiplexor::new_with_opt(wa, oa, Some(&mut js));
        let mb = Multiplexor::new_with_opt(wb, ob, Some(&mut js));
        let mut muxes = [Some(ma), Some(mb)];
        let mut conn_ended = false;
        let allow_muxdrop = seed % 2 == 1;
        let (ma, mb) = (muxes[0].as_ref().unwrap(), muxes[1].as_ref().unwrap());
        let (sa, sb) = tokio::join!(ma.new_stream_channel(b"h", 1), mb.accept_stream_channel());
        let mut ends = [
            End { stream: Some(sa.unwrap()), wstate: WState::Open, aborted: false, written: vec![], nread: 0, eof: false },
            End { stream: Some(sb.unwrap()), wstate: WState::Open, aborted: false, written: vec![], nread: 0, eof: false },
        ];
        let dirs = [ab.clone(), ba.clone()];
        let mut counter = 0u8;
        let mut log = Vec::new();
        let nops = rng.random_range(5..60);
        for _ in 0..nops {
            let e = rng.random_range(0..2usize);
            let p = 1 - e;
            let op = rng.random_range(0..100);
            if op < 30 {
                // write
                let Some(s) = ends[e].stream.as_mut() else { continue };
                let n = match rng.random_range(0..6) { 0 => 0, 1 => 1, 2 => 2, 3 => 7, 4 => 100, _ => 3 };
                let data: Vec<u8> = (0..n).map(|_| { counter = counter.wrapping_add(1); counter }).collect();
                let vectored = rng.random_bool(0.3);
                let r = if vectored {
                    let k = n / 2;
                    let bufs = [IoSlice::new(&data[..k]), IoSlice::new(&[]), IoSlice::new(&data[k..])];
                    s.write_vectored(&bufs).now_or_never()
                } else {
                    s.write(&data).now_or_never()
                };
                log.push(format!("{e}: write{} {n} -> {r:?}", if vectored {"v"} else {""}));
                match r {
                    Some(Ok(m)) => {
                        if m != n { return Err(format!("short write {log:#?}")); }
                        if ends[e].wstate == WState::Shutdown {
                            return Err(format!("write after local shutdown succeeded {log:#?}"));
                        }
                        ends[e].written.extend_from_slice(&data);
                    }
                    Some(Err(err)) => {
                        if err.kind() != std::io::ErrorKind::BrokenPipe {
                            return Err(format!("bad error kind {log:#?}"));
                        }
                        // must have a reason: local shutdown, peer dropped, or peer ... (anything else?)
                        let peer_gone = ends[p].stream.is_none();
                        if ends[e].wstate == WState::Open && !peer_gone && !conn_ended {
                            return Err(format!("BrokenPipe without reason {log:#?}"));
                        }
                    }
                    None => {
                        counter = counter.wrapping_sub(n as u8);
                    }
                }
            } else if op < 60 {
                // read
                let Some(s) = ends[e].stream.as_mut() else { continue };
                let cap = match rng.random_range(0..4) { 0 => 1, 1 => 3, 2 => 50, _ => 1000 };
                let mut buf = vec![0u8; cap];
                let r = s.read(&mut buf).now_or_never();
                log.push(format!("{e}: read cap {cap} -> {r:?}"));
                match r {
                    Some(Ok(0)) => {
                        let peer = &ends[p];
                        let peer_done = peer.wstate == WState::Shutdown || peer.stream.is_none();
                        if !peer_done && !conn_ended {
                            return Err(format!("EOF while peer writer open {log:#?}"));
                        }
                        if ends[e].nread != peer.written.len() && !conn_ended {
                            return Err(format!("EOF before all data: read {} of {} {log:#?}", ends[e].nread, peer.written.len()));
                        }
                        ends[e].eof = true;
                    }
                    Some(Ok(n)) => {
                        let peer = &ends[p];
                        let start = ends[e].nread;
                        if start + n > peer.written.len() || peer.written[start..start + n] != buf[..n] {
                            return Err(format!("data mismatch {log:#?}"));
                        }
                        if ends[e].eof { return Err(format!("data after eof {log:#?}")); }
                        ends[e].nread += n;
                    }
                    Some(Err(err)) => return Err(format!("read error {err} {log:#?}")),
                    None => {}
                }
            } else if op < 68 {
                let Some(s) = ends[e].stream.as_mut() else { continue };
                let r = s.shutdown().now_or_never();
                log.push(format!("{e}: shutdown -> {r:?}"));
                ends[e].wstate = WState::Shutdown;
            } else if op < 72 {
                if ends[e].stream.is_none() { continue }
                log.push(format!("{e}: drop"));
                ends[e].aborted = ends[e].wstate == WState::Open;
                ends[e].stream = None;
            } else if op < 74 && allow_muxdrop {
                if muxes[e].is_some() {
                    log.push(format!("{e}: drop mux"));
                    muxes[e] = None;
                    conn_ended = true;
                }
            } else if op < 80 {
                let mut d = dirs[e].lock().unwrap();
                d.hold = !d.hold;
                log.push(format!("dir {e}: hold = {}", d.hold));
                if !d.hold { let n = d.wire.len(); d.deliver(n); }
            } else {
                let mut d = dirs[e].lock().unwrap();
                let n = rng.random_range(1..4);
                log.push(format!("dir {e}: deliver {n} of {}", d.wire.len()));
                d.deliver(n);
            }
            settle().await;
        }
        // final: release everything and drain
        for d in &dirs {
            let mut d = d.lock().unwrap();
            d.hold = false;
            let n = d.wire.len();
            d.deliver(n);
        }
        settle().await;
        settle().await;
        while let Some(r) = js.try_join_next() {
            match r {
                Ok(Ok(())) => {}
                Ok(Err(e)) => return Err(format!("task error {e} {log:#?}")),
                Err(e) => return Err(format!("task panicked {e} {log:#?}")),
            }
        }
        if conn_ended { return Ok(()); }
        for e in 0..2 {
            let p = 1 - e;
            if ends[e].stream.is_none() { continue }
            // peer abort delivered: write must fail with BrokenPipe
            if ends[p].aborted {
                let r = ends[e].stream.as_mut().unwrap().write(b"x").now_or_never();
                log.push(format!("final {e}: write after peer abort -> {r:?}"));
                match r {
                    Some(Err(err)) if err.kind() == std::io::ErrorKind::BrokenPipe => {}
                    _ => return Err(format!("write after peer abort did not fail {log:#?}")),
                }
            }
            loop {
                let mut buf = vec![0u8; 1000];
                let r = ends[e].stream.as_mut().unwrap().read(&mut buf).now_or_never();
                log.push(format!("final {e}: read -> {:?}", r.as_ref().map(|x| x.as_ref().map(|n| *n))));
                settle().await;
                match r {
                    Some(Ok(0)) => {
                        let peer = &ends[p];
                        let peer_done = peer.wstate == WState::Shutdown || peer.stream.is_none();
                        if !peer_done { return Err(format!("final EOF while peer open {log:#?}")); }
                        if ends[e].nread != peer.written.len() {
                            return Err(format!("final EOF before all data: {} of {} {log:#?}", ends[e].nread, peer.written.len()));
                        }
                        break;
                    }
                    Some(Ok(n)) => {
                        let peer = &ends[p];
                        let start = ends[e].nread;
                        if start + n > peer.written.len() || peer.written[start..start + n] != buf[..n] {
                            return Err(format!("final data mismatch {log:#?}"));
                        }
                        ends[e].nread += n;
                    }
                    Some(Err(err)) => return Err(format!("final read error {err} {log:#?}")),
                    None => {
                        let peer = &ends[p];
                        let peer_done = peer.wstate == WState::Shutdown || peer.stream.is_none();
                        if peer_done { return Err(format!("final: no EOF although peer done {log:#?}")); }
                        if ends[e].nread != peer.written.len() {
                            return Err(format!("final: data missing without EOF: {} of {} {log:#?}", ends[e].nread, peer.written.len()));
                        }
                        break;
                    }
                }
            }
        }
        Ok(())
    })
}

#[test]
fn model() {
    let n: u64 = std::env::var("N").ok().and_then(|s| s.parse().ok()).unwrap_or(3000);
    let base: u64 = std::env::var("BASE").ok().and_then(|s| s.parse().ok()).unwrap_or(0);
    let mut fails = 0;
    for seed in base..base + n {
        if let Err(e) = run(seed) {
            println!("seed {seed}: {e}");
            fails += 1;
            if fails > 3 { break; }
        }
    }
    assert_eq!(fails, 0);
}
