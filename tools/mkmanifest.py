#!/usr/bin/env python3
"""Regenerate /verif/MANIFEST.json from the table below (single source of truth)."""
import json, subprocess

DONE = {
 # id: (engine, category, technique, text, note)
 "C02": ("psim", "model_checking", "stateless exhaustive schedule enumeration (deviation-bounded DFS; smallest cases to exhaustion with sleep sets, cross-checked against the unreduced tree) of the real multiplexor under a controlled single-thread scheduler",
         "every schedule of task polls and message deliveries within the completed deviation bound, per (rwnd,threshold) pair, link capacity and write/read script, is executed on the real code; byte ledger checked for the prefix relation after every step and for equality at clean EOF",
         "one poll = one atomic step; payloads are tags; tokio channels and parking_lot trusted; bounds reported in evidence (never called exhaustive when capped)"),
 "C03": ("psim", "model_checking", "stateless exhaustive schedule enumeration under a controlled single-thread scheduler (deviation-bounded DFS); black-box wire accounting with a reference decoder plus white-box credit equation through a cfg-guarded hook, evaluated after every step",
         "all schedules within the bound for every (rwnd,threshold) pair in the grid; credit, acknowledge and handshake rules checked on every wire event and every step",
         "poll-granularity; sub-poll atomics are C12's subject; grid bounds in evidence"),
 "C04": ("psim", "model_checking", "stateless exhaustive schedule enumeration under a controlled single-thread scheduler (deviation-bounded DFS; smallest cases to exhaustion with sleep sets) over the option grid; liveness decided by quiescence (no runnable task, nothing in flight) with unfinished futures = stall, step horizon = livelock",
         "every fair schedule within the bound for every pair of option sets in the grid runs to quiescence; unfinished writers/readers of a stream whose reader keeps reading, pending opens or datagram exchanges are stalls",
         "fairness is structural (run to quiescence); grid and bound reported in evidence"),
 "C05": ("psim", "model_checking", "exhaustive enumeration of operation histories (both ends) x schedules against a per-direction reference model (byte queue + open/finished/aborted)",
         "every pair of histories up to length L over the operation alphabet (incl. empty and vectored-empty writes, shutdown, drop, reads) under every schedule within the bound",
         "windows larger than any history so writes never block; poll-granularity"),
 "C09": ("enum", "exploration", "bounded-exhaustive enumeration of frames and byte strings against an independent reference codec written from PROTOCOL.md",
         "exhaustive product of boundary field values for encoding (all constructors, vectored splits) and every byte string over a boundary alphabet up to length L plus all truncations for decoding; nothing sampled",
         "payload bytes outside the boundary alphabet are not enumerated (decoder never branches on them); release semantics"),
 "C12": ("loom", "model_checking", "loom (DPOR, C11 memory model) over in-crate models of the real MuxStream/EstablishedStreamData code (and, in m25, of the connection task's handling of an Acknowledge), each model to exhaustion; plus part C12X: two real threads in ONE forced schedule per case (a grant handled while another thread holds the flow table's write lock inside the flow-id draw), which loom's RwLock model cannot produce",
         "every interleaving of the atomic operations of a writer poll sequence against acknowledge and/or close on other threads; lost wake-ups surface as loom deadlocks, credit conservation asserted after join",
         "loom's own AtomicWaker/Mutex/RwLock models stand in for futures-util's and parking_lot's via the crate's loom shim; tokio channels not instrumented"),
}

DONE.update({
 "C06": ("psim", "model_checking", "stateless exhaustive schedule enumeration under a controlled single-thread scheduler (deviation-bounded DFS); close histories x schedules with bystander streams; open/close cycles against a scripted raw peer re-using one flow id; flow-table hook for the leak clause",
         "every pair of close histories of a victim stream next to a bystander and a follow-up stream under every schedule within the bound; every sequence of up to L open/close cycles over 13 variants with forced re-use of the same id",
         "re-use probed at link quiescence (old-incarnation frames still in flight are outside the statement); poll granularity"),
 "C10": ("psim", "fault_enumeration", "bounded-exhaustive enumeration of peer frame sequences from every slot state against a real endpoint and a scripted raw peer, reference-decoded replies",
         "every frame sequence up to length L over the alphabet (all opcodes x ids {0, victim, unknown} + bystander id + window overrun + a datagram flood into an application that takes no datagrams out) and terminal invalid messages, from each of 9 slot states, binds on and off; reply rules, bystander integrity, liveness, no panic",
         "replies asserted only where PROTOCOL.md/the statement is explicit; hook used for preconditions and 'flow untouched'"),
 "C18": ("enum+e2e", "exploration", "bounded-exhaustive enumeration of SOCKS4/4a/5 requests, replies and UDP headers (all truncations, two delivery modes) against an independent RFC 1928 / SOCKS4a reference; plus a complete matrix of conversations with the real SOCKS listener of the real client on loopback (part C18W), replies judged byte-exactly",
         "exhaustive products over versions, commands, address types, every domain length 0..255, ports, truncation points and trailers for the readers; all reply codes x address corners for the writers; UDP relay round trip through a reference client parser; wire level: SOCKS4/4a command codes x user-id x address form x reachable/refusing target, SOCKS5 method lists x CMD x ATYP x target, wrong versions, every truncation point followed by a half-close",
         "wire-level part: schedules not owned (real runtime, one execution per matrix point, deadline hits re-run in isolation); address/payload bytes outside the listed fillings are not enumerated; lenient where the RFC leaves behaviour open (listed in evidence assumptions)"),
 "C20": ("enum", "exploration", "exhaustive enumeration of operation sequences up to depth L from several start states against a Vec<u8> model, every accessor compared after every operation",
         "all operation histories over the LongChain alphabet (arguments at, inside and one past every boundary) up to depth L from the empty chain and three pre-built chains; CowBytes: all strings up to length 4/5 over a 3-letter alphabet through every accessor, comparison and hash in both variants",
         "bounded depth; nothing sampled (the 'random longer ones' of the quantifier are not covered)"),
})


DONE.update({
 "C07": ("psim", "model_checking", "stateless exhaustive schedule enumeration under a controlled single-thread scheduler (deviation-bounded DFS) with scripted flow-id generators forcing collisions; plus the loom model of concurrent allocation (m7) for sub-poll races",
         "concurrent opens from both sides under every schedule within the bound for id scripts that force a zero draw, a draw of a live id, identical draws on both sides and repeated collisions; a raw peer rejecting 0..3 proposals for every max_flow_id_retries 1..3; loom explores two threads inside insert_new_flow exhaustively",
         "poll granularity for psim; loom substitutes its lock models"),
 "C08": ("psim", "fault_enumeration", "every fault kind injected at every scheduling point of every schedule within the deviation bound of a busy two-endpoint scenario, run to quiescence",
         "faults {cut a->b, cut b->a, cut both, drop Multiplexor A, drop Multiplexor B} x every point (incl. quiescence) x schedules <= k deviations; plus a second fault (each transport failure, or the drop of the other side's Multiplexor) at every later point after a local drop; everything must resolve with the documented results and a drop over a healthy transport must flush what was queued before it, then close exactly once",
         "cuts are reported failures; silent loss is covered by keepalive (C16); peer Close / invalid frame by C10's raw peer"),
})


DONE.update({
 "C11": ("psim", "model_checking", "stateless exhaustive schedule enumeration under a controlled single-thread scheduler (deviation-bounded DFS); field-boundary sweep plus bursts against a reference model of the bounded receive queue, all schedules within the bound",
         "every (host length, payload length, flow id, port) boundary combination; bursts of size+2 into datagram_buffer_size 1..3 with concurrent or late reader, with and without a stream on the same connection, under every schedule within the bound; received datagrams must be exactly the ones the reference queue admitted, in order, unmodified",
         "payload/host bytes are patterns; poll granularity"),
 "C13": ("psim", "model_checking", "explorer-owned environment: every answer of the scripted local AsyncBufRead/AsyncWrite (data size, Pending, EOF, Err) and every raw-peer event is a choice point; bounded by environment deviations and scheduling deviations",
         "all runs with <= e non-default local answers and <= k scheduling deviations over 5-7 peer scenarios (one-way, both ways, credit starvation, peer Finish first, peer Reset); relay prefix relations at every step, half-close propagation, exact completion result, promptness after an injected error, credit equation",
         "local write returning Ok(0) is outside the alphabet; Pending operations eventually become ready"),
 "C15": ("psim", "model_checking", "stateless exhaustive schedule enumeration under a controlled single-thread scheduler (deviation-bounded DFS); every answer vector x answer order x bind buffer size, connection-end faults at every point",
         "1..3 concurrent requests, every vector over {accept, reject, drop, never} in every (quick: selected) permutation order, bind_buffer_size 1/4/disabled, optional traffic alongside, optional opposite-direction request, optional connection end at every point; every schedule within the bound",
         "flow ids paired through reference-decoded Bind frames"),
 "C16": ("psim", "model_checking", "real task future on tokio's paused clock under the hand-rolled executor; exhaustive pong-delay histories per (interval, timeout) pair; equal-instant races as scheduling choices",
         "every history of R pong delays over {0, T/2, T, T+10ms, never} with silent/prompt tail for every (I,T) in {1,2,3}x{NONE,1,2,3,5} s plus disabled; ping schedule, detection window [last_pong+T, last_pong+T+I], no false positive, no missed gap, operations resolve after the timeout",
         "3 ms tolerance for tokio timer rounding; builder order interval then timeout"),
 "C14": ("enum", "exploration", "bounded-exhaustive enumeration of upgrade requests x server configurations against a reference validity predicate, in-process, with a backend, and over the wire",
         "all requests within <= 4 (quick) / 5 (thorough + complete core product) simultaneous deviations from the valid upgrade over method, path, six headers, PSK variants x {PSK on/off} x {obfs on/off}; 101 iff valid with correct accept hash; every other /ws request identical to the unknown-path response; /health,/version under obfs",
         "HTTP/1.1 only; header values outside the variant tables not enumerated"),
 "C17": ("enum", "exploration", "complete configuration matrix of real TLS handshakes over an in-memory duplex with harness-generated chains, plus reload histories (fresh clients, and returning clients that reuse one ClientConfig so that sessions are resumed)",
         "server cert {trusted leaf, other-CA leaf, self-signed, expired} x names x skip-verify x roots x client cert {none, client-CA, other-CA, self-signed} x server client-CA {none,set} x constructors, each followed by an echo both ways; probe client observing CertificateRequest; reload histories; client-name precedence",
         "rustls backend only; depth-1 chains"),
})
DONE["C04"] = (DONE["C04"][0], DONE["C04"][1], DONE["C04"][2] + "; plus loom models of a writer parked on credit against racing grants (m1,m3,m8,m11) and of the bridge parked on credit (m19); plus part C10T (a WebSocket-level peer over real tungstenite: an endpoint that was pinged, or sent any other element, while idle still serves what follows)", DONE["C04"][3], DONE["C04"][4])
DONE["C08"] = (DONE["C08"][0], DONE["C08"][1], DONE["C08"][2] + "; plus part C08T: the same fault enumeration (eof / reset / stall per direction, inbound end while outbound stalled, drop of either handle, at every point) with both endpoints over REAL tokio-tungstenite on an in-memory byte pipe, so that the crate's tungstenite adapter is part of the explored system", DONE["C08"][3], DONE["C08"][4])
DONE["C06"] = (DONE["C06"][0], DONE["C06"][1], DONE["C06"][2] + "; plus loom models of an abort racing a writer parked on credit (m2,m6,m9)", DONE["C06"][3], DONE["C06"][4])
DONE["C02"] = (DONE["C02"][0], DONE["C02"][1], DONE["C02"][2] + "; plus loom models of the real write path under racing grants (m3,m8,m12)", DONE["C02"][3], DONE["C02"][4])
DONE["C13"] = (DONE["C13"][0], DONE["C13"][1], DONE["C13"][2] + "; plus loom models of the bridge parked on credit against a racing grant / close (m19,m20,m21)", DONE["C13"][3], DONE["C13"][4])
DONE["C15"] = (DONE["C15"][0], DONE["C15"][1], DONE["C15"][2] + "; plus the id-reuse cycles of C06's raw-peer driver (a bind request on an id the peer has just reset while the old stream is still held)", DONE["C15"][3], DONE["C15"][4])
DONE["C10"] = (DONE["C10"][0], DONE["C10"][1], DONE["C10"][2] + "; plus the id-reuse cycles of C06's raw-peer driver (peer resets a flow and opens the id again while the old stream is still held)", DONE["C10"][3], DONE["C10"][4])
DONE["C03"] = (DONE["C03"][0], DONE["C03"][1], DONE["C03"][2] + "; plus loom models of credit conservation under racing grants (m1,m3,m4,m8); plus the id-reuse cycles of C06's raw-peer driver (an old stream must not acknowledge on its re-opened id)", DONE["C03"][3], DONE["C03"][4])

DONE["C02"] = (DONE["C02"][0], DONE["C02"][1], DONE["C02"][2] + "; plus part C02T: the stream ledger judged after every step with both endpoints over REAL tokio-tungstenite on byte pipes of capacity unbounded / 64 / 7 bytes (frames delivered in pieces), writes up to 17 000 000 bytes", DONE["C02"][3], DONE["C02"][4])
DONE["C10"] = (DONE["C10"][0], DONE["C10"][1], DONE["C10"][2] + "; plus part C10T: a WebSocket-level misbehaving peer (Text, short Binary, control frames, fragmentation, reserved bits / opcodes, wrong masking) against one real endpoint over real tungstenite in both roles", DONE["C10"][3], DONE["C10"][4])


DONE.update({
 "C19": ("enum+e2e", "exploration", "back-off generator: exhaustive operation sequences + long-outage patterns against the closed form; client loop: complete matrix of scripted server behaviours per connection attempt on loopback (one real-time execution per point, deadline hits re-run in isolation)",
         "Backoff: every {advance,reset} sequence up to length 10/12 for every (initial,max,mult,max_count) tuple plus 400/2000-step outages with periodic resets; client loop: every script up to length 2 (quick) / 3-5 (thorough) over {reset, stall, http404, close0, close300, drop, mute, healthy} x max_retry_count x max_retry_interval with local connections at every position: attempt count, gap lower bounds, reset after success, give-up, non-retryable exit, parked request served",
         "client loop: schedules are NOT owned (real runtime, real time); upper timing bounds are lenient (3x + 1 s); refused ports are observed indirectly"),
})


DONE.update({
 "C01": ("e2e", "exploration", "complete scenario matrix on loopback with the real client and server under the real runtime: entry point x payload length x chunking x close order x concurrency (TCP) and entry x topology x payload length (UDP); deadline hits re-run in isolation",
         "every point of the matrix {TCP remote, Unix-socket remote, SOCKS4, SOCKS4a, SOCKS5 CONNECT ip/domain, HTTP CONNECT} x lengths {0,1,one window+} per direction x 3 chunkings x {client/target half-closes first, client/target closes both, target refuses} x {1,3} connections, + slow-reader cases (one end stalls while the other writes 24/48 MiB paced) and the chunking 'first payload bytes in the same write as the SOCKS request'; UDP {remote, SOCKS5 ipv4/domain header} x {1 client, 3 clients, 1 socket to 2 entries} x payload {0,1,3,4,1400}; bytes compared end to end, half-close observed while the reverse direction still transfers, SOCKS5 UDP replies parsed with an RFC 1928 parser",
         "schedules are NOT owned: one execution per matrix point under whatever interleaving the kernel and tokio produce (the interleaving-sensitive core is decided with owned schedules by C02/C05/C13); IPv6, TLS and tproxy entry points are not exercised"),
})

REASON_PENDING = "check not built yet (work in progress; planned engine in DESIGN.md section 3)"

def main():
    ids = [f"C{i:02d}" for i in range(1, 21)]
    hooks = subprocess.run(["git", "-C", "/repo", "log", "--format=%h %s", "--grep=^verif hook"], capture_output=True, text=True).stdout.strip().splitlines()
    checks = []
    for pid in ids:
        if pid not in DONE:
            continue
        eng, cat, tech, text, note = DONE[pid]
        checks.append({
            "property_id": pid,
            "quick_cmd": f"./check {pid} --tier quick",
            "thorough_cmd": f"./check {pid} --tier thorough",
            "evidence_file": f"/verif/evidence/{pid}.json",
            "replay_cmd_template": f"./check {pid} --replay {{path}}",
            "engine": eng,
            "level_claimed": {"category": cat, "text": text, "design_ref": f"DESIGN.md section 3 ({pid})"},
            "level_note": note,
            "technique": tech,
        })
    m = {
        "version": 1,
        "setup_cmd": "cd /verif/harness && CARGO_NET_OFFLINE=true cargo build --release --offline && cd /verif && python3 -c \"import sys; sys.path.insert(0,'tools'); import loomrun; print(loomrun.build()[0])\"",
        "hooks": {
            "guard": "--cfg penguin_rs_verif",
            "enable": "rustflags in /verif/harness/.cargo/config.toml (psim/enum engines); RUSTFLAGS='--cfg loom --cfg penguin_rs_verif' for the in-crate loom models (tools/loomrun.py)",
            "baseline_off_cmd": "cd /repo && cargo test --workspace --no-fail-fast --offline",
            "source_commits": [h.split()[0] for h in hooks],
            "add_only": True,
        },
        "engines": [
            {"name": "psim", "path": "harness/vmux", "serves_properties": [p for p in ids if p in DONE and DONE[p][0] == "psim"], "kind_free_text": "controlled-scheduler stateless exploration of the real multiplexor (hand-rolled executor + in-memory WebSocket)"},
            {"name": "enum", "path": "harness/vmux, harness/vapp", "serves_properties": [p for p in ids if p in DONE and DONE[p][0].startswith("enum")], "kind_free_text": "bounded-exhaustive enumeration against reference models"},
            {"name": "e2e", "path": "harness/vapp", "serves_properties": [p for p in ids if p in DONE and "e2e" in DONE[p][0]], "kind_free_text": "complete scenario matrices on real loopback sockets under the real runtime (schedules not owned; level exploration)"},
            {"name": "loom", "path": "tools/loomrun.py + /repo/penguin-mux/src/verif_loom.rs", "serves_properties": [p for p in ids if p in DONE and DONE[p][0] == "loom"] + ["C02", "C03", "C04", "C06", "C07", "C13"], "kind_free_text": "loom model checking of atomics-level interleavings (C12; additional parts of C02, C03, C04, C06, C07, C13)"},
        ],
        "checks": checks,
        "not_applicable": [{"property_id": p, "reason": REASON_PENDING} for p in ids if p not in DONE],
        "notes": "All checks go through /verif/check, which rebuilds the harness from /repo's working tree with hooks on, applies known_findings.txt and writes evidence/<id>.json. Exit 2 + a MACHINERY line means the machinery failed (never a verdict).",
    }
    json.dump(m, open("/verif/MANIFEST.json", "w"), indent=1)
    print("checks:", [c["property_id"] for c in checks])

if __name__ == "__main__":
    main()
