//! Stateless, budgeted, exhaustive exploration of choice sequences.
//!
//! Every source of nondeterminism of an execution is a call to [`choose`]:
//! the scheduler picking the next step, a scripted I/O object picking its
//! answer, a fault being injected.  Alternative 0 is the default; any other
//! alternative is a *deviation* and costs one unit of the budget of its kind.
//! [`explore`] enumerates **every** choice sequence whose deviations fit in
//! the budget (exactly once each), re-executing the scenario from scratch for
//! each one.  With an unlimited budget this is the full tree.

use std::cell::RefCell;
use std::collections::HashSet;
use std::sync::Mutex;
use std::sync::atomic::{AtomicBool, AtomicU64, AtomicUsize, Ordering};
use std::time::{Duration, Instant};

#[derive(Clone, Copy, Debug, PartialEq, Eq)]
#[repr(u8)]
pub enum Cost {
    /// scheduling deviation (a step other than the canonical first enabled one)
    Sched = 0,
    /// non-default environment answer (short read, Pending, error ...)
    Env = 1,
    /// injected fault
    Fault = 2,
}

#[derive(Clone, Copy, Debug)]
pub struct Budget {
    pub sched: u32,
    pub env: u32,
    pub fault: u32,
}

impl Budget {
    pub const UNBOUNDED: u32 = u32::MAX;
    pub const fn new(sched: u32, env: u32, fault: u32) -> Self {
        Self { sched, env, fault }
    }
    fn take(&mut self, c: Cost) -> bool {
        let slot = match c {
            Cost::Sched => &mut self.sched,
            Cost::Env => &mut self.env,
            Cost::Fault => &mut self.fault,
        };
        if *slot == Budget::UNBOUNDED {
            return true;
        }
        if *slot == 0 {
            return false;
        }
        *slot -= 1;
        true
    }
}

#[derive(Clone, Debug)]
pub struct ChoicePoint {
    pub chosen: u16,
    /// cost kind of each alternative (index 0 is free whatever it says)
    pub kinds: Vec<Cost>,
    /// partial-order mode only: identity of each alternative (scheduler steps) ...
    pub ids: Vec<u16>,
    /// ... and the sleep set in force at this point
    pub sleep: Vec<u16>,
}

struct RunCtx {
    prefix: Vec<u16>,
    trace: Vec<ChoicePoint>,
    /// partial-order (sleep set) mode
    por: bool,
    /// sleep set to install when the replayed prefix ends
    sleep_at_prefix_end: Vec<u16>,
    sleep: Vec<u16>,
    /// every enabled step was asleep: this path is covered elsewhere
    blocked: bool,
}

/// Step identity for the sleep-set mode: bits 12.. = side (0 = endpoint A, 1 = endpoint B, 2 = touches both),
/// bits 0..12 = the step within the scheduler's numbering.
pub fn step_id(side: u8, raw: u16) -> u16 {
    (u16::from(side.min(2)) << 12) | (raw & 0x0fff)
}

/// Two scheduler steps commute iff they belong to different endpoints (with an unbounded link an
/// endpoint's steps only append to the tail of the queue the other side's delivery step pops the head of).
fn independent(a: u16, b: u16) -> bool {
    let (sa, sb) = (a >> 12, b >> 12);
    sa != sb && sa < 2 && sb < 2
}

/// Scheduler choice in partial-order mode: picks the first enabled step that is not asleep.
/// Returns `None` when all enabled steps are asleep (the execution stops here: everything reachable
/// from this state is explored on another path). Outside partial-order mode it is `choose_n`.
pub fn choose_step(ids: &[u16]) -> Option<usize> {
    let n = ids.len();
    assert!(n >= 1);
    let por = CTX.with(|c| c.borrow().as_ref().is_some_and(|c| c.por));
    if !por {
        return Some(choose_n(n, Cost::Sched));
    }
    CTX.with(|c| {
        let mut c = c.borrow_mut();
        let ctx = c.as_mut().expect("ctx");
        let pos = ctx.trace.len();
        if pos == ctx.prefix.len() && !ctx.sleep_at_prefix_end.is_empty() {
            ctx.sleep = std::mem::take(&mut ctx.sleep_at_prefix_end);
        }
        if n == 1 {
            // no alternative: not a choice point (same numbering as the plain mode)
            if pos >= ctx.prefix.len() && ctx.sleep.contains(&ids[0]) {
                ctx.blocked = true;
                return None;
            }
            let e = ids[0];
            ctx.sleep.retain(|z| independent(*z, e));
            return Some(0);
        }
        let chosen = if pos < ctx.prefix.len() {
            let ch = usize::from(ctx.prefix[pos]);
            if ch >= n {
                std::panic::panic_any(Divergence(format!("replay divergence at choice {pos}: prefix wants alternative {ch} of {n}")));
            }
            ch
        } else {
            match (0..n).find(|j| !ctx.sleep.contains(&ids[*j])) {
                Some(j) => j,
                None => {
                    ctx.blocked = true;
                    return None;
                }
            }
        };
        ctx.trace.push(ChoicePoint { chosen: chosen as u16, kinds: vec![Cost::Sched; n], ids: ids.to_vec(), sleep: ctx.sleep.clone() });
        let e = ids[chosen];
        ctx.sleep.retain(|z| independent(*z, e));
        Some(chosen)
    })
}

/// Was the current execution cut short because every enabled step was asleep?
pub fn blocked() -> bool {
    CTX.with(|c| c.borrow().as_ref().is_some_and(|c| c.blocked))
}

thread_local! {
    static CTX: RefCell<Option<RunCtx>> = const { RefCell::new(None) };
}

/// Raised (as a panic payload) when a replayed prefix no longer fits the
/// execution: nondeterminism that the harness does not own.  Always a
/// machinery error, never a verdict.
#[derive(Debug)]
pub struct Divergence(pub String);

/// Pick one of `kinds.len()` alternatives.  Outside an exploration context the
/// default (0) is returned.
pub fn choose(kinds: &[Cost]) -> usize {
    let n = kinds.len();
    assert!(n >= 1, "choose() with no alternative");
    if n == 1 {
        return 0;
    }
    CTX.with(|c| {
        let mut c = c.borrow_mut();
        let Some(ctx) = c.as_mut() else {
            return 0;
        };
        let pos = ctx.trace.len();
        let chosen = if pos < ctx.prefix.len() {
            let ch = ctx.prefix[pos];
            if usize::from(ch) >= n {
                std::panic::panic_any(Divergence(format!(
                    "replay divergence at choice {pos}: prefix wants alternative {ch} but only {n} are enabled"
                )));
            }
            ch
        } else {
            0
        };
        if ctx.por {
            // a non-scheduling choice (environment answer, fault) depends on everything
            if pos == ctx.prefix.len() {
                ctx.sleep = std::mem::take(&mut ctx.sleep_at_prefix_end);
            }
            ctx.sleep.clear();
        }
        ctx.trace.push(ChoicePoint {
            chosen,
            kinds: kinds.to_vec(),
            ids: Vec::new(),
            sleep: Vec::new(),
        });
        usize::from(chosen)
    })
}

/// `choose` over `n` alternatives of the same kind.
pub fn choose_n(n: usize, kind: Cost) -> usize {
    const K: [[Cost; 8]; 3] = [[Cost::Sched; 8], [Cost::Env; 8], [Cost::Fault; 8]];
    if n <= 8 {
        choose(&K[kind as usize][..n])
    } else {
        choose(&vec![kind; n])
    }
}

/// Run `f` under the given choice prefix and return its value with the trace.
pub fn with_prefix<T>(prefix: &[u16], f: impl FnOnce() -> T) -> (T, Vec<ChoicePoint>) {
    with_prefix_por(prefix, None, f)
}

/// As `with_prefix`; `sleep = Some(set)` switches the partial-order (sleep set) mode on, with `set`
/// installed at the state the prefix leads to.
pub fn with_prefix_por<T>(prefix: &[u16], sleep: Option<&[u16]>, f: impl FnOnce() -> T) -> (T, Vec<ChoicePoint>) {
    CTX.with(|c| {
        *c.borrow_mut() = Some(RunCtx {
            prefix: prefix.to_vec(),
            trace: Vec::new(),
            por: sleep.is_some(),
            sleep_at_prefix_end: sleep.map(<[u16]>::to_vec).unwrap_or_default(),
            sleep: Vec::new(),
            blocked: false,
        });
    });
    struct Reset;
    impl Drop for Reset {
        fn drop(&mut self) {
            CTX.with(|c| *c.borrow_mut() = None);
        }
    }
    let _r = Reset;
    let v = f();
    let trace = CTX.with(|c| c.borrow_mut().take().map(|c| c.trace).unwrap_or_default());
    (v, trace)
}

/// What one execution reports back to the explorer.
#[derive(Default, Debug)]
pub struct RunOutput {
    /// scheduler steps executed
    pub steps: u64,
    /// fingerprints of the states passed through (coverage only)
    pub fingerprints: Vec<u64>,
    /// hash of everything the oracle observed (distinct outcomes)
    pub outcome: u64,
    /// (key, description) of each violation found in this execution
    pub violations: Vec<(String, String)>,
    /// witness bits: "interesting event k happened" (vacuity guard)
    pub witnesses: u64,
    /// hit the step horizon
    pub horizon: bool,
    /// a human readable rendering of the schedule (only filled on demand)
    pub rendering: Option<String>,
    /// partial-order mode: the execution was cut because every enabled step was asleep (no end-of-run verdict)
    pub blocked: bool,
}

#[derive(Clone, Debug)]
pub struct FoundViolation {
    pub key: String,
    pub desc: String,
    /// choice sequence (full, not just the prefix) reproducing it
    pub choices: Vec<u16>,
    pub deviations: u32,
    pub count: u64,
}

#[derive(Default, Debug)]
pub struct Stats {
    pub executions: u64,
    pub transitions: u64,
    pub states: HashSet<u64>,
    pub outcomes: HashSet<u64>,
    pub witnesses: u64,
    pub horizons: u64,
    pub max_trace_len: usize,
    pub max_steps: u64,
    pub violations: Vec<FoundViolation>,
    pub capped: Option<String>,
    pub samples: Vec<Vec<u16>>,
    /// debugging: first choice sequence (and step index) that reached each state
    pub witness_of_state: std::collections::HashMap<u64, (Vec<u16>, usize)>,
}

impl Stats {
    pub fn merge(&mut self, o: Stats) {
        self.executions += o.executions;
        self.transitions += o.transitions;
        self.states.extend(o.states);
        self.outcomes.extend(o.outcomes);
        self.witnesses |= o.witnesses;
        self.horizons += o.horizons;
        self.max_trace_len = self.max_trace_len.max(o.max_trace_len);
        self.max_steps = self.max_steps.max(o.max_steps);
        for v in o.violations {
            self.add_violation(v);
        }
        if self.capped.is_none() {
            self.capped = o.capped;
        }
        for s in o.samples {
            if self.samples.len() < 3 {
                self.samples.push(s);
            }
        }
        for (k, v) in o.witness_of_state {
            self.witness_of_state.entry(k).or_insert(v);
        }
    }
    fn add_violation(&mut self, v: FoundViolation) {
        if let Some(e) = self.violations.iter_mut().find(|e| e.key == v.key) {
            e.count += v.count;
            // keep the simplest reproducer
            if (v.deviations, v.choices.len()) < (e.deviations, e.choices.len()) {
                e.choices = v.choices;
                e.deviations = v.deviations;
                e.desc = v.desc;
            }
        } else {
            self.violations.push(v);
        }
    }
}

#[derive(Clone, Copy, Debug)]
pub struct Limits {
    pub max_execs: u64,
    pub deadline: Instant,
    pub threads: usize,
    /// stop the whole search at the first violation kind count (0 = never stop early)
    pub stop_after_violation_kinds: usize,
}

fn dump_states() -> bool {
    static D: std::sync::OnceLock<bool> = std::sync::OnceLock::new();
    *D.get_or_init(|| std::env::var_os("VERIF_DUMP_STATES").is_some())
}

fn strip_trailing_zeros(mut v: Vec<u16>) -> Vec<u16> {
    while v.last() == Some(&0) {
        v.pop();
    }
    v
}

/// Enumerate every choice sequence within `budget`.  `run` executes the
/// scenario once (it must call [`choose`] for every nondeterministic decision)
/// and is called under [`with_prefix`].
pub fn explore<F>(budget: Budget, limits: Limits, label: &str, run: F) -> Stats
where
    F: Fn() -> RunOutput + Sync,
{
    let global: Mutex<Vec<Vec<u16>>> = Mutex::new(vec![Vec::new()]);
    let outstanding = AtomicUsize::new(1);
    let execs = AtomicU64::new(0);
    let stop = AtomicBool::new(false);
    let capped: Mutex<Option<String>> = Mutex::new(None);
    let threads = limits.threads.max(1);
    let hungry_below = threads * 4;

    let worker = || {
        let mut st = Stats::default();
        let mut local: Vec<Vec<u16>> = Vec::new();
        loop {
            if stop.load(Ordering::Relaxed) {
                break;
            }
            let prefix = if let Some(p) = local.pop() {
                p
            } else {
                let got = global.lock().unwrap().pop();
                match got {
                    Some(p) => p,
                    None => {
                        if outstanding.load(Ordering::Acquire) == 0 {
                            break;
                        }
                        std::thread::yield_now();
                        continue;
                    }
                }
            };
            let n = execs.fetch_add(1, Ordering::Relaxed);
            if n >= limits.max_execs {
                *capped.lock().unwrap() = Some(format!("execution cap {} reached", limits.max_execs));
                stop.store(true, Ordering::Relaxed);
                break;
            }
            if n % 256 == 0 && Instant::now() >= limits.deadline {
                *capped.lock().unwrap() = Some("wall-clock cap reached".to_string());
                stop.store(true, Ordering::Relaxed);
                break;
            }
            vcommon::watchdog::enter(label, &prefix);
            let (out, trace) = with_prefix(&prefix, &run);
            vcommon::watchdog::leave();
            if trace.len() < prefix.len() {
                std::panic::panic_any(Divergence(format!(
                    "replay divergence: execution made {} choices, prefix has {}",
                    trace.len(),
                    prefix.len()
                )));
            }
            st.executions += 1;
            st.transitions += out.steps;
            st.max_steps = st.max_steps.max(out.steps);
            st.max_trace_len = st.max_trace_len.max(trace.len());
            st.states.extend(out.fingerprints.iter().copied());
            st.outcomes.insert(out.outcome);
            st.witnesses |= out.witnesses;
            if out.horizon {
                st.horizons += 1;
            }
            let full: Vec<u16> = trace.iter().map(|c| c.chosen).collect();
            if dump_states() {
                for (ix, f) in out.fingerprints.iter().enumerate() {
                    st.witness_of_state.entry(*f).or_insert_with(|| (full.clone(), ix));
                }
            }
            if st.samples.len() < 3 && (st.executions == 1 || st.executions % 997 == 0) {
                st.samples.push(strip_trailing_zeros(full.clone()));
            }
            if !out.violations.is_empty() {
                let devs = full.iter().filter(|&&c| c != 0).count() as u32;
                for (key, desc) in out.violations {
                    st.add_violation(FoundViolation {
                        key,
                        desc,
                        choices: strip_trailing_zeros(full.clone()),
                        deviations: devs,
                        count: 1,
                    });
                }
                if limits.stop_after_violation_kinds > 0
                    && st.violations.len() >= limits.stop_after_violation_kinds
                {
                    *capped.lock().unwrap() = Some("stopped early after violations".to_string());
                    stop.store(true, Ordering::Relaxed);
                }
            }
            // children: one per affordable alternative at every position past the prefix
            let mut b = budget;
            let mut ok = true;
            for cp in &trace[..prefix.len()] {
                if cp.chosen != 0 && !b.take(cp.kinds[usize::from(cp.chosen)]) {
                    ok = false; // cannot happen: the prefix was generated within budget
                }
            }
            debug_assert!(ok);
            let mut children: Vec<Vec<u16>> = Vec::new();
            for i in prefix.len()..trace.len() {
                let cp = &trace[i];
                for alt in 1..cp.kinds.len() {
                    let mut bb = b;
                    if bb.take(cp.kinds[alt]) {
                        let mut child: Vec<u16> = full[..i].to_vec();
                        child.push(alt as u16);
                        children.push(child);
                    }
                }
                // choices after the prefix are all 0 in this run, so `b` is unchanged
            }
            let _ = &mut b;
            if !children.is_empty() {
                outstanding.fetch_add(children.len(), Ordering::AcqRel);
                let mut g = global.lock().unwrap();
                if g.len() < hungry_below {
                    // share the shallow ones, keep the rest
                    let share = children.len().min(hungry_below);
                    let rest = children.split_off(share);
                    g.extend(children);
                    drop(g);
                    local.extend(rest);
                } else {
                    drop(g);
                    local.extend(children);
                }
            }
            outstanding.fetch_sub(1, Ordering::AcqRel);
        }
        st
    };

    let mut total = Stats::default();
    std::thread::scope(|s| {
        let hs: Vec<_> = (0..threads).map(|_| s.spawn(worker)).collect();
        for h in hs {
            match h.join() {
                Ok(st) => total.merge(st),
                Err(e) => std::panic::resume_unwind(e),
            }
        }
    });
    total.capped = capped.into_inner().unwrap();
    total
}

/// Complete exploration modulo commutation of independent steps (sleep sets, no bound).
/// Sleep sets never remove a reachable state: a step is skipped at a state only if the state it
/// leads to is reached on a sibling path where the same step is taken after steps it commutes with.
/// `run` must use `choose_step` for scheduling decisions and must not evaluate its end-of-run
/// oracle when `blocked()` (the caller sees `RunOutput::horizon == false` and `blocked` via the flag).
pub fn explore_por<F>(limits: Limits, label: &str, run: F) -> (Stats, u64)
where
    F: Fn() -> RunOutput + Sync,
{
    type Item = (Vec<u16>, Vec<u16>);
    let global: Mutex<Vec<Item>> = Mutex::new(vec![(Vec::new(), Vec::new())]);
    let outstanding = AtomicUsize::new(1);
    let execs = AtomicU64::new(0);
    let blocked_runs = AtomicU64::new(0);
    let stop = AtomicBool::new(false);
    let capped: Mutex<Option<String>> = Mutex::new(None);
    let threads = limits.threads.max(1);
    let hungry_below = threads * 4;
    let worker = || {
        let mut st = Stats::default();
        let mut local: Vec<Item> = Vec::new();
        loop {
            if stop.load(Ordering::Relaxed) {
                break;
            }
            let (prefix, sleep) = if let Some(p) = local.pop() {
                p
            } else {
                let got = global.lock().unwrap().pop();
                match got {
                    Some(p) => p,
                    None => {
                        if outstanding.load(Ordering::Acquire) == 0 {
                            break;
                        }
                        std::thread::yield_now();
                        continue;
                    }
                }
            };
            let n = execs.fetch_add(1, Ordering::Relaxed);
            if n >= limits.max_execs {
                *capped.lock().unwrap() = Some(format!("execution cap {} reached", limits.max_execs));
                stop.store(true, Ordering::Relaxed);
                break;
            }
            if n % 256 == 0 && Instant::now() >= limits.deadline {
                *capped.lock().unwrap() = Some("wall-clock cap reached".to_string());
                stop.store(true, Ordering::Relaxed);
                break;
            }
            vcommon::watchdog::enter(label, &prefix);
            let (out, trace) = with_prefix_por(&prefix, Some(&sleep), &run);
            let was_blocked = out.blocked;
            vcommon::watchdog::leave();
            if trace.len() < prefix.len() {
                std::panic::panic_any(Divergence(format!("replay divergence: {} choices made, prefix has {}", trace.len(), prefix.len())));
            }
            st.executions += 1;
            st.transitions += out.steps;
            st.max_steps = st.max_steps.max(out.steps);
            st.max_trace_len = st.max_trace_len.max(trace.len());
            st.states.extend(out.fingerprints.iter().copied());
            st.witnesses |= out.witnesses;
            if was_blocked {
                blocked_runs.fetch_add(1, Ordering::Relaxed);
            } else {
                st.outcomes.insert(out.outcome);
            }
            if out.horizon {
                st.horizons += 1;
            }
            let full: Vec<u16> = trace.iter().map(|c| c.chosen).collect();
            if dump_states() {
                for (ix, f) in out.fingerprints.iter().enumerate() {
                    st.witness_of_state.entry(*f).or_insert_with(|| (full.clone(), ix));
                }
            }
            if st.samples.len() < 3 && (st.executions == 1 || st.executions % 9973 == 0) && !was_blocked {
                st.samples.push(full.clone());
            }
            for (key, desc) in out.violations {
                st.add_violation(FoundViolation { key, desc, choices: full.clone(), deviations: 0, count: 1 });
            }
            let mut children: Vec<Item> = Vec::new();
            for i in prefix.len()..trace.len() {
                let cp = &trace[i];
                if cp.ids.is_empty() {
                    // non-scheduling choice: branch over every alternative, empty sleep set
                    for alt in 1..cp.kinds.len() {
                        let mut child = full[..i].to_vec();
                        child.push(alt as u16);
                        children.push((child, Vec::new()));
                    }
                    continue;
                }
                let mut explored: Vec<u16> = vec![cp.ids[usize::from(cp.chosen)]];
                for j in 0..cp.ids.len() {
                    if j == usize::from(cp.chosen) || cp.sleep.contains(&cp.ids[j]) {
                        continue;
                    }
                    let e = cp.ids[j];
                    let child_sleep: Vec<u16> = cp.sleep.iter().chain(explored.iter()).copied().filter(|z| independent(*z, e)).collect();
                    let mut child = full[..i].to_vec();
                    child.push(j as u16);
                    children.push((child, child_sleep));
                    explored.push(e);
                }
            }
            if !children.is_empty() {
                outstanding.fetch_add(children.len(), Ordering::AcqRel);
                let mut g = global.lock().unwrap();
                if g.len() < hungry_below {
                    let share = children.len().min(hungry_below);
                    let rest = children.split_off(share);
                    g.extend(children);
                    drop(g);
                    local.extend(rest);
                } else {
                    drop(g);
                    local.extend(children);
                }
            }
            outstanding.fetch_sub(1, Ordering::AcqRel);
        }
        st
    };
    let mut total = Stats::default();
    std::thread::scope(|s| {
        let hs: Vec<_> = (0..threads).map(|_| s.spawn(worker)).collect();
        for h in hs {
            match h.join() {
                Ok(st) => total.merge(st),
                Err(e) => std::panic::resume_unwind(e),
            }
        }
    });
    total.capped = capped.into_inner().unwrap();
    (total, blocked_runs.load(Ordering::Relaxed))
}

/// Convenience: iterate the scheduling-deviation bound upwards from 0 until
/// `max_k` (or unbounded when `max_k == None`) or until the wall budget is
/// exhausted.  Returns the stats of the deepest completed level plus the
/// bound completed (`None` = unbounded search completed).
pub struct Deepening {
    pub stats: Stats,
    /// highest k fully enumerated (u32::MAX when the unbounded search finished)
    pub bound_completed: Option<u32>,
    pub levels: Vec<(u32, u64, f64)>,
    pub note: Option<String>,
}

pub fn iterative<F>(
    label: &str,
    ks: &[u32],
    env: u32,
    fault: u32,
    threads: usize,
    max_execs: u64,
    wall: Duration,
    run: F,
) -> Deepening
where
    F: Fn() -> RunOutput + Sync,
{
    let start = Instant::now();
    let deadline = start + wall;
    let mut best: Option<(u32, Stats)> = None;
    let mut levels = Vec::new();
    let mut note = None;
    let mut last: Option<(u64, f64)> = None;
    let mut prev: Option<(u64, f64)> = None;
    for &k in ks {
        // predict the cost of this level from the growth of the last two
        if let (Some((e1, t1)), Some((e0, _))) = (last, prev) {
            let growth = (e1 as f64 / e0.max(1) as f64).max(2.0);
            let predicted = t1 * growth;
            let left = deadline.saturating_duration_since(Instant::now()).as_secs_f64();
            if predicted > left * 1.5 || (e1 as f64 * growth) > max_execs as f64 * 1.5 {
                note = Some(format!(
                    "level k={k} not attempted: predicted {:.0} s / {:.1e} executions exceeds the cap",
                    predicted,
                    e1 as f64 * growth
                ));
                break;
            }
        }
        let t0 = Instant::now();
        let st = explore(
            Budget::new(k, env, fault),
            Limits {
                max_execs,
                deadline,
                threads,
                stop_after_violation_kinds: 0,
            },
            label,
            &run,
        );
        let dt = t0.elapsed().as_secs_f64();
        levels.push((k, st.executions, dt));
        if let Some(c) = &st.capped {
            note = Some(format!("level k={k} aborted: {c}"));
            // violations found in an incomplete level are still real executions
            if !st.violations.is_empty() {
                if let Some((_, b)) = best.as_mut() {
                    for v in st.violations {
                        b.add_violation(v);
                    }
                } else {
                    best = Some((0, st));
                    return Deepening {
                        stats: best.unwrap().1,
                        bound_completed: None,
                        levels,
                        note,
                    };
                }
            }
            break;
        }
        prev = last;
        last = Some((st.executions, dt));
        let same = best
            .as_ref()
            .is_some_and(|(_, b)| b.executions == st.executions);
        best = Some((k, st));
        if same && k != Budget::UNBOUNDED {
            // the tree is exhausted: a larger bound adds nothing
            best.as_mut().unwrap().0 = Budget::UNBOUNDED;
            break;
        }
    }
    match best {
        Some((k, stats)) => Deepening {
            stats,
            bound_completed: Some(k),
            levels,
            note,
        },
        None => Deepening {
            stats: Stats::default(),
            bound_completed: None,
            levels,
            note,
        },
    }
}
