//! stub — being built
use crate::Args;
use crate::report::Report;

pub fn run(args: &Args) -> Report {
    let mut rep = Report::new("C14", &args.tier, "enum", "exploration");
    rep.machinery_error = Some("not built yet".into());
    rep
}
