//! C10 bounded-exhaustive harness: every sequence (len 1, 2) of frames over a small flow alphabet
#![allow(clippy::all, missing_docs, dead_code)]

use bytes::Bytes;
use futures_util::FutureExt;
use penguin_mux::config::Options;
use penguin_mux::frame::{BindType, Frame};
use penguin_mux::ws::{Message, WebSocket};
use penguin_mux::{Datagram, Error, Multiplexor, MuxStream};
use std::collections::BTreeMap;
use std::task::{Context, Poll};
use tokio::io::{AsyncReadExt, AsyncWriteExt};
use tokio::sync::mpsc;
use tokio::task::JoinSet;

struct MockWs {
    tx: Option<mpsc::UnboundedSender<Message>>,
    rx: mpsc::UnboundedReceiver<Message>,
}

impl WebSocket for MockWs {
    fn poll_ready_unpin(&mut self, _cx: &mut Context<'_>) -> Poll<Result<(), Error>> {
        Poll::Ready(if self.tx.is_some() {
            Ok(())
        } else {
            Err(Error::Closed)
        })
    }
    fn start_send_unpin(&mut self, item: Message) -> Result<(), Error> {
        self.tx
            .as_ref()
            .ok_or(Error::Closed)?
            .send(item)
            .or(Err(Error::Closed))
    }
    fn poll_flush_unpin(&mut self, _cx: &mut Context<'_>) -> Poll<Result<(), Error>> {
        Poll::Ready(Ok(()))
    }
    fn poll_close_unpin(&mut self, _cx: &mut Context<'_>) -> Poll<Result<(), Error>> {
        self.tx.take();
        Poll::Ready(Ok(()))
    }
    fn poll_next_unpin(&mut self, cx: &mut Context<'_>) -> Poll<Option<Result<Message, Error>>> {
        self.rx.poll_recv(cx).map(|x| x.map(Ok))
    }
}

struct RawPeer {
    tx: mpsc::UnboundedSender<Message>,
    rx: mpsc::UnboundedReceiver<Message>,
}

#[derive(Clone, PartialEq, Eq)]
struct Seen {
    op: u8,
    id: u32,
    body: Vec<u8>,
}
impl std::fmt::Debug for Seen {
    fn fmt(&self, f: &mut std::fmt::Formatter<'_>) -> std::fmt::Result {
        let n = ["Con", "Ack", "Rst", "Fin", "Psh", "Bnd", "Dgm"];
        write!(f, "{}({:x},{:?})", n[self.op as usize], self.id, self.body)
    }
}

const CONNECT: u8 = 0;
const ACK: u8 = 1;
const RESET: u8 = 2;
const FINISH: u8 = 3;
const PUSH: u8 = 4;
const BIND: u8 = 5;
const DGRAM: u8 = 6;

async fn settle() {
    for _ in 0..40 {
        tokio::task::yield_now().await;
    }
}

impl RawPeer {
    fn send(&self, frame: Frame<'_>) {
        self.tx.send(frame.into()).ok();
    }
    /// Everything emitted so far
    async fn collect(&mut self) -> Vec<Seen> {
        settle().await;
        let mut v = Vec::new();
        while let Ok(m) = self.rx.try_recv() {
            if let Message::Binary(b) = m {
                v.push(Seen {
                    op: b[0] & 0x0f,
                    id: u32::from_be_bytes([b[1], b[2], b[3], b[4]]),
                    body: b[5..].to_vec(),
                });
            }
        }
        v
    }
}

#[derive(Clone, Copy, Debug, PartialEq, Eq, PartialOrd, Ord)]
enum Slot {
    Zero,
    Absent,
    Req,
    BReq,
    EstA,
    EstI,
    HalfR,
    HalfW,
    Both,
}
const SLOTS: [Slot; 9] = [
    Slot::Zero,
    Slot::Absent,
    Slot::Req,
    Slot::BReq,
    Slot::EstA,
    Slot::EstI,
    Slot::HalfR,
    Slot::HalfW,
    Slot::Both,
];

#[derive(Clone, Copy, Debug, PartialEq, Eq, PartialOrd, Ord)]
enum Op {
    Connect,
    Ack,
    Reset,
    Finish,
    Push,
    Overrun,
    Bind,
    Dgram,
}
const OPS: [Op; 8] = [
    Op::Connect,
    Op::Ack,
    Op::Reset,
    Op::Finish,
    Op::Push,
    Op::Overrun,
    Op::Bind,
    Op::Dgram,
];

struct World {
    mux: std::sync::Arc<Multiplexor>,
    js: JoinSet<penguin_mux::Result<()>>,
    peer: RawPeer,
    ids: BTreeMap<Slot, u32>,
    streams: BTreeMap<Slot, MuxStream>,
    by1: MuxStream,
    by1_id: u32,
    by2: MuxStream,
    by2_id: u32,
    req: tokio::task::JoinHandle<penguin_mux::Result<MuxStream>>,
    breq: tokio::task::JoinHandle<penguin_mux::Result<bool>>,
}

const RWND: u32 = 4;

async fn accept_from_peer(mux: &Multiplexor, peer: &mut RawPeer, id: u32) -> MuxStream {
    peer.send(Frame::new_connect(b"h", 1, id, 64));
    let s = mux.accept_stream_channel().await.unwrap();
    let seen = peer.collect().await;
    assert!(seen.iter().any(|f| (f.op, f.id) == (ACK, id)), "{seen:?}");
    s
}

async fn initiate(mux: &Multiplexor, peer: &mut RawPeer) -> (MuxStream, u32) {
    let fut = mux.new_stream_channel(b"h", 1);
    tokio::pin!(fut);
    assert!(futures_util::poll!(fut.as_mut()).is_pending());
    let seen = peer.collect().await;
    assert_eq!(seen.len(), 1, "{seen:?}");
    assert_eq!(seen[0].op, CONNECT);
    let id = seen[0].id;
    peer.send(Frame::new_acknowledge(id, 64));
    (fut.await.unwrap(), id)
}

async fn build(bind_enabled: bool) -> World {
    let (tx1, rx1) = mpsc::unbounded_channel();
    let (tx2, rx2) = mpsc::unbounded_channel();
    let ws = MockWs {
        tx: Some(tx1),
        rx: rx2,
    };
    let mut peer = RawPeer { tx: tx2, rx: rx1 };
    let mut js = JoinSet::new();
    let options = Options::new()
        .rwnd(RWND)
        .default_rwnd_threshold(2)
        .bind_buffer_size(if bind_enabled { 8 } else { 0 });
    let mux = std::sync::Arc::new(Multiplexor::new_with_opt(ws, options, Some(&mut js)));
    let mut ids = BTreeMap::new();
    let mut streams = BTreeMap::new();
    ids.insert(Slot::Zero, 0);
    ids.insert(Slot::Absent, 5);
    // bystanders
    let by1 = accept_from_peer(&mux, &mut peer, 0x20).await;
    let (by2, by2_id) = initiate(&mux, &mut peer).await;
    // established
    let s = accept_from_peer(&mux, &mut peer, 0x10).await;
    ids.insert(Slot::EstA, 0x10);
    streams.insert(Slot::EstA, s);
    let (s, id) = initiate(&mux, &mut peer).await;
    ids.insert(Slot::EstI, id);
    streams.insert(Slot::EstI, s);
    // read closed
    let s = accept_from_peer(&mux, &mut peer, 0x11).await;
    peer.send(Frame::new_finish(0x11));
    ids.insert(Slot::HalfR, 0x11);
    streams.insert(Slot::HalfR, s);
    // write closed
    let mut s = accept_from_peer(&mux, &mut peer, 0x12).await;
    s.shutdown().await.unwrap();
    ids.insert(Slot::HalfW, 0x12);
    streams.insert(Slot::HalfW, s);
    // both closed, still held
    let mut s = accept_from_peer(&mux, &mut peer, 0x13).await;
    s.shutdown().await.unwrap();
    peer.send(Frame::new_finish(0x13));
    ids.insert(Slot::Both, 0x13);
    streams.insert(Slot::Both, s);
    let _ = peer.collect().await; // the two Finish
    // pending requests
    let m = mux.clone();
    let req = tokio::spawn(async move { m.new_stream_channel(b"h", 1).await });
    let seen = peer.collect().await;
    assert_eq!(seen.len(), 1);
    assert_eq!(seen[0].op, CONNECT);
    ids.insert(Slot::Req, seen[0].id);
    let m = mux.clone();
    let breq = tokio::spawn(async move { m.request_bind(b"h", 1, BindType::Stream).await });
    let seen = peer.collect().await;
    assert_eq!(seen.len(), 1);
    assert_eq!(seen[0].op, BIND);
    ids.insert(Slot::BReq, seen[0].id);
    World {
        mux,
        js,
        peer,
        ids,
        streams,
        by1,
        by1_id: 0x20,
        by2,
        by2_id,
        req,
        breq,
    }
}

fn send_op(w: &World, op: Op, slot: Slot) {
    let id = w.ids[&slot];
    match op {
        Op::Connect => w.peer.send(Frame::new_connect(b"x", 2, id, 2)),
        Op::Ack => w.peer.send(Frame::new_acknowledge(id, 1)),
        Op::Reset => w.peer.send(Frame::new_reset(id)),
        Op::Finish => w.peer.send(Frame::new_finish(id)),
        Op::Push => w.peer.send(Frame::new_push(id, b"x")),
        Op::Overrun => {
            for _ in 0..=RWND {
                w.peer.send(Frame::new_push(id, b"o"));
            }
        }
        Op::Bind => w
            .peer
            .send(Frame::new_bind(id, BindType::Stream, b"b", 3)),
        Op::Dgram => w.peer.send(Frame::new_datagram(id, b"d", 4, b"dg")),
    }
}

/// Check that a (supposedly untouched) established stream still works both ways
async fn echo_ok(peer: &mut RawPeer, s: &mut MuxStream, id: u32, tag: &str) -> Result<(), String> {
    peer.send(Frame::new_push(id, b"ping"));
    settle().await;
    let mut buf = [0u8; 16];
    match s.read(&mut buf).now_or_never() {
        Some(Ok(4)) if &buf[..4] == b"ping" => {}
        other => return Err(format!("{tag}: read -> {other:?}")),
    }
    match s.write_all(b"pong").now_or_never() {
        Some(Ok(())) => {}
        other => return Err(format!("{tag}: write -> {other:?}")),
    }
    let seen = peer.collect().await;
    if !seen
        .iter()
        .any(|f| (f.op, f.id, &f.body[..]) == (PUSH, id, &b"pong"[..]))
    {
        return Err(format!("{tag}: pong not seen: {seen:?}"));
    }
    if seen.iter().any(|f| f.id != id) {
        return Err(format!("{tag}: foreign frames {seen:?}"));
    }
    Ok(())
}

async fn run(seq: &[(Op, Slot)], bind_enabled: bool, verbose: bool) -> Vec<String> {
    let mut errs = Vec::new();
    let mut w = build(bind_enabled).await;
    let mut replies = Vec::new();
    for &(op, slot) in seq {
        send_op(&w, op, slot);
        let r = w.peer.collect().await;
        // The app is well behaved: it takes accepted streams, bind requests and datagrams
        while let Some(Ok(s)) = w.mux.accept_stream_channel().now_or_never() {
            drop(s);
        }
        if bind_enabled {
            while let Some(Ok(b)) = w.mux.next_bind_request().now_or_never() {
                b.reply(false).ok();
            }
        }
        while let Some(Ok(_)) = w.mux.get_datagram().now_or_never() {}
        let mut r2 = w.peer.collect().await;
        let mut r = r;
        r.append(&mut r2);
        replies.push(r);
    }
    if verbose {
        println!("{seq:?} -> {replies:?}");
    }
    // (a) the task lives
    if let Some(r) = w.js.try_join_next() {
        errs.push(format!("task exited: {r:?}"));
        return errs;
    }
    let addressed: Vec<u32> = seq.iter().map(|(_, s)| w.ids[s]).collect();
    // (c) replies only concern addressed flows
    for r in replies.iter().flatten() {
        if !addressed.contains(&r.id) && r.op != CONNECT {
            errs.push(format!("reply on a flow not addressed: {r:?}"));
        }
    }
    // (d) never Reset in reply to a sequence made of Reset only
    if seq.iter().all(|(o, _)| *o == Op::Reset) && replies.iter().flatten().any(|r| r.op == RESET)
    {
        errs.push(format!("Reset in reply to Reset: {replies:?}"));
    }
    // (d') frames on unknown flows are answered with Reset
    for (i, &(op, slot)) in seq.iter().enumerate() {
        if matches!(slot, Slot::Zero | Slot::Absent)
            && matches!(op, Op::Ack | Op::Finish | Op::Push | Op::Overrun)
            && !seq[..i].iter().any(|(o, s)| *s == slot && *o == Op::Connect)
        {
            let id = w.ids[&slot];
            if !replies[i].iter().any(|r| (r.op, r.id) == (RESET, id)) {
                errs.push(format!("no Reset for unknown flow: {:?}", replies[i]));
            }
        }
    }
    // (b) bystanders
    let (id1, id2) = (w.by1_id, w.by2_id);
    if let Err(e) = echo_ok(&mut w.peer, &mut w.by1, id1, "by1").await {
        errs.push(e);
    }
    if let Err(e) = echo_ok(&mut w.peer, &mut w.by2, id2, "by2").await {
        errs.push(e);
    }
    for slot in [Slot::EstA, Slot::EstI] {
        if !seq.iter().any(|(_, s)| *s == slot) {
            let id = w.ids[&slot];
            let s = w.streams.get_mut(&slot).unwrap();
            if let Err(e) = echo_ok(&mut w.peer, s, id, &format!("{slot:?}")).await {
                errs.push(e);
            }
        }
    }
    // HalfR not addressed: still writable, reads EOF
    if !seq.iter().any(|(_, s)| *s == Slot::HalfR) {
        let s = w.streams.get_mut(&Slot::HalfR).unwrap();
        let mut buf = [0u8; 4];
        match s.read(&mut buf).now_or_never() {
            Some(Ok(0)) => {}
            o => errs.push(format!("HalfR read {o:?}")),
        }
        match s.write_all(b"w").now_or_never() {
            Some(Ok(())) => {}
            o => errs.push(format!("HalfR write {o:?}")),
        }
        let seen = w.peer.collect().await;
        if seen.len() != 1 || (seen[0].op, seen[0].id) != (PUSH, 0x11) {
            errs.push(format!("HalfR write frames {seen:?}"));
        }
    }
    // HalfW not addressed: still readable
    if !seq.iter().any(|(_, s)| *s == Slot::HalfW) {
        w.peer.send(Frame::new_push(0x12, b"r"));
        settle().await;
        let s = w.streams.get_mut(&Slot::HalfW).unwrap();
        let mut buf = [0u8; 4];
        match s.read(&mut buf).now_or_never() {
            Some(Ok(1)) => {}
            o => errs.push(format!("HalfW read {o:?}")),
        }
        let seen = w.peer.collect().await;
        if !seen.is_empty() {
            errs.push(format!("HalfW read frames {seen:?}"));
        }
    }
    // (e) pending requests not addressed complete properly
    if !seq.iter().any(|(_, s)| *s == Slot::Req) {
        if w.req.is_finished() {
            errs.push("pending new_stream_channel finished early".into());
        } else {
            w.peer.send(Frame::new_acknowledge(w.ids[&Slot::Req], 9));
            settle().await;
            match (&mut w.req).now_or_never() {
                Some(Ok(Ok(_))) => {}
                o => errs.push(format!("Req completion: {o:?}")),
            }
        }
    }
    if !seq.iter().any(|(_, s)| *s == Slot::BReq) {
        if w.breq.is_finished() {
            errs.push("pending request_bind finished early".into());
        } else {
            w.peer.send(Frame::new_finish(w.ids[&Slot::BReq]));
            settle().await;
            match (&mut w.breq).now_or_never() {
                Some(Ok(Ok(true))) => {}
                o => errs.push(format!("BReq completion: {o:?}")),
            }
        }
    }
    if let Some(r) = w.js.try_join_next() {
        errs.push(format!("task exited at the end: {r:?}"));
    }
    w.req.abort();
    w.breq.abort();
    errs
}

#[tokio::test]
async fn enum_len1() {
    for bind in [false, true] {
        println!("=== bind_enabled = {bind}");
        for op in OPS {
            for slot in SLOTS {
                let errs = run(&[(op, slot)], bind, true).await;
                for e in errs {
                    println!("    !! {e}");
                }
            }
        }
    }
}

#[tokio::test]
async fn enum_len2() {
    let mut sigs: BTreeMap<String, Vec<String>> = BTreeMap::new();
    let mut n = 0;
    for bind in [false, true] {
        for op1 in OPS {
            for s1 in SLOTS {
                for op2 in OPS {
                    for s2 in SLOTS {
                        let seq = [(op1, s1), (op2, s2)];
                        let errs = run(&seq, bind, false).await;
                        n += 1;
                        for e in errs {
                            sigs.entry(e).or_default().push(format!("{seq:?}/{bind}"));
                        }
                    }
                }
            }
        }
    }
    println!("{n} runs");
    for (e, seqs) in &sigs {
        println!("!! {e}\n      x{} e.g. {:?}", seqs.len(), &seqs[..seqs.len().min(4)]);
    }
}
