#!/usr/bin/env python3
"""Round 11+: tools/seedprompts/gen11.py <ID> <round> -> /tmp/seedprompts/<ID>-r<round>.txt
Like gen.py, plus a compact list of the spots used for ANY property in earlier rounds."""
import json, sys, glob, os, subprocess
pid, rnd = sys.argv[1], sys.argv[2]
here = os.path.dirname(os.path.abspath(__file__))
out = subprocess.run([sys.executable, os.path.join(here, 'gen.py'), pid, rnd], capture_output=True, text=True).stdout.strip()
path = f'/tmp/seedprompts/{pid}-r{rnd}.txt'
p = open(path).read()
others = []
for d in sorted(glob.glob('/verif/seeded/C*/') + glob.glob('/verif/seeded/_superseded/C*/')):
    n = os.path.basename(d.rstrip('/'))
    if n.startswith(pid + '-') and '_superseded' not in d:
        continue
    try:
        m = json.load(open(d + 'meta.json'))
    except Exception:
        continue
    s = (m.get('summary') or '').replace('\n', ' ')
    others.append(s[:130])
p += ("\nSpots already used by breaks written for OTHER properties (first words of each description; several of them also break this property, "
      "so do not re-invent any of them either): " + ' | '.join(others) + "\n"
      "\nThings that are NOT acceptable as a break because the unchanged code behaves the same way in some legal execution: an extra Reset for a frame that crosses a close; "
      "the outcome of re-using a flow id while frames of its previous incarnation are still in flight; which datagram is discarded at a full datagram buffer.\n")
open(path, 'w').write(p)
print(out, len(others), len(p))
