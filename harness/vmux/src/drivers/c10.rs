//! C10 — a misbehaving peer cannot crash, wedge or cross-contaminate an endpoint.
//! Real endpoint + scripted raw peer; every frame sequence up to a length from every slot state.

use super::common::{Case, Plan, run_cases};
use crate::Args;
use crate::apps::{BindAnswer, EndPlan, Ev, Op, SideCfg, World, opts};
use crate::codec::RFrame;
use crate::explore::{Cost, RunOutput, choose_n};
use crate::link::UNBOUNDED_CAP;
use crate::raw::{RMsg, Raw};
use crate::report::Report;
use crate::sim::{Fnv, Step};
use std::collections::BTreeMap;
use std::time::Duration;

const V: u32 = 5; // victim flow id
const BY: u32 = 9; // bystander flow id
const UNK: u32 = 77; // a flow id the endpoint has never seen
const VT: u8 = 0x31; // host tag of the victim stream
const BT: u8 = 0x32; // host tag of the bystander stream
const E_RWND: u32 = 2;
const DG_BUF: usize = 2; // datagram buffer of the endpoint in the sequences that contain a datagram flood

#[derive(Clone, Copy, Debug, PartialEq, Eq, Hash)]
pub enum Base {
    Absent,
    Requested,
    BindRequested,
    Established,
    ReadClosed,
    WriteClosed,
    BothHalfClosed,
    /// a stream request was sent and its future then cancelled (e.g. by a timeout)
    RequestedCancelled,
    /// a bind request was sent and its future then cancelled
    BindRequestedCancelled,
}

const BASES: [Base; 9] = [
    Base::Absent,
    Base::Requested,
    Base::BindRequested,
    Base::Established,
    Base::ReadClosed,
    Base::WriteClosed,
    Base::BothHalfClosed,
    Base::RequestedCancelled,
    Base::BindRequestedCancelled,
];

#[derive(Clone, Debug, PartialEq, Eq, Hash)]
pub enum Atk {
    F(RFrame),
    /// window + 1 consecutive Push frames on the victim
    Overrun,
    /// a message that is not a valid frame
    Invalid(Vec<u8>),
    /// more Datagram frames than the endpoint's datagram buffer holds, while its application takes none out
    DgramFlood,
}

fn atk_str(a: &Atk) -> String {
    match a {
        Atk::F(f) => match f {
            RFrame::Connect { id, rwnd, .. } => format!("Connect({id},rwnd={rwnd})"),
            RFrame::Acknowledge { id, n } => format!("Ack({id},{n})"),
            RFrame::Reset { id } => format!("Reset({id})"),
            RFrame::Finish { id } => format!("Finish({id})"),
            RFrame::Push { id, data } => format!("Push({id},{}B)", data.len()),
            RFrame::Bind { id, btype, .. } => format!("Bind({id},t{btype})"),
            RFrame::Datagram { id, .. } => format!("Dgram({id})"),
        },
        Atk::Overrun => "Overrun(V)".into(),
        Atk::DgramFlood => "DgramFlood".into(),
        Atk::Invalid(b) => format!("Invalid({})", crate::report::hex(b)),
    }
}

fn alphabet() -> Vec<Atk> {
    let mut v = Vec::new();
    for id in [0u32, V, UNK] {
        v.push(Atk::F(RFrame::Connect { id, rwnd: 1, port: 7, host: vec![0x33, b'x'] }));
        for n in [0u32, 1, u32::MAX] {
            v.push(Atk::F(RFrame::Acknowledge { id, n }));
        }
        v.push(Atk::F(RFrame::Reset { id }));
        v.push(Atk::F(RFrame::Finish { id }));
        v.push(Atk::F(RFrame::Push { id, data: vec![] }));
        v.push(Atk::F(RFrame::Push { id, data: vec![b'x'] }));
        v.push(Atk::F(RFrame::Bind { id, btype: 1, port: 1, host: vec![b'h'] }));
        v.push(Atk::F(RFrame::Bind { id, btype: 3, port: 65535, host: vec![] }));
        // (payloads of 0, 1 and 2 octets and hosts of 0, 1 and 2 octets across the three ids: the short ends of the format)
        let k = if id == 0 { 0usize } else if id == V { 1 } else { 2 };
        v.push(Atk::F(RFrame::Datagram { id, port: 53, host: vec![b'd'; 2 - k], data: vec![1; k] }));
    }
    // frames a peer could send on the bystander's id while it is live
    v.push(Atk::F(RFrame::Connect { id: BY, rwnd: 1, port: 7, host: vec![0x33] }));
    v.push(Atk::F(RFrame::Acknowledge { id: BY, n: 0 }));
    v.push(Atk::Overrun);
    v.push(Atk::DgramFlood);
    v
}

fn invalids() -> Vec<Atk> {
    let mut v = vec![Atk::Invalid(vec![0x74, 0, 0]), Atk::Invalid(vec![0x64, 0, 0, 0, 5, 1]), Atk::Invalid(vec![0x7f, 0, 0, 0, 5]), Atk::Invalid(vec![0x75, 0, 0, 0, 5, 2, 0, 1])];
    // every unassigned operation code, under both version nibbles a receiver accepts
    for ver in [0x70u8, 0x00] {
        for op in 7u8..=15 {
            if ver | op != 0x7f {
                v.push(Atk::Invalid(vec![ver | op, 0, 0, 0, 5]));
            }
        }
    }
    // other version nibbles on an otherwise valid Push
    for ver in [0x10u8, 0x80, 0xf0] {
        v.push(Atk::Invalid(vec![ver | 4, 0, 0, 0, 5, 1]));
    }
    // messages that end before the fixed fields of their frame type do
    for m in [vec![], vec![0x74], vec![0x74, 0, 0, 0], vec![0x70, 0, 0, 0, 5, 0], vec![0x71, 0, 0, 0, 5, 0, 0], vec![0x75, 0, 0, 0, 5, 1], vec![0x76, 0, 0, 0, 5, 3, b'a']] {
        v.push(Atk::Invalid(m));
    }
    v
}

struct Ctx {
    w: World,
    raw: Raw,
    viol: Vec<(String, String)>,
    fps: Vec<u64>,
    wit: u64,
    binds: bool,
}

const W_RESET_REPLY: u64 = 1;
const W_OVERRUN: u64 = 2;
const W_INVALID_ENDS: u64 = 4;
const W_BYSTANDER_OK: u64 = 8;
const W_COLLISION_REJECTED: u64 = 16;

fn pv(v: &mut Vec<(String, String)>, key: &str, desc: String) {
    if !v.iter().any(|(k, _)| k == key) {
        v.push((key.to_string(), desc));
    }
}

impl Ctx {
    /// Let the endpoint run until nothing is left to do; the raw peer consumes what reaches it.
    fn settle(&mut self) -> Vec<RMsg> {
        let mut new = Vec::new();
        loop {
            if self.w.sim.steps > 5000 {
                pv(&mut self.viol, "livelock", "step horizon reached while settling".into());
                break;
            }
            let en = self.w.sim.enabled();
            if en.is_empty() {
                break;
            }
            let c = choose_n(en.len(), Cost::Sched);
            let s: Step = en[c].clone();
            self.w.sim.apply(&s);
            new.extend(self.raw.pump());
            let mut h = Fnv::default();
            if let Some(m) = self.w.mux[0].as_ref() {
                for f in m.verif_flow_digest() {
                    h.u64(u64::from(f.id));
                    h.u64(u64::from(f.credit));
                    h.byte(f.kind | u8::from(f.finish_sent) << 2 | u8::from(f.read_open) << 3);
                    h.u64(f.queued as u64);
                }
            }
            h.u64(self.raw.got.len() as u64);
            h.u64(self.w.obs.borrow().events.len() as u64);
            for (i, t) in self.w.sim.tasks.iter().enumerate() {
                h.byte(u8::from(t.done) | u8::from(self.w.sim.is_runnable(i)) << 1);
            }
            self.fps.push(h.0);
        }
        new
    }

    fn digest_of(&self, id: u32) -> Option<penguin_mux::verif_hooks::VerifFlow> {
        self.w.mux[0].as_ref().and_then(|m| m.verif_flow_digest().into_iter().find(|f| f.id == id))
    }
}

fn resets_on(msgs: &[RMsg], id: u32) -> usize {
    msgs.iter().filter(|m| matches!(m, RMsg::Frame(RFrame::Reset { id: i }) if *i == id)).count()
}
fn all_resets(msgs: &[RMsg]) -> usize {
    msgs.iter().filter(|m| matches!(m, RMsg::Frame(RFrame::Reset { .. }))).count()
}

fn exec(base: Base, binds: bool, seq: &[Atk], render: bool) -> RunOutput {
    let mut o = opts(E_RWND, 1).max_flow_id_retries(1);
    // sequences with a datagram flood run against an application that never calls get_datagram and a small buffer
    let flood = seq.iter().any(|a| matches!(a, Atk::DgramFlood));
    if flood {
        o = o.datagram_buffer_size(DG_BUF);
    }
    if binds {
        o = o.bind_buffer_size(4);
    }
    // the endpoint's own flow-id draws: the victim id first
    let cfg = SideCfg { opts: o, rng: vec![V, V, 0x4000, 0x4001] };
    let w = World::one(UNBOUNDED_CAP, 0, &cfg);
    let raw = Raw::new(1, w.sim.link.clone());
    let mut cx = Ctx { w, raw, viol: Vec::new(), fps: Vec::new(), wit: 0, binds };
    // applications on the endpoint
    let mut plans = BTreeMap::new();
    plans.insert(VT, EndPlan::Seq(if matches!(base, Base::WriteClosed | Base::BothHalfClosed) { vec![Op::Shutdown, Op::Park] } else { vec![Op::Park] }));
    plans.insert(BT, EndPlan::Seq(vec![Op::ReadToEof(8), Op::W(1), Op::Shutdown]));
    plans.insert(0x33, EndPlan::Seq(vec![Op::Park]));
    cx.w.spawn_acceptor(0, usize::MAX, plans);
    if !flood {
        cx.w.spawn_dgram_receiver(0, "dgrecv.a", usize::MAX, false);
    }
    if binds {
        cx.w.spawn_bind_responder(0, 0, vec![], vec![BindAnswer::DropIt]);
    }
    cx.settle();
    // ---- bystander stream with data in flight
    cx.raw.send(&RFrame::Connect { id: BY, rwnd: 4, port: 99, host: vec![BT, b'y'] });
    cx.raw.send(&RFrame::Push { id: BY, data: crate::apps::payload(BT, 0, 0, 2) });
    cx.w.obs.borrow_mut().dir(BT, 0).written.extend(crate::apps::payload(BT, 0, 0, 2));
    let got = cx.settle();
    if !got.iter().any(|m| matches!(m, RMsg::Frame(RFrame::Acknowledge { id: BY, n }) if *n == E_RWND)) {
        pv(&mut cx.viol, "setup.bystander", format!("bystander Connect not acknowledged with rwnd {E_RWND}: {got:?}"));
    }
    // ---- base state of the victim
    match base {
        Base::Absent => {}
        Base::Requested | Base::RequestedCancelled => {
            cx.w.spawn_opener(0, VT, vec![VT], 1, EndPlan::Seq(vec![Op::Park]));
            let got = cx.settle();
            if !got.iter().any(|m| matches!(m, RMsg::Frame(RFrame::Connect { id: V, .. }))) {
                pv(&mut cx.viol, "setup.requested", format!("no Connect({V}) seen: {got:?}"));
            }
            if base == Base::RequestedCancelled {
                let name = format!("open{VT}.a");
                if let Some(i) = cx.w.sim.tasks.iter().position(|t| t.name == name) {
                    cx.w.sim.cancel_task(i);
                    cx.w.obs.borrow_mut().end(&name);
                }
                cx.settle();
            }
        }
        Base::BindRequested | Base::BindRequestedCancelled => {
            cx.w.spawn_bind_requester(0, 0, 1, vec![b'b'], 80);
            let got = cx.settle();
            if !got.iter().any(|m| matches!(m, RMsg::Frame(RFrame::Bind { id: V, .. }))) {
                pv(&mut cx.viol, "setup.bindrequested", format!("no Bind({V}) seen: {got:?}"));
            }
            if base == Base::BindRequestedCancelled {
                if let Some(i) = cx.w.sim.tasks.iter().position(|t| t.name == "bindreq0.a") {
                    cx.w.sim.cancel_task(i);
                    cx.w.obs.borrow_mut().end("bindreq0.a");
                }
                cx.settle();
            }
        }
        Base::Established | Base::ReadClosed | Base::WriteClosed | Base::BothHalfClosed => {
            cx.raw.send(&RFrame::Connect { id: V, rwnd: 2, port: 1, host: vec![VT] });
            cx.settle();
            if matches!(base, Base::ReadClosed | Base::BothHalfClosed) {
                cx.raw.send(&RFrame::Finish { id: V });
                cx.settle();
            }
            let d = cx.digest_of(V);
            let want_fin = matches!(base, Base::WriteClosed | Base::BothHalfClosed);
            let want_read = !matches!(base, Base::ReadClosed | Base::BothHalfClosed);
            if d.is_none_or(|d| d.kind != 1 || d.finish_sent != want_fin || d.read_open != want_read) {
                pv(&mut cx.viol, "setup.established", format!("victim not in base state {base:?}: {d:?}"));
            }
        }
    }
    // ---- the attack sequence, one frame at a time
    let mut ended = false;
    for a in seq {
        let by_before = cx.digest_of(BY);
        let got = match a {
            Atk::F(f) => {
                let id = f.id();
                let before = cx.digest_of(id);
                cx.raw.send(f);
                let got = cx.settle();
                // R6: replies never concern the bystander unless it was addressed
                if id != BY && got.iter().any(|m| matches!(m, RMsg::Frame(g) if g.id() == BY)) {
                    pv(&mut cx.viol, "reply.on-bystander", format!("{} provoked frames on the bystander flow: {got:?}", atk_str(a)));
                }
                match f {
                    RFrame::Reset { .. } => {
                        // R2: never a Reset in reply to a Reset
                        if all_resets(&got) > 0 {
                            pv(&mut cx.viol, "reply.reset-to-reset", format!("{} was answered with a Reset: {got:?}", atk_str(a)));
                        }
                    }
                    RFrame::Push { .. } | RFrame::Finish { .. } | RFrame::Acknowledge { .. } if before.is_none() => {
                        // R1: frames on a flow the endpoint does not know => exactly one Reset on it
                        if resets_on(&got, id) != 1 || got.len() != 1 {
                            pv(&mut cx.viol, &format!("reply.unknown-flow.{}", f.name()), format!("{} on a flow the endpoint does not know must be answered by exactly one Reset({id}); got {got:?}", atk_str(a)));
                        } else {
                            cx.wit |= W_RESET_REPLY;
                        }
                    }
                    RFrame::Push { .. } | RFrame::Acknowledge { .. } if before.as_ref().is_some_and(|b| b.kind == 2) => {
                        // a bind request is settled by Finish (honoured) or Reset (refused) only; any other frame on its
                        // id (a stray one of an older flow that used the id, for instance) must leave it pending
                        let now = cx.digest_of(id);
                        if now != before {
                            pv(&mut cx.viol, "bindrequest.settled-by-stray-frame", format!("{}: the pending bind request on flow {id} changed from {before:?} to {now:?}; only Finish or Reset answer a Bind", atk_str(a)));
                        }
                    }
                    RFrame::Finish { .. } if base == Base::Requested && before.as_ref().is_some_and(|b| b.kind == 0) => {
                        // the answer to a Connect is Acknowledge or Reset; a Finish (a stray one of an older flow on the id,
                        // for instance) is no acceptance: the request is rejected like by a Reset, i.e. retried on a fresh id
                        // or failed with FlowIdRejected -- it must not report the whole connection as closed
                        let obs = cx.w.obs.borrow();
                        let err = obs.events.iter().find_map(|e| if let crate::apps::Ev::OpenErr { tag, err, .. } = e { (*tag == VT).then(|| err.clone()) } else { None });
                        drop(obs);
                        if let Some(e) = err {
                            if e.contains("Closed") && !cx.w.task_done(0) {
                                pv(&mut cx.viol, "requested.finish-reported-as-closed", format!("{}: the pending stream request failed with {e} although the connection is up (frames sent in reply: {got:?})", atk_str(a)));
                            }
                        }
                    }
                    RFrame::Connect { .. } if id == 0 || before.is_some() => {
                        // R5: Connect with id 0 or an id in use => Reset, existing flow untouched
                        if resets_on(&got, id) != 1 || got.len() != 1 {
                            pv(&mut cx.viol, "reply.connect-collision", format!("{} (id 0 or in use) must be answered by exactly one Reset({id}); got {got:?}", atk_str(a)));
                        } else {
                            cx.wit |= W_COLLISION_REJECTED;
                        }
                        let now = cx.digest_of(id);
                        if now != before {
                            pv(&mut cx.viol, "connect-collision.disturbed", format!("{}: existing flow changed from {before:?} to {now:?}", atk_str(a)));
                        }
                    }
                    RFrame::Connect { .. } => {
                        // fresh id: must be accepted with our window
                        if !got.iter().any(|m| matches!(m, RMsg::Frame(RFrame::Acknowledge { id: i, n }) if *i == id && *n == E_RWND)) || got.len() != 1 {
                            pv(&mut cx.viol, "reply.connect-fresh", format!("{} on a free id must be answered by Acknowledge({id},{E_RWND}) only; got {got:?}", atk_str(a)));
                        }
                    }
                    RFrame::Bind { .. } if !cx.binds => {
                        // R4
                        if resets_on(&got, id) != 1 || got.len() != 1 {
                            pv(&mut cx.viol, "reply.bind-disabled", format!("{} with binds disabled must be answered by exactly one Reset({id}); got {got:?}", atk_str(a)));
                        }
                        let now = cx.digest_of(id);
                        if now != before {
                            pv(&mut cx.viol, "bind-disabled.disturbed", format!("{}: flow {id} changed from {before:?} to {now:?}", atk_str(a)));
                        }
                    }
                    RFrame::Bind { .. } => {
                        // the application drops the request => Reset; the flow table is not involved
                        let now = cx.digest_of(id);
                        if now != before {
                            pv(&mut cx.viol, "bind.disturbed", format!("{}: flow {id} changed from {before:?} to {now:?}", atk_str(a)));
                        }
                    }
                    RFrame::Datagram { .. } => {
                        let now = cx.digest_of(id);
                        if !got.is_empty() || now != before {
                            pv(&mut cx.viol, "datagram.disturbed", format!("{} provoked {got:?} / changed flow {id} from {before:?} to {now:?}", atk_str(a)));
                        }
                    }
                    _ => {}
                }
                got
            }
            Atk::Overrun => {
                // only meaningful while the victim's inbound side is open and nobody reads
                let before = cx.digest_of(V);
                let mut got = Vec::new();
                for i in 0..=E_RWND {
                    cx.raw.send(&RFrame::Push { id: V, data: vec![b'o', i as u8] });
                }
                got.extend(cx.settle());
                if let Some(b) = before {
                    if b.kind == 1 && b.read_open {
                        // R3: only the offending flow is torn down. A Reset is owed when the endpoint
                        // had not finished its own direction (after its Finish the flow simply ends;
                        // PROTOCOL.md does not demand a Reset there and later frames are reset anyway).
                        let now = cx.digest_of(V);
                        let r = resets_on(&got, V);
                        if all_resets(&got) != r || (!b.finish_sent && r < 1) || r > E_RWND as usize + 1 || now.is_some() {
                            pv(&mut cx.viol, "reply.overrun", format!("window overrun on flow {V} (state before {b:?}) must tear down exactly that flow, with Reset({V}) (frames arriving after the teardown are reset as frames on an unknown flow); got {got:?}, flow afterwards {now:?}"));
                        } else {
                            cx.wit |= W_OVERRUN;
                        }
                    }
                }
                if got.iter().any(|m| matches!(m, RMsg::Frame(g) if g.id() == BY)) {
                    pv(&mut cx.viol, "reply.on-bystander", format!("overrun of the victim provoked frames on the bystander: {got:?}"));
                }
                got
            }
            Atk::DgramFlood => {
                // nobody takes datagrams out: what does not fit is lost, nothing else may happen (no reply, no flow
                // touched); that the endpoint goes on serving is judged by the rest of the sequence and the epilogue
                let tbl_before = cx.w.mux[0].as_ref().map(|m| m.verif_flow_digest());
                for i in 0..DG_BUF + 2 {
                    cx.raw.send(&RFrame::Datagram { id: UNK, port: 53, host: vec![b'f'], data: vec![i as u8; 3] });
                }
                let got = cx.settle();
                let tbl_now = cx.w.mux[0].as_ref().map(|m| m.verif_flow_digest());
                if !got.is_empty() || tbl_now != tbl_before {
                    pv(&mut cx.viol, "datagram.disturbed", format!("a flood of {} datagrams provoked {got:?} / changed the flow table from {tbl_before:?} to {tbl_now:?}", DG_BUF + 2));
                }
                got
            }
            Atk::Invalid(b) => {
                cx.raw.send_bytes(b);
                let got = cx.settle();
                ended = true;
                got
            }
        };
        let _ = got;
        // bystander untouched by anything not addressed to it
        let addressed_by = matches!(a, Atk::F(f) if f.id() == BY);
        let by_now = cx.digest_of(BY);
        if !ended && !addressed_by && by_now != by_before {
            pv(&mut cx.viol, "bystander.state-changed", format!("{} changed the bystander flow from {by_before:?} to {by_now:?}", atk_str(a)));
        }
        if !ended && cx.w.task_done(0) {
            pv(&mut cx.viol, "task.ended", format!("the connection task ended after the well-formed frame {}: {:?}", atk_str(a), cx.w.task_result[0].borrow()));
            ended = true;
        }
        if ended {
            break;
        }
    }
    // ---- epilogue
    if ended {
        // an invalid message ends the connection with an error that every pending operation observes
        let res = cx.w.task_result[0].borrow().clone();
        if matches!(seq.last(), Some(Atk::Invalid(_))) {
            match res {
                Some(Err(e)) if e.contains("InvalidFrame") => cx.wit |= W_INVALID_ENDS,
                other => pv(&mut cx.viol, "invalid.task-result", format!("after an invalid message the task must end with InvalidFrame; got {other:?}")),
            }
            let obs = cx.w.obs.borrow();
            let pend: Vec<String> = obs.pending().into_iter().filter(|n| !n.starts_with("s49") && !n.starts_with("s51") && !n.starts_with("bindresp")).collect();
            // parked stream holders never finish by design (they do nothing); everything that waits on the multiplexor must resolve
            let waiting: Vec<&String> = pend.iter().filter(|n| n.starts_with("accept") || n.starts_with("dgrecv") || n.starts_with("open") || n.starts_with("bindreq") || n.starts_with("s50")).collect();
            if !waiting.is_empty() {
                pv(&mut cx.viol, "invalid.hang", format!("after the connection ended with an invalid frame these operations never resolved: {waiting:?}"));
            }
        }
    } else {
        // the bystander finishes its exchange
        cx.raw.send(&RFrame::Push { id: BY, data: crate::apps::payload(BT, 0, 2, 1) });
        cx.w.obs.borrow_mut().dir(BT, 0).written.extend(crate::apps::payload(BT, 0, 2, 1));
        cx.raw.send(&RFrame::Finish { id: BY });
        let got = cx.settle();
        let obs = cx.w.obs.borrow();
        let led = obs.dirs.get(&(BT, 0)).cloned().unwrap_or_default();
        let reply_ok = got.iter().any(|m| matches!(m, RMsg::Frame(RFrame::Push { id: BY, data }) if *data == crate::apps::payload(BT, 1, 0, 1)))
            && got.iter().any(|m| matches!(m, RMsg::Frame(RFrame::Finish { id: BY })));
        // a Connect/Ack(0) aimed at the bystander id is answered without touching it, so it must still complete
        if led.read != led.written || !led.eof || !reply_ok {
            let d = format!("bystander stream did not complete intact: read {:02x?} of {:02x?}, eof={}, reply on wire={reply_ok}, frames {got:?}", led.read, led.written, led.eof);
            drop(obs);
            pv(&mut cx.viol, "bystander.broken", d);
        } else {
            drop(obs);
            cx.wit |= W_BYSTANDER_OK;
        }
        // still serving: a fresh Connect is acknowledged
        cx.raw.send(&RFrame::Connect { id: 0x6161, rwnd: 1, port: 2, host: vec![0x33] });
        let got = cx.settle();
        if !got.iter().any(|m| matches!(m, RMsg::Frame(RFrame::Acknowledge { id: 0x6161, n }) if *n == E_RWND)) {
            pv(&mut cx.viol, "wedged", format!("after the sequence a fresh Connect is not acknowledged: {got:?}"));
        }
        if cx.w.task_done(0) {
            pv(&mut cx.viol, "task.ended", format!("connection task ended: {:?}", cx.w.task_result[0].borrow()));
        }
    }
    for t in &cx.w.sim.tasks {
        if let Some(p) = &t.panicked {
            let k = if t.name.starts_with("task") { "panic.task" } else { "panic.app" };
            pv(&mut cx.viol, k, format!("{} panicked: {p}", t.name));
        }
    }
    let mut h = Fnv::default();
    for m in &cx.raw.got {
        h.str(&format!("{m:?}"));
    }
    for e in &cx.w.obs.borrow().events {
        if !matches!(e, Ev::Note(_)) {
            h.str(&format!("{e:?}"));
        }
    }
    let out = RunOutput { blocked: false,
        steps: cx.w.sim.steps,
        fingerprints: std::mem::take(&mut cx.fps),
        outcome: h.0,
        violations: std::mem::take(&mut cx.viol),
        witnesses: cx.wit,
        horizon: false,
        rendering: render.then(|| format!("raw peer received: {:?}", cx.raw.got)),
    };
    cx.w.sim.teardown();
    out
}

pub fn run(args: &Args) -> Report {
    let mut rep = Report::new("C10", &args.tier, "psim", "fault_enumeration");
    let thorough = args.thorough();
    let al = alphabet();
    let inv = invalids();
    let mut seqs: Vec<Vec<Atk>> = Vec::new();
    for a in &al {
        seqs.push(vec![a.clone()]);
        for b in &al {
            seqs.push(vec![a.clone(), b.clone()]);
        }
    }
    for i in &inv {
        seqs.push(vec![i.clone()]);
        for a in &al {
            seqs.push(vec![a.clone(), i.clone()]);
        }
    }
    let mut cases = Vec::new();
    for base in BASES {
        for binds in [false, true] {
            for s in &seqs {
                let s2 = s.clone();
                let label = format!("base={base:?} binds={binds} seq=[{}]", s.iter().map(atk_str).collect::<Vec<_>>().join(","));
                cases.push(Case { try_unbounded: false, max_k: u32::MAX, label, exec: Box::new(move |r| exec(base, binds, &s2, r)) });
            }
            if thorough {
                // length 3 from the richest base states
                if !binds {
                    for a in &al {
                        for b in &al {
                            for c in &al {
                                let s3 = vec![a.clone(), b.clone(), c.clone()];
                                let label = format!("base={base:?} binds={binds} seq=[{}]", s3.iter().map(atk_str).collect::<Vec<_>>().join(","));
                                cases.push(Case { try_unbounded: false, max_k: u32::MAX, label, exec: Box::new(move |r| exec(base, binds, &s3, r)) });
                            }
                        }
                    }
                }
            }
        }
    }
    rep.bounds.insert("alphabet_size".into(), serde_json::json!(al.len()));
    rep.bounds.insert("invalid_messages".into(), serde_json::json!(inv.len()));
    rep.bounds.insert("sequence_length".into(), serde_json::json!(if thorough { "2 everywhere (binds on and off), 3 from every base state with binds off" } else { "2" }));
    rep.bounds.insert("base_states".into(), serde_json::json!(BASES.iter().map(|b| format!("{b:?}")).collect::<Vec<_>>()));
    let plan = Plan {
        ks: if thorough { vec![0, 1, 2] } else { vec![0, 1] },
        env: 0,
        fault: 0,
        total_wall: Duration::from_secs(if thorough { 1500 } else { 100 }),
        max_execs_per_case: 20_000,
        required_witnesses: W_RESET_REPLY | W_OVERRUN | W_INVALID_ENDS | W_BYSTANDER_OK | W_COLLISION_REJECTED,
        adaptive: thorough,
        witness_names: &[("reset_reply_to_unknown_flow", W_RESET_REPLY), ("overrun_reset", W_OVERRUN), ("invalid_frame_ends_connection", W_INVALID_ENDS), ("bystander_completed", W_BYSTANDER_OK), ("connect_collision_rejected", W_COLLISION_REJECTED)],
    };
    rep.rule = "real endpoint (binds on/off) + raw peer; from each of 9 slot states (incl. requests whose future was cancelled) of a victim flow, EVERY sequence up to length L over the frame alphabet (all opcodes x ids {0, victim, unknown} + frames on the live bystander id + window overrun) plus terminal invalid messages is delivered frame by frame with the endpoint run to quiescence in between; reply rules of PROTOCOL.md checked on the frames that reach the raw peer, bystander stream (data in flight before the attack) must complete intact, a fresh Connect must still be served, no panic, invalid message => task ends with InvalidFrame and pending operations resolve".into();
    rep.assumptions = vec![
        "replies are only asserted where PROTOCOL.md / the statement is explicit (unknown flow, Reset-to-Reset, overrun, Bind disabled, Connect collision); elsewhere only totality, bystander integrity and liveness are demanded".into(),
        "the flow-table hook is used for preconditions (is the flow known?) and for the 'existing flow untouched' clause".into(),
    ];
    run_cases(args, &mut rep, cases, &plan);
    rep
}
