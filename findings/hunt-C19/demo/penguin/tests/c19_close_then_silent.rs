//! C19 demo: the server ends the WebSocket in an orderly way (it sends a `Close`
//! frame and receives the client's `Close` reply) but its TCP connection is not
//! torn down afterwards (the server host froze / crashed / was partitioned right
//! after the closing handshake, or it simply leaves the TCP close to the client,
//! which RFC 6455 section 7.1.1 explicitly allows a client to do).
//!
//! The tunnel is gone at that point: nothing can be sent or received on it any more.
//! The property says the client reconnects after 200 ms. On the unmodified tree the
//! client never reconnects (not even with keepalive enabled): the multiplexor task
//! is stuck in `wind_down`, so `on_connected` keeps running on a dead multiplexor
//! until a local TCP request happens to arrive.
//
// SPDX-License-Identifier: Apache-2.0 OR GPL-3.0-or-later
#![allow(clippy::all, clippy::pedantic)]

use futures_util::{SinkExt, StreamExt};
use penguin_mux::timing::OptionalDuration;
use rusty_penguin_lib::arg::{ClientArgs, Remote, ServerUrl};
use rusty_penguin_lib::client::{self, HandlerResources};
use std::str::FromStr;
use std::sync::{Arc, Mutex};
use std::time::{Duration, Instant};
use tokio::net::TcpListener;
use tokio_tungstenite::tungstenite::handshake::server::{Request, Response};

/// Echo the sub-protocol the client asked for (tungstenite checks it).
fn cb(req: &Request, mut resp: Response) -> Result<Response, http::Response<Option<String>>> {
    if let Some(p) = req.headers().get("sec-websocket-protocol") {
        resp.headers_mut()
            .insert("sec-websocket-protocol", p.clone());
    }
    Ok(resp)
}

/// What the fake server does with the TCP connection once the WebSocket closing
/// handshake is complete.
#[derive(Clone, Copy, Debug)]
enum AfterClose {
    /// Keep the TCP connection open and stay silent
    Hold,
    /// Close the TCP connection (what a healthy server does)
    Drop,
}

/// A scripted fake server: every connection completes the WebSocket handshake, is
/// healthy (answers pings) for 300 ms, then performs an orderly WebSocket close.
/// Returns its address and the log of the connection attempts.
async fn fake_server(after: AfterClose) -> (std::net::SocketAddr, Arc<Mutex<Vec<Instant>>>) {
    let listener = TcpListener::bind("127.0.0.1:0").await.unwrap();
    let addr = listener.local_addr().unwrap();
    let log = Arc::new(Mutex::new(Vec::new()));
    let log2 = log.clone();
    tokio::spawn(async move {
        loop {
            let (tcp, _) = listener.accept().await.unwrap();
            log2.lock().unwrap().push(Instant::now());
            tokio::spawn(async move {
                let mut ws = tokio_tungstenite::accept_hdr_async(tcp, cb).await.unwrap();
                // Healthy for a while: read (and thereby answer pings)
                let _ = tokio::time::timeout(Duration::from_millis(300), async {
                    while let Some(Ok(_)) = ws.next().await {}
                })
                .await;
                // Orderly close: send `Close`, wait for the client's `Close`
                ws.send(tokio_tungstenite::tungstenite::Message::Close(None))
                    .await
                    .ok();
                let mut got_close_reply = false;
                while let Some(Ok(m)) = ws.next().await {
                    got_close_reply |= m.is_close();
                }
                assert!(got_close_reply, "client did not answer the `Close` frame");
                match after {
                    AfterClose::Drop => drop(ws),
                    AfterClose::Hold => {
                        // The closing handshake is complete; say nothing more
                        tokio::time::sleep(Duration::from_secs(3600)).await;
                        drop(ws);
                    }
                }
            });
        }
    });
    (addr, log)
}

async fn run(after: AfterClose) -> usize {
    let (addr, log) = fake_server(after).await;
    // Any free local port for the (unused) local listener
    let lport = {
        let l = TcpListener::bind("127.0.0.1:0").await.unwrap();
        l.local_addr().unwrap().port()
    };
    let args: &'static ClientArgs = Box::leak(Box::new(ClientArgs {
        server: ServerUrl::from_str(&format!("ws://{addr}/ws")).unwrap(),
        remote: vec![Remote::from_str(&format!("127.0.0.1:{lport}:127.0.0.1:9/udp")).unwrap()],
        // Keepalive is ON and as aggressive as the CLI allows: it does not help
        keepalive: OptionalDuration::from_secs(1),
        keepalive_timeout: OptionalDuration::from_secs(1),
        max_retry_count: 0,
        max_retry_interval: 1000,
        handshake_timeout: OptionalDuration::from_secs(2),
        channel_timeout: OptionalDuration::from_secs(2),
        ..Default::default()
    }));
    let (hr, stream_command_rx, datagram_rx) = HandlerResources::create();
    let hr: &'static HandlerResources = Box::leak(Box::new(hr));
    let client = tokio::spawn(client::client_main_inner(
        args,
        hr,
        stream_command_rx,
        datagram_rx,
    ));
    // First connection: 300 ms healthy, then the orderly close. The property promises
    // a new attempt 200 ms after that; allow more than ten times as much.
    tokio::time::sleep(Duration::from_secs(6)).await;
    assert!(!client.is_finished(), "the client must keep running");
    let attempts = log.lock().unwrap().len();
    client.abort();
    attempts
}

/// Control: the server closes TCP after the closing handshake. Passes.
#[tokio::test(flavor = "multi_thread", worker_threads = 2)]
async fn control_orderly_close_then_tcp_close_reconnects() {
    let attempts = run(AfterClose::Drop).await;
    assert!(
        attempts >= 2,
        "the client did not reconnect: {attempts} connection attempt(s)"
    );
}

/// The demo: FAILS on the unmodified tree with exactly one connection attempt.
#[tokio::test(flavor = "multi_thread", worker_threads = 2)]
async fn orderly_close_then_silence_reconnects() {
    let attempts = run(AfterClose::Hold).await;
    assert!(
        attempts >= 2,
        "the server closed the WebSocket 5.7 s ago but the client is still sitting on the \
         dead connection: {attempts} connection attempt(s) in 6 s"
    );
}
