//! C18, wire-level part ("C18W") — the SOCKS listener of the real penguin client answers every
//! request exactly as the SOCKS4 / SOCKS4a memos and RFC 1928 prescribe.
//!
//! Subject: `rusty_penguin_lib::client::client_main_inner` with one `socks` remote, connected to a
//! real `run_listener` server (both from `c01_env`), spoken to over loopback TCP with literal
//! bytes, one fresh TCP connection per request. The targets (an echoing listener per protocol
//! family, a port that refuses) are played by the harness.
//!
//! Oracle: the functions `judge_*` below, written from the protocol texts only (SOCKS4 memo,
//! SOCKS4a memo, RFC 1928 sections 3-6); nothing in the oracle calls the code under test.
//! The I/O part (`converse`) only records what was sent and received.
//!
//! Level `exploration`: the bounded request domain is enumerated completely, but each point is
//! one execution under whatever schedule tokio and the loopback stack produce.

use super::c01_env as env;
use crate::Args;
use crate::report::{Report, hex, unhex};
use serde_json::{Value, json};
use std::collections::{BTreeMap, HashSet};
use std::net::{Ipv6Addr, SocketAddr};
use std::sync::atomic::{AtomicBool, AtomicU64, AtomicUsize, Ordering};
use std::sync::{Arc, Mutex};
use std::time::{Duration, Instant};
use tokio::io::{AsyncReadExt, AsyncWriteExt};
use tokio::net::{TcpListener, TcpSocket, TcpStream};

/// every wait for the subject (typical: milliseconds). RFC 1928 section 6 allows the server 10 s
/// between a failure and the close, so the wait is a little longer than that.
const DEADLINE: Duration = Duration::from_secs(12);
/// after an answer that is already judged wrong, look this long for further bytes (not judged as a hang)
const GRACE: Duration = Duration::from_millis(200);
/// a UDP association must still be open this long after its success reply (one-sided: load cannot fail it)
const OPEN_WINDOW: Duration = Duration::from_millis(150);
/// pause between the two pieces of a split request (thorough tier)
const SPLIT_PAUSE: Duration = Duration::from_millis(20);
const PROBE: u8 = 0xa7;
/// once this many conversations of the parallel pass have hit the deadline, the others wait only SHORT_DEADLINE
/// (a subject that leaves connections hanging would otherwise cost 12 s per case); such hits count only through
/// a hit of the same kind confirmed alone with the full deadline
const HANGS_BEFORE_SHORT: usize = 4;
const SHORT_DEADLINE: Duration = Duration::from_secs(3);
/// wall budget of the isolated re-runs
const ISO_BUDGET: Duration = Duration::from_secs(150);

// ---------------------------------------------------------------------------------------
// cases
// ---------------------------------------------------------------------------------------

#[derive(Clone, Copy, Debug, PartialEq, Eq, Hash)]
enum Tgt {
    Accept,
    Refuse,
}

impl Tgt {
    fn name(self) -> &'static str {
        match self {
            Tgt::Accept => "accept",
            Tgt::Refuse => "refuse",
        }
    }
    fn from(s: &str) -> Option<Self> {
        match s {
            "accept" => Some(Tgt::Accept),
            "refuse" => Some(Tgt::Refuse),
            _ => None,
        }
    }
}

#[derive(Clone, Copy, Debug, PartialEq, Eq, Hash)]
struct Req5 {
    cmd: u8,
    rsv: u8,
    atyp: u8,
}

/// representative requests (all CONNECT/ASSOCIATE towards the accepting target) for truncation and splitting
#[derive(Clone, Copy, Debug, PartialEq, Eq, Hash)]
enum Fam {
    S4,
    S4a,
    S5v4,
    S5dom,
    S5v6,
    S5assoc,
}

impl Fam {
    fn name(self) -> &'static str {
        match self {
            Fam::S4 => "socks4",
            Fam::S4a => "socks4a",
            Fam::S5v4 => "socks5-ipv4",
            Fam::S5dom => "socks5-domain",
            Fam::S5v6 => "socks5-ipv6",
            Fam::S5assoc => "socks5-udp-associate",
        }
    }
    fn from(s: &str) -> Option<Self> {
        [Fam::S4, Fam::S4a, Fam::S5v4, Fam::S5dom, Fam::S5v6, Fam::S5assoc].into_iter().find(|f| f.name() == s)
    }
    fn is5(self) -> bool {
        !matches!(self, Fam::S4 | Fam::S4a)
    }
    /// the ordinary case this representative stands for
    fn base(self) -> Case {
        match self {
            Fam::S4 => Case::S4 { cd: 1, user: b"a".to_vec(), domain: None, tgt: Tgt::Accept },
            Fam::S4a => Case::S4 { cd: 1, user: b"a".to_vec(), domain: Some(b"localhost".to_vec()), tgt: Tgt::Accept },
            Fam::S5v4 => Case::S5 { methods: vec![0], req: Some(Req5 { cmd: 1, rsv: 0, atyp: 1 }), tgt: Tgt::Accept, pipelined: true },
            Fam::S5dom => Case::S5 { methods: vec![0], req: Some(Req5 { cmd: 1, rsv: 0, atyp: 3 }), tgt: Tgt::Accept, pipelined: true },
            Fam::S5v6 => Case::S5 { methods: vec![0], req: Some(Req5 { cmd: 1, rsv: 0, atyp: 4 }), tgt: Tgt::Accept, pipelined: true },
            Fam::S5assoc => Case::S5 { methods: vec![0], req: Some(Req5 { cmd: 3, rsv: 0, atyp: 1 }), tgt: Tgt::Accept, pipelined: true },
        }
    }
}

#[derive(Clone, Debug, PartialEq, Eq, Hash)]
enum Case {
    /// `04 CD DSTPORT DSTIP USERID 00 [DOMAIN 00]`; `domain` = Some: SOCKS4a (DSTIP 0.0.0.1)
    S4 { cd: u8, user: Vec<u8>, domain: Option<Vec<u8>>, tgt: Tgt },
    /// `05 NMETHODS METHODS` then (if `req`) `05 CMD RSV ATYP DST.ADDR DST.PORT`;
    /// `pipelined`: both in one write instead of waiting for the method selection
    S5 { methods: Vec<u8>, req: Option<Req5>, tgt: Tgt, pipelined: bool },
    /// first octet is not 4 or 5; the rest has the shape of a SOCKS4 request / a SOCKS5 greeting
    BadVer { ver: u8, shape5: bool },
    /// the first `keep` octets of the representative request, then the client half-closes
    Trunc { fam: Fam, keep: usize },
    /// the representative request written in two pieces `[..at]`, pause, `[at..]`
    Split { fam: Fam, at: usize },
}

impl Case {
    fn fam_no(&self) -> usize {
        match self {
            Case::S4 { .. } => 0,
            Case::S5 { .. } => 1,
            Case::BadVer { shape5, .. } => usize::from(*shape5),
            Case::Trunc { fam, .. } | Case::Split { fam, .. } => usize::from(fam.is5()),
        }
    }
    fn wire(&self) -> &'static str {
        if self.fam_no() == 0 { "wire4" } else { "wire5" }
    }
    fn to_json(&self) -> Value {
        match self {
            Case::S4 { cd, user, domain, tgt } => json!({"kind": "wire-socks4", "cd": cd, "user_hex": hex(user), "domain_hex": domain.as_ref().map(|d| hex(d)), "target": tgt.name()}),
            Case::S5 { methods, req, tgt, pipelined } => json!({"kind": "wire-socks5", "methods_hex": hex(methods), "request": req.map(|r| json!({"cmd": r.cmd, "rsv": r.rsv, "atyp": r.atyp})), "target": tgt.name(), "pipelined": pipelined}),
            Case::BadVer { ver, shape5 } => json!({"kind": "wire-bad-version", "ver": ver, "shape": if *shape5 { "socks5" } else { "socks4" }}),
            Case::Trunc { fam, keep } => json!({"kind": "wire-truncated", "family": fam.name(), "keep": keep}),
            Case::Split { fam, at } => json!({"kind": "wire-split", "family": fam.name(), "at": at}),
        }
    }
    fn from_json(v: &Value) -> Result<Case, String> {
        let s = |k: &str| v.get(k).and_then(Value::as_str).ok_or_else(|| format!("missing {k}"));
        let n = |k: &str| v.get(k).and_then(Value::as_u64).ok_or_else(|| format!("missing {k}"));
        let u8of = |x: u64| u8::try_from(x).map_err(|_| "octet out of range".to_string());
        match s("kind")? {
            "wire-socks4" => Ok(Case::S4 {
                cd: u8of(n("cd")?)?,
                user: unhex(s("user_hex")?),
                domain: v.get("domain_hex").and_then(Value::as_str).map(unhex),
                tgt: Tgt::from(s("target")?).ok_or("target")?,
            }),
            "wire-socks5" => {
                let req = match v.get("request") {
                    Some(r) if !r.is_null() => {
                        let f = |k: &str| r.get(k).and_then(Value::as_u64).ok_or_else(|| format!("missing request.{k}")).and_then(u8of);
                        Some(Req5 { cmd: f("cmd")?, rsv: f("rsv")?, atyp: f("atyp")? })
                    }
                    _ => None,
                };
                Ok(Case::S5 { methods: unhex(s("methods_hex")?), req, tgt: Tgt::from(s("target")?).ok_or("target")?, pipelined: v.get("pipelined").and_then(Value::as_bool).unwrap_or(false) })
            }
            "wire-bad-version" => Ok(Case::BadVer { ver: u8of(n("ver")?)?, shape5: s("shape")? == "socks5" }),
            "wire-truncated" => Ok(Case::Trunc { fam: Fam::from(s("family")?).ok_or("family")?, keep: n("keep")? as usize }),
            "wire-split" => Ok(Case::Split { fam: Fam::from(s("family")?).ok_or("family")?, at: n("at")? as usize }),
            other => Err(format!("unknown case kind {other}")),
        }
    }
    fn label(&self) -> String {
        match self {
            Case::S4 { cd, user, domain, tgt } => format!("SOCKS4{} CD={cd:#04x} user-id {:?}{} target {}", if domain.is_some() { "a" } else { "" }, String::from_utf8_lossy(&user[..user.len().min(8)]), domain.as_ref().map_or(String::new(), |d| format!(" domain {:?}", String::from_utf8_lossy(d))), tgt.name()),
            Case::S5 { methods, req, tgt, pipelined } => format!(
                "SOCKS5 methods [{}]{}{}",
                if methods.len() > 8 { format!("{} methods, last {:#04x}", methods.len(), methods[methods.len() - 1]) } else { hex(methods) },
                req.map_or(String::new(), |r| format!(" CMD={:#04x} RSV={:#04x} ATYP={:#04x} target {}", r.cmd, r.rsv, r.atyp, tgt.name())),
                if *pipelined { " (greeting and request in one write)" } else { "" }
            ),
            Case::BadVer { ver, shape5 } => format!("first octet {ver:#04x} followed by the rest of a {}", if *shape5 { "SOCKS5 greeting" } else { "SOCKS4 CONNECT request" }),
            Case::Trunc { fam, keep } => format!("{} request cut after {keep} octets, then the client half-closes", fam.name()),
            Case::Split { fam, at } => format!("{} request written in two pieces, split after {at} octets", fam.name()),
        }
    }
}

// ---------------------------------------------------------------------------------------
// request bytes (client side of the protocols, from the memos / RFC 1928 sections 3-5)
// ---------------------------------------------------------------------------------------

/// what the cases need to know about the environment
struct Ctx {
    entry: SocketAddr,
    client_done: Arc<AtomicBool>,
    /// port of the echoing target used by SOCKS4 cases / by SOCKS5 cases (127.0.0.1 and, if `v6`, [::1])
    accept: [u16; 2],
    refuse: u16,
    v6: bool,
    /// deadline hits seen so far in the parallel pass
    hangs: AtomicUsize,
}

impl Ctx {
    fn port(&self, fam_no: usize, t: Tgt) -> u16 {
        match t {
            Tgt::Accept => self.accept[fam_no],
            Tgt::Refuse => self.refuse,
        }
    }
}

fn s4_bytes(ctx: &Ctx, ver: u8, cd: u8, user: &[u8], domain: Option<&[u8]>, tgt: Tgt) -> Vec<u8> {
    let mut b = vec![ver, cd];
    b.extend_from_slice(&ctx.port(0, tgt).to_be_bytes());
    b.extend_from_slice(if domain.is_some() { &[0, 0, 0, 1] } else { &[127, 0, 0, 1] });
    b.extend_from_slice(user);
    b.push(0);
    if let Some(d) = domain {
        b.extend_from_slice(d);
        b.push(0);
    }
    b
}

fn s5_greeting(methods: &[u8]) -> Vec<u8> {
    let mut b = vec![5, u8::try_from(methods.len()).expect("at most 255 methods")];
    b.extend_from_slice(methods);
    b
}

fn s5_request(ctx: &Ctx, r: Req5, tgt: Tgt) -> Vec<u8> {
    let mut b = vec![5, r.cmd, r.rsv, r.atyp];
    match r.atyp {
        3 => {
            b.push(9);
            b.extend_from_slice(b"localhost");
        }
        4 => b.extend_from_slice(&Ipv6Addr::LOCALHOST.octets()),
        // ATYP 1, and the undefined types (a client that believes in them sends *something*: four octets here)
        _ => b.extend_from_slice(&[127, 0, 0, 1]),
    }
    b.extend_from_slice(&ctx.port(1, tgt).to_be_bytes());
    b
}

/// all octets of a representative request in the order they go on the wire
fn fam_bytes(ctx: &Ctx, fam: Fam) -> Vec<u8> {
    match fam.base() {
        Case::S4 { cd, user, domain, tgt } => s4_bytes(ctx, 4, cd, &user, domain.as_deref(), tgt),
        Case::S5 { methods, req, tgt, .. } => {
            let mut b = s5_greeting(&methods);
            b.extend_from_slice(&s5_request(ctx, req.expect("representative has a request"), tgt));
            b
        }
        _ => unreachable!(),
    }
}

// ---------------------------------------------------------------------------------------
// observation: what went over the wire (no judgement here)
// ---------------------------------------------------------------------------------------

#[derive(Clone, Copy, Debug, PartialEq, Eq)]
enum End {
    Eof,
    Reset,
    /// nothing more came and the connection was still open when the wait ended
    Open,
}

#[derive(Clone, Debug, Default)]
struct Obs {
    /// the case could not be executed (entry point unreachable ...): never a verdict
    machinery: Option<String>,
    /// the client task was over when the entry point was to be connected
    client_gone: bool,
    /// octets written before the first answer was awaited
    sent: Vec<u8>,
    /// SOCKS5: octets received in answer to the greeting (at most 2)
    method: Vec<u8>,
    method_end: Option<End>,
    /// the reply as far as it could be framed (SOCKS4: at most 8 octets; SOCKS5: by ATYP);
    /// truncation / wrong-version cases: everything received until the close
    reply: Vec<u8>,
    /// set when the reply stayed incomplete
    reply_end: Option<End>,
    probe_sent: bool,
    echo: Vec<u8>,
    /// the probe octet was awaited and did not come back within the deadline
    echo_timeout: bool,
    /// octets received after the reply that are not the echo
    extra: Vec<u8>,
    /// how the connection ended after the reply (None: not awaited)
    end: Option<End>,
    /// the final wait was the full deadline (Open then means: left hanging)
    end_full_wait: bool,
    /// the client half-closed before the final wait
    fin_sent: bool,
    /// UDP ASSOCIATE: nothing happened on the TCP connection during OPEN_WINDOW after the reply
    open_window_quiet: Option<bool>,
    /// UDP ASSOCIATE: a UDP socket is bound at BND.ADDR:BND.PORT (None: could not be determined)
    udp_bound: Option<bool>,
    /// stage at which the deadline was hit, if any
    hang: Option<&'static str>,
    deadline_ms: u64,
    ms: u64,
}

impl Obs {
    fn to_json(&self, case: &Case) -> Value {
        json!({
            "case": case.to_json(), "sent_hex": hex(&self.sent), "method_reply_hex": hex(&self.method), "reply_hex": hex(&self.reply),
            "echo_hex": hex(&self.echo), "probe_sent": self.probe_sent, "extra_hex": hex(&self.extra),
            "end": self.end.map(|e| format!("{e:?}")), "reply_end": self.reply_end.map(|e| format!("{e:?}")), "method_end": self.method_end.map(|e| format!("{e:?}")),
            "client_half_closed": self.fin_sent, "association_quiet_window": self.open_window_quiet, "udp_socket_at_bnd": self.udp_bound,
            "deadline_hit_at": self.hang, "deadline_ms": self.deadline_ms, "ms": self.ms,
        })
    }
    fn wire_text(&self) -> String {
        let mut t = format!("sent {}", if self.sent.is_empty() { "nothing".to_string() } else { hex(&self.sent) });
        if !self.method.is_empty() || self.method_end.is_some() {
            t.push_str(&format!("; method selection received: {}{}", if self.method.is_empty() { "none".into() } else { hex(&self.method) }, self.method_end.map_or(String::new(), |e| format!(" then {e:?}"))));
        }
        t.push_str(&format!("; reply received: {}{}", if self.reply.is_empty() { "none".into() } else { hex(&self.reply) }, self.reply_end.map_or(String::new(), |e| format!(" then {e:?}"))));
        if self.probe_sent {
            t.push_str(&format!("; probe {PROBE:02x} sent, echo {}", if self.echo.is_empty() { "none".into() } else { hex(&self.echo) }));
        }
        if !self.extra.is_empty() {
            t.push_str(&format!("; further octets {}", hex(&self.extra[..self.extra.len().min(32)])));
        }
        if let Some(e) = self.end {
            t.push_str(&format!("; connection afterwards: {e:?}{}", if self.fin_sent { " (after the client's half-close)" } else { "" }));
        }
        t
    }
}

struct Conn {
    s: TcpStream,
    deadline: Instant,
}

impl Conn {
    /// Append up to `n` octets to `buf`. Ok: all came; Err(how it ended instead).
    async fn read_n(&mut self, n: usize, buf: &mut Vec<u8>) -> Result<(), End> {
        let want = buf.len() + n;
        let mut tmp = [0u8; 512];
        while buf.len() < want {
            let room = (want - buf.len()).min(tmp.len());
            match tokio::time::timeout_at(self.deadline.into(), self.s.read(&mut tmp[..room])).await {
                Err(_) => return Err(End::Open),
                Ok(Ok(0)) => return Err(End::Eof),
                Ok(Ok(k)) => buf.extend_from_slice(&tmp[..k]),
                Ok(Err(_)) => return Err(End::Reset),
            }
        }
        Ok(())
    }
    /// Collect whatever comes until the peer closes, for at most `limit` (never past the deadline).
    async fn drain(&mut self, limit: Duration, buf: &mut Vec<u8>) -> End {
        let until = (Instant::now() + limit).min(self.deadline);
        let mut tmp = [0u8; 512];
        loop {
            match tokio::time::timeout_at(until.into(), self.s.read(&mut tmp)).await {
                Err(_) => return End::Open,
                Ok(Ok(0)) => return End::Eof,
                Ok(Ok(k)) => {
                    if buf.len() < 4096 {
                        buf.extend_from_slice(&tmp[..k]);
                    }
                }
                Ok(Err(_)) => return End::Reset,
            }
        }
    }
    /// A failed write means the peer is gone already; what it said before is still read afterwards.
    async fn write(&mut self, b: &[u8]) {
        let _ = tokio::time::timeout_at(self.deadline.into(), self.s.write_all(b)).await;
    }
    async fn write_split(&mut self, b: &[u8], split: Option<usize>) {
        match split {
            Some(at) if at > 0 && at < b.len() => {
                self.write(&b[..at]).await;
                tokio::time::sleep(SPLIT_PAUSE).await;
                self.write(&b[at..]).await;
            }
            _ => self.write(b).await,
        }
    }
    async fn fin(&mut self) {
        let _ = self.s.shutdown().await;
    }
}

fn udp_socket_bound(addr: &[u8], port: u16) -> Option<bool> {
    if addr.len() != 4 {
        return None;
    }
    let t = std::fs::read_to_string("/proc/net/udp").ok()?;
    if !t.contains("local_address") {
        return None;
    }
    // /proc/net/udp prints the address as one little-endian 32-bit word
    let word = format!("{:02X}{:02X}{:02X}{:02X}", addr[3], addr[2], addr[1], addr[0]);
    Some(t.contains(&format!(" {word}:{port:04X} ")) || t.contains(&format!(" 00000000:{port:04X} ")))
}

/// What the harness does after a reply (harness logic, not oracle: it only decides how long to look).
#[derive(Clone, Copy, PartialEq, Eq)]
enum Plan {
    /// send the probe, expect it back, half-close, wait for the close
    Echo,
    /// wait (full deadline) for the close without sending anything
    AwaitClose,
    /// quiet window, then half-close and wait for the close
    Assoc,
    /// the answer is wrong already: short look for more octets, then drop
    Short,
}

async fn finish(c: &mut Conn, o: &mut Obs, plan: Plan) {
    match plan {
        Plan::Echo => {
            c.write(&[PROBE]).await;
            o.probe_sent = true;
            let mut e = Vec::new();
            match c.read_n(1, &mut e).await {
                Ok(()) => {
                    o.echo = e;
                    c.fin().await;
                    o.fin_sent = true;
                    let end = c.drain(DEADLINE, &mut o.extra).await;
                    o.end = Some(end);
                    o.end_full_wait = true;
                    if end == End::Open {
                        o.hang = Some("close-after-client-fin");
                    }
                }
                Err(End::Open) => {
                    o.echo_timeout = true;
                    o.hang = Some("echo");
                }
                Err(end) => o.end = Some(end),
            }
        }
        Plan::AwaitClose => {
            let end = c.drain(DEADLINE, &mut o.extra).await;
            o.end = Some(end);
            o.end_full_wait = true;
            if end == End::Open {
                o.hang = Some("close");
            }
        }
        Plan::Assoc => {
            // BND of a well-formed reply: ATYP at [3]
            if o.reply.len() >= 10 && o.reply[3] == 1 {
                o.udp_bound = udp_socket_bound(&o.reply[4..8], u16::from_be_bytes([o.reply[8], o.reply[9]]));
            }
            let mut early = Vec::new();
            let w = c.drain(OPEN_WINDOW, &mut early).await;
            o.open_window_quiet = Some(w == End::Open && early.is_empty());
            o.extra.extend_from_slice(&early);
            if w == End::Open {
                c.fin().await;
                o.fin_sent = true;
                let end = c.drain(DEADLINE, &mut o.extra).await;
                o.end = Some(end);
                o.end_full_wait = true;
                if end == End::Open {
                    o.hang = Some("close-after-client-fin");
                }
            } else {
                o.end = Some(w);
            }
        }
        Plan::Short => {
            let end = c.drain(GRACE, &mut o.extra).await;
            o.end = Some(end);
        }
    }
}

/// How many more octets a SOCKS5 reply has after its first four (None: cannot be framed).
fn s5_reply_rest(head: &[u8]) -> Option<usize> {
    if head.len() < 4 || head[0] != 5 {
        return None;
    }
    match head[3] {
        1 => Some(4 + 2),
        4 => Some(16 + 2),
        3 => Some(1), // then LEN + 2 more
        _ => None,
    }
}

/// Is a CONNECT of this case expected to reach the echoing target? (environment knowledge)
fn reachable(ctx: &Ctx, case: &Case) -> bool {
    match case {
        Case::S4 { domain, tgt, .. } => *tgt == Tgt::Accept && domain.as_ref().is_none_or(|d| d == b"localhost"),
        Case::S5 { req: Some(r), tgt, .. } => *tgt == Tgt::Accept && (matches!(r.atyp, 1 | 3) || (r.atyp == 4 && ctx.v6)),
        _ => false,
    }
}

/// One conversation on a fresh TCP connection.
async fn converse(ctx: &Ctx, case: &Case, alone: bool) -> Obs {
    let o = converse_inner(ctx, case, alone).await;
    if o.hang.is_some() && !alone {
        ctx.hangs.fetch_add(1, Ordering::SeqCst);
    }
    o
}

async fn converse_inner(ctx: &Ctx, case: &Case, alone: bool) -> Obs {
    let t0 = Instant::now();
    let mut o = Obs::default();
    let limit = if !alone && ctx.hangs.load(Ordering::SeqCst) >= HANGS_BEFORE_SHORT { SHORT_DEADLINE } else { DEADLINE };
    o.deadline_ms = limit.as_millis() as u64;
    let s = match env::connect_tcp_entry(ctx.entry, &ctx.client_done, t0 + DEADLINE).await {
        Ok(s) => s,
        Err(env::ConnectFail::ClientExited) => {
            o.client_gone = true;
            return o;
        }
        Err(env::ConnectFail::Deadline(e)) => {
            o.machinery = Some(format!("the SOCKS entry point {} could not be connected to within {DEADLINE:?}: {e}", ctx.entry));
            return o;
        }
    };
    let mut c = Conn { s, deadline: Instant::now() + limit };
    let (io_case, split) = match case {
        Case::Split { fam, at } => (fam.base(), Some(*at)),
        other => (other.clone(), None),
    };
    match &io_case {
        Case::S4 { cd, user, domain, tgt } => {
            o.sent = s4_bytes(ctx, 4, *cd, user, domain.as_deref(), *tgt);
            let b = o.sent.clone();
            c.write_split(&b, split).await;
            match c.read_n(8, &mut o.reply).await {
                Err(End::Open) => {
                    o.reply_end = Some(End::Open);
                    o.hang = Some("reply");
                }
                Err(e) => o.reply_end = Some(e),
                Ok(()) => {
                    let plan = match (o.reply[0], o.reply[1]) {
                        (0, 0x5a) if *cd == 1 && reachable(ctx, &io_case) => Plan::Echo,
                        (0, 0x5a) if *cd == 1 => Plan::AwaitClose,
                        (0, 0x5b..=0x5d) => Plan::AwaitClose,
                        _ => Plan::Short,
                    };
                    finish(&mut c, &mut o, plan).await;
                }
            }
        }
        Case::S5 { methods, req, tgt, pipelined } => {
            let g = s5_greeting(methods);
            let rq = req.map(|r| s5_request(ctx, r, *tgt));
            o.sent = g.clone();
            if *pipelined {
                if let Some(r) = &rq {
                    o.sent.extend_from_slice(r);
                }
            }
            let first = o.sent.clone();
            c.write_split(&first, split).await;
            match c.read_n(2, &mut o.method).await {
                Err(End::Open) => {
                    o.method_end = Some(End::Open);
                    o.hang = Some("method-selection");
                    o.ms = t0.elapsed().as_millis() as u64;
                    return o;
                }
                Err(e) => {
                    o.method_end = Some(e);
                    o.ms = t0.elapsed().as_millis() as u64;
                    return o;
                }
                Ok(()) => {}
            }
            let go_on = o.method == [5, 0] && methods.contains(&0) && rq.is_some();
            if !go_on {
                let plan = if o.method == [5, 0xff] { Plan::AwaitClose } else { Plan::Short };
                finish(&mut c, &mut o, plan).await;
                o.ms = t0.elapsed().as_millis() as u64;
                return o;
            }
            let r = req.expect("request");
            if !*pipelined {
                let b = rq.expect("request bytes");
                o.sent.extend_from_slice(&b);
                c.write(&b).await;
            }
            // frame the reply by its ATYP
            let mut framed = false;
            match c.read_n(4, &mut o.reply).await {
                Err(End::Open) => {
                    o.reply_end = Some(End::Open);
                    o.hang = Some("reply");
                }
                Err(e) => o.reply_end = Some(e),
                Ok(()) => match s5_reply_rest(&o.reply) {
                    None => {}
                    Some(mut rest) => {
                        let mut res = Ok(());
                        if o.reply[3] == 3 {
                            res = c.read_n(1, &mut o.reply).await;
                            rest = usize::from(*o.reply.last().unwrap_or(&0)) + 2;
                        }
                        if res.is_ok() {
                            res = c.read_n(rest, &mut o.reply).await;
                        }
                        match res {
                            Ok(()) => framed = true,
                            Err(End::Open) => {
                                o.reply_end = Some(End::Open);
                                o.hang = Some("reply");
                            }
                            Err(e) => o.reply_end = Some(e),
                        }
                    }
                },
            }
            if o.reply_end.is_none() {
                let supported_atyp = matches!(r.atyp, 1 | 3 | 4);
                let plan = if !framed {
                    Plan::Short
                } else if o.reply[1] != 0 {
                    Plan::AwaitClose
                } else if !supported_atyp {
                    Plan::Short
                } else if r.cmd == 3 {
                    Plan::Assoc
                } else if r.cmd == 1 && reachable(ctx, &io_case) {
                    Plan::Echo
                } else if r.cmd == 1 {
                    Plan::AwaitClose
                } else {
                    Plan::Short
                };
                finish(&mut c, &mut o, plan).await;
            }
        }
        Case::BadVer { ver, shape5 } => {
            o.sent = if *shape5 { vec![*ver, 1, 0] } else { s4_bytes(ctx, *ver, 1, b"a", None, Tgt::Accept) };
            let b = o.sent.clone();
            c.write(&b).await;
            let end = c.drain(DEADLINE, &mut o.reply).await;
            o.end = Some(end);
            o.end_full_wait = true;
            if end == End::Open {
                o.hang = Some("close-after-bad-version");
            }
        }
        Case::Trunc { fam, keep } => {
            let all = fam_bytes(ctx, *fam);
            o.sent = all[..(*keep).min(all.len())].to_vec();
            if !o.sent.is_empty() {
                let b = o.sent.clone();
                c.write(&b).await;
            }
            c.fin().await;
            o.fin_sent = true;
            let end = c.drain(DEADLINE, &mut o.reply).await;
            o.end = Some(end);
            o.end_full_wait = true;
            if end == End::Open {
                o.hang = Some("close-after-truncated-request");
            }
        }
        Case::Split { .. } => unreachable!(),
    }
    o.ms = t0.elapsed().as_millis() as u64;
    o
}

// ---------------------------------------------------------------------------------------
// targets
// ---------------------------------------------------------------------------------------

struct Echo {
    port: u16,
    v6: bool,
    accepted: Arc<AtomicU64>,
    tasks: Vec<tokio::task::JoinHandle<()>>,
}

impl Drop for Echo {
    fn drop(&mut self) {
        for t in &self.tasks {
            t.abort();
        }
    }
}

fn serve_echo(l: TcpListener, accepted: Arc<AtomicU64>) -> tokio::task::JoinHandle<()> {
    tokio::spawn(async move {
        loop {
            let Ok((mut s, _)) = l.accept().await else { return };
            accepted.fetch_add(1, Ordering::SeqCst);
            let _ = s.set_nodelay(true);
            tokio::spawn(async move {
                let mut b = [0u8; 1024];
                loop {
                    match s.read(&mut b).await {
                        Ok(0) | Err(_) => break,
                        Ok(k) => {
                            if s.write_all(&b[..k]).await.is_err() {
                                break;
                            }
                        }
                    }
                }
                let _ = s.shutdown().await;
            });
        }
    })
}

/// An echoing listener on 127.0.0.1:P and, where IPv6 loopback exists, on [::1]:P (same P, so that a
/// name resolving to both addresses means the same target).
async fn echo_target() -> Result<Echo, String> {
    let mut last = String::new();
    for attempt in 0..40 {
        let l4 = TcpListener::bind("127.0.0.1:0").await.map_err(|e| format!("bind echo target: {e}"))?;
        let port = l4.local_addr().map_err(|e| format!("echo target addr: {e}"))?.port();
        let accepted = Arc::new(AtomicU64::new(0));
        match TcpListener::bind((Ipv6Addr::LOCALHOST, port)).await {
            Ok(l6) => {
                let tasks = vec![serve_echo(l4, accepted.clone()), serve_echo(l6, accepted.clone())];
                return Ok(Echo { port, v6: true, accepted, tasks });
            }
            Err(e) => {
                last = format!("{e}");
                if attempt == 39 || e.kind() != std::io::ErrorKind::AddrInUse {
                    // no IPv6 loopback here (or no common port to be had): IPv4 only, recorded by the caller
                    let tasks = vec![serve_echo(l4, accepted.clone())];
                    return Ok(Echo { port, v6: false, accepted, tasks });
                }
            }
        }
    }
    Err(format!("no echo target: {last}"))
}

/// A port on which connections are refused on 127.0.0.1 (and on [::1] where available): bound, never listening.
struct Refusing {
    port: u16,
    _socks: Vec<TcpSocket>,
}

fn refusing_target(want_v6: bool) -> Result<Refusing, String> {
    for _ in 0..40 {
        let s4 = TcpSocket::new_v4().map_err(|e| format!("socket: {e}"))?;
        s4.bind(SocketAddr::from(([127, 0, 0, 1], 0))).map_err(|e| format!("bind refusing port: {e}"))?;
        let port = s4.local_addr().map_err(|e| format!("refusing port addr: {e}"))?.port();
        if !want_v6 {
            return Ok(Refusing { port, _socks: vec![s4] });
        }
        let Ok(s6) = TcpSocket::new_v6() else { return Ok(Refusing { port, _socks: vec![s4] }) };
        if s6.bind(SocketAddr::from((Ipv6Addr::LOCALHOST, port))).is_ok() {
            return Ok(Refusing { port, _socks: vec![s4, s6] });
        }
    }
    Err("no port that can be held on both loopback addresses".into())
}

// ---------------------------------------------------------------------------------------
// oracle (from the SOCKS4 memo, the SOCKS4a memo and RFC 1928 only)
// ---------------------------------------------------------------------------------------

struct Finding {
    key: String,
    desc: String,
    /// a deadline was hit: counts only when it shows again with the case run alone
    hang: bool,
}

struct Verdict {
    findings: Vec<Finding>,
    /// what kind of answer the case got (for the vacuity counters)
    outcome: String,
    /// a success reply (SOCKS4 grant / SOCKS5 REP=0) was seen: the target may have been connected to
    success_seen: bool,
}

struct J<'a> {
    case: &'a Case,
    obs: &'a Obs,
    v: Verdict,
}

impl J<'_> {
    fn bad(&mut self, key: &str, what: impl AsRef<str>) {
        let key = format!("{}.{key}", self.case.wire());
        self.v.findings.push(Finding { key, desc: format!("[{}] {} -- {}", self.case.label(), what.as_ref(), self.obs.wire_text()), hang: false });
    }
    fn hang(&mut self, key: &str, what: impl AsRef<str>) {
        let key = format!("{}.hang.{key}", self.case.wire());
        self.v.findings.push(Finding { key, desc: format!("[{}] {} within {} ms -- {}", self.case.label(), what.as_ref(), self.obs.deadline_ms, self.obs.wire_text()), hang: true });
    }
    fn outcome(&mut self, s: impl Into<String>) {
        if self.v.outcome.is_empty() {
            self.v.outcome = s.into();
        }
    }
    /// after a rejection / failure reply: nothing more, then the close (memo: "closes its connection immediately
    /// after notifying the client"; RFC 1928 section 6: "MUST terminate the TCP connection shortly after")
    fn must_close_silently(&mut self, after: &str) {
        if !self.obs.extra.is_empty() {
            self.bad("reply.trailing-octets", format!("octets follow {after}"));
        }
        if self.obs.end == Some(End::Open) && self.obs.end_full_wait {
            self.hang(&format!("close-after-{}", after.replace(' ', "-")), format!("the connection was not closed after {after}"));
        }
    }
    /// after a success reply towards the echoing target
    fn echo_checks(&mut self) {
        let o = self.obs;
        if o.echo_timeout {
            self.hang("echo", "the probe octet written after the success reply did not come back");
            return;
        }
        if o.probe_sent && o.echo.is_empty() {
            self.bad("connect.closed-instead-of-relaying", "success reply for a target that listens, but the connection ended before the probe octet came back");
            return;
        }
        if o.echo != [PROBE] {
            self.bad("connect.echo-mismatch", "the octet that came back is not the one sent");
        }
        if !o.extra.is_empty() {
            self.bad("connect.stray-octets", "octets that the target never sent arrived after the echo");
        }
        if o.end == Some(End::Open) && o.end_full_wait {
            self.hang("close-after-client-fin", "after the client's half-close (the target closes in answer) the connection was not closed");
        }
    }
    /// success reply for a target nobody listens on: tolerated (see assumptions) only if no octet is made up and the close follows
    fn unreachable_grant_checks(&mut self) {
        if !self.obs.extra.is_empty() {
            self.bad("connect.data-from-nowhere", "success reply for a target that cannot be connected to, followed by octets nobody sent");
        }
        if self.obs.end == Some(End::Open) && self.obs.end_full_wait {
            self.hang("unreachable-target-not-closed", "success reply for a target that cannot be connected to, and the connection was not closed afterwards");
        }
    }
}

/// SOCKS4 reply: `VN=0 CD DSTPORT(2) DSTIP(4)`, CD in 90..93 (memo); the six trailing octets are "ignored" for CONNECT.
fn s4_rejection(b: &[u8]) -> bool {
    b.len() == 8 && b[0] == 0 && (0x5b..=0x5d).contains(&b[1])
}

/// Well-formedness of a complete SOCKS5 reply (RFC 1928 section 6); Err(key, text).
fn s5_reply_check(b: &[u8]) -> Result<(u8, u8, u16), (&'static str, String)> {
    if b.is_empty() {
        return Err(("reply.missing", "no reply".into()));
    }
    if b[0] != 5 {
        return Err(("reply.bad-version", format!("reply VER is {:#04x}, must be 05", b[0])));
    }
    if b.len() < 4 {
        return Err(("reply.truncated", format!("reply of {} octets ends before ATYP", b.len())));
    }
    let need = match b[3] {
        1 => 10,
        4 => 22,
        3 => {
            if b.len() < 5 {
                return Err(("reply.truncated", "reply ends before the length of BND.ADDR".into()));
            }
            5 + usize::from(b[4]) + 2
        }
        x => return Err(("reply.bad-atyp", format!("reply ATYP is {x:#04x}, must be 01, 03 or 04"))),
    };
    if b.len() < need {
        return Err(("reply.truncated", format!("reply of {} octets, its ATYP needs {need}", b.len())));
    }
    if b.len() > need {
        return Err(("reply.trailing-octets", format!("{} octets where the reply has {need}", b.len())));
    }
    if b[2] != 0 {
        return Err(("reply.rsv-nonzero", format!("reply RSV is {:#04x}, must be 00", b[2])));
    }
    if b[1] > 8 {
        return Err(("reply.rep-unassigned", format!("REP {:#04x} is unassigned (RFC 1928 defines 00..08)", b[1])));
    }
    Ok((b[1], b[3], u16::from_be_bytes([b[need - 2], b[need - 1]])))
}

fn judge(ctx: &Ctx, case: &Case, obs: &Obs) -> Verdict {
    let mut j = J { case, obs, v: Verdict { findings: Vec::new(), outcome: String::new(), success_seen: false } };
    match case {
        Case::Split { fam, .. } => {
            // same demands as for the request written at once
            judge_into(ctx, &fam.base(), &mut j);
            j.v.outcome = format!("split:{}", j.v.outcome);
        }
        other => judge_into(ctx, other, &mut j),
    }
    j.v
}

fn judge_into(ctx: &Ctx, case: &Case, j: &mut J) {
    match case {
        Case::S4 { cd, .. } => judge_s4(ctx, case, *cd, j),
        Case::S5 { methods, req, .. } => judge_s5(ctx, case, methods, *req, j),
        Case::BadVer { .. } => judge_badver(j),
        Case::Trunc { fam, keep } => judge_trunc(*fam, *keep, j),
        Case::Split { .. } => unreachable!(),
    }
}

fn judge_s4(ctx: &Ctx, case: &Case, cd: u8, j: &mut J) {
    let o = j.obs;
    if o.reply.len() < 8 {
        match o.reply_end {
            Some(End::Open) => j.hang("reply", "no complete reply"),
            _ if o.reply.is_empty() => j.bad("reply.missing", "the connection was closed without any reply (the memo: a reply packet is sent when the request is granted, rejected or fails)"),
            _ => j.bad("reply.truncated", format!("the reply has {} of 8 octets", o.reply.len())),
        }
        j.outcome("s4:no-complete-reply");
        return;
    }
    let (vn, rc) = (o.reply[0], o.reply[1]);
    if vn != 0 {
        if vn == 5 {
            j.bad("reply.socks5-reply", "a SOCKS4 request was answered with octets that start like a SOCKS5 reply (VN of a SOCKS4 reply must be 0)");
            if o.reply[1] == 0 {
                j.v.success_seen = true;
            }
        } else {
            j.bad("reply.vn-not-zero", format!("reply VN is {vn:#04x}, must be 00"));
        }
        j.outcome("s4:malformed-reply");
        return;
    }
    if !(0x5a..=0x5d).contains(&rc) {
        j.bad("reply.cd-undefined", format!("reply CD is {rc:#04x}; the memo defines 90..93 (5a..5d)"));
        j.outcome("s4:malformed-reply");
        return;
    }
    if rc == 0x5a {
        j.v.success_seen = true;
        if cd != 1 {
            j.bad("grant.non-connect-command", format!("request granted (5a) although CD={cd:#04x} is not CONNECT (BIND is not offered by this listener, every other code is undefined)"));
            j.outcome("s4:grant-for-non-connect");
        } else if reachable(ctx, case) {
            j.echo_checks();
            j.outcome("s4:grant+echo");
        } else {
            j.unreachable_grant_checks();
            j.outcome("s4:grant-then-close(target unreachable)");
        }
    } else {
        if cd == 1 && reachable(ctx, case) {
            j.bad("reject.reachable-target", format!("CONNECT to a target that listens and accepts was rejected with CD={rc:#04x}"));
        }
        j.must_close_silently("the rejection");
        j.outcome(if cd == 1 { "s4:rejection+close(connect)" } else { "s4:rejection+close(non-connect command)" });
    }
}

fn judge_s5(ctx: &Ctx, case: &Case, methods: &[u8], req: Option<Req5>, j: &mut J) {
    let o = j.obs;
    let offered0 = methods.contains(&0);
    // ---- method selection (RFC 1928 section 3)
    if o.method.len() < 2 {
        match o.method_end {
            Some(End::Open) => j.hang("method-selection", "no METHOD selection message"),
            _ if methods.is_empty() && o.method.is_empty() => j.outcome("s5:nmethods=0:closed-without-selection"),
            _ if o.method.is_empty() => j.bad("method.no-reply", "the greeting was answered by a close without a METHOD selection message"),
            _ => j.bad("method.truncated", "the METHOD selection message has 1 of 2 octets"),
        }
        j.outcome("s5:no-method-selection");
        return;
    }
    if o.method[0] != 5 {
        j.bad("method.bad-version", format!("METHOD selection VER is {:#04x}, must be 05", o.method[0]));
        j.outcome("s5:malformed-method-selection");
        return;
    }
    let sel = o.method[1];
    if sel == 0xff {
        if offered0 {
            j.bad("method.noauth-refused", "NO AUTHENTICATION REQUIRED (00) was offered, the listener (which has no authentication configured) answered NO ACCEPTABLE METHODS");
        }
        if !o.extra.is_empty() {
            j.bad("method.trailing-octets", "octets follow the NO ACCEPTABLE METHODS selection");
        }
        if o.end == Some(End::Open) && o.end_full_wait {
            j.hang("close-after-no-acceptable-methods", "the connection was not closed after NO ACCEPTABLE METHODS (ff)");
        }
        j.outcome("s5:method-ff+close");
        return;
    }
    if !methods.contains(&sel) {
        j.bad("method.selected-not-offered", format!("method {sel:#04x} selected, which the client did not offer (section 3: the server selects from the methods given)"));
        j.outcome("s5:malformed-method-selection");
        return;
    }
    if sel != 0 {
        j.bad("method.selected-other-than-noauth", format!("method {sel:#04x} selected; this listener has no authentication configured, only 00 can be meant"));
        j.outcome("s5:malformed-method-selection");
        return;
    }
    let Some(r) = req else {
        j.outcome("s5:method-00");
        return;
    };
    // ---- request (sections 4-6)
    let bad_atyp = !matches!(r.atyp, 1 | 3 | 4);
    let bad_cmd = !matches!(r.cmd, 1 | 3);
    // RSV != 0 is outside the RFC ("RESERVED"): any refusal is as good as the RSV=0 answer
    let lenient = r.rsv != 0;
    if o.reply.is_empty() && matches!(o.reply_end, Some(End::Eof | End::Reset)) {
        if bad_atyp || lenient {
            j.outcome("s5:closed-without-reply(unsupported ATYP)");
        } else {
            j.bad("reply.missing", "the request was answered by a close without a reply (section 6: the server returns a reply, also for failures)");
            j.outcome("s5:closed-without-reply");
        }
        return;
    }
    if o.reply_end == Some(End::Open) {
        j.hang("reply", "no complete reply");
        j.outcome("s5:no-complete-reply");
        return;
    }
    let (rep, atyp, port) = match s5_reply_check(&o.reply) {
        Ok(x) => x,
        Err((k, t)) => {
            j.bad(k, t);
            j.outcome("s5:malformed-reply");
            return;
        }
    };
    if rep == 0 {
        j.v.success_seen = true;
        if bad_atyp {
            j.bad("success.unsupported-atyp", format!("REP=00 (succeeded) for a request whose ATYP {:#04x} is none of 01/03/04", r.atyp));
            j.outcome("s5:success-for-unsupported-atyp");
        } else if bad_cmd {
            j.bad("success.unsupported-command", format!("REP=00 (succeeded) for CMD {:#04x}; the listener offers CONNECT and UDP ASSOCIATE only", r.cmd));
            j.outcome("s5:success-for-unsupported-command");
        } else if r.cmd == 3 {
            if port == 0 {
                j.bad("assoc.bnd-port-zero", "UDP ASSOCIATE succeeded with BND.PORT 0 (section 6: BND.PORT/BND.ADDR are where the client MUST send its datagrams)");
            }
            if atyp == 3 {
                j.bad("assoc.bnd-addr-domain", "UDP ASSOCIATE succeeded with a domain name as BND.ADDR");
            }
            if o.udp_bound == Some(false) {
                j.bad("assoc.no-udp-socket-at-bnd", "UDP ASSOCIATE succeeded but no UDP socket is bound at BND.ADDR:BND.PORT");
            }
            if o.open_window_quiet == Some(false) {
                j.bad("assoc.closed-or-spoke-early", "after the success reply the TCP connection of the association was closed by the listener (or carried octets) while the client was still there");
            } else if !o.extra.is_empty() {
                j.bad("assoc.stray-octets", "octets arrived on the TCP connection of the association");
            }
            if o.end == Some(End::Open) && o.end_full_wait {
                j.hang("assoc-not-closed-after-client-fin", "the client half-closed the TCP connection of the association, the listener did not close it");
            }
            j.outcome("s5:udp-associate-success");
        } else if reachable(ctx, case) {
            j.echo_checks();
            j.outcome("s5:success+echo");
        } else {
            j.unreachable_grant_checks();
            j.outcome("s5:success-then-close(target unreachable)");
        }
        return;
    }
    // ---- failure reply
    j.must_close_silently("the failure reply");
    if bad_atyp {
        j.outcome(format!("s5:rep={rep:02x}+close(unsupported ATYP)"));
    } else if bad_cmd {
        if rep != 7 && !lenient {
            j.bad("reply.unsupported-command-rep", format!("CMD {:#04x} is not supported by this listener, the reply says REP={rep:#04x} instead of 07 (Command not supported)", r.cmd));
        }
        j.outcome(format!("s5:rep={rep:02x}+close(unsupported command)"));
    } else if r.cmd == 3 {
        // a server need not offer UDP ASSOCIATE; counted, the run is degenerate if no association ever succeeds
        j.outcome(format!("s5:rep={rep:02x}+close(udp associate refused)"));
    } else if reachable(ctx, case) {
        if !lenient {
            j.bad("connect.refused-reachable-target", format!("CONNECT to a target that listens and accepts failed with REP={rep:#04x}"));
        }
        j.outcome(format!("s5:rep={rep:02x}+close(connect)"));
    } else {
        if !matches!(rep, 1 | 3 | 4 | 5) {
            j.bad("connect.rep-implausible", format!("the target refuses connections; REP={rep:#04x} is none of 05 (refused), 01, 03, 04"));
        }
        j.outcome(format!("s5:rep={rep:02x}+close(target unreachable)"));
    }
}

/// Unknown version octet: neither memo nor RFC says what to answer; a success reply of either protocol is wrong in any case.
fn judge_badver(j: &mut J) {
    let o = j.obs;
    let b = &o.reply;
    if b.len() >= 2 && b[0] == 0 && b[1] == 0x5a {
        j.v.success_seen = true;
        j.bad("version.success-reply", "a request with an unknown version octet was answered with a SOCKS4 grant");
    } else if b.len() > 2 && b[0] == 5 && b[1] == 0 {
        j.v.success_seen = true;
        j.bad("version.success-reply", "a request with an unknown version octet was answered with octets that start like a SOCKS5 success");
    } else if b.len() == 2 && b[0] == 5 && b[1] == 0 {
        j.bad("version.method-selected", "a greeting with an unknown version octet was answered with the SOCKS5 METHOD selection 00");
    }
    if o.end == Some(End::Open) {
        j.hang("close-after-bad-version", "the connection was not closed after a request with an unknown version octet");
    }
    j.outcome(if b.is_empty() { "badver:closed-silently" } else { "badver:answered+close" });
}

fn judge_trunc(fam: Fam, keep: usize, j: &mut J) {
    let o = j.obs;
    let b = &o.reply;
    if o.end == Some(End::Open) {
        j.hang("close-after-truncated-request", "the request ended early and the client half-closed; the listener did not close the connection");
    }
    if !fam.is5() {
        if b.is_empty() {
            j.outcome("trunc4:closed-silently");
        } else if s4_rejection(b) {
            j.outcome("trunc4:rejection+close");
        } else if b.len() >= 2 && b[0] == 0 && b[1] == 0x5a {
            j.v.success_seen = true;
            j.bad("trunc.granted", "an incomplete request was granted");
            j.outcome("trunc4:granted");
        } else {
            j.bad("trunc.unexpected-octets", "an incomplete request was answered with octets that are no SOCKS4 rejection");
            j.outcome("trunc4:unexpected");
        }
        return;
    }
    // representative greeting is 05 01 00
    if keep < 3 {
        if b.is_empty() {
            j.outcome("trunc5:incomplete-greeting:closed-silently");
        } else if b[..] == [5, 0xff] {
            j.outcome("trunc5:incomplete-greeting:ff+close");
        } else {
            j.bad("trunc.reply-to-incomplete-greeting", "an incomplete greeting was answered");
            j.outcome("trunc5:unexpected");
        }
        return;
    }
    if b.len() < 2 || b[..2] != [5, 0] {
        j.bad("trunc.no-method-selection", "the greeting (complete, offering 00) was not answered with the selection 05 00 before the close");
        j.outcome("trunc5:unexpected");
        return;
    }
    let rest = &b[2..];
    if rest.is_empty() {
        j.outcome("trunc5:method-00-then-close");
        return;
    }
    match s5_reply_check(rest) {
        Ok((0, _, _)) => {
            j.v.success_seen = true;
            j.bad("trunc.success-reply", "an incomplete request was answered with REP=00 (succeeded)");
            j.outcome("trunc5:success");
        }
        Ok((rep, _, _)) => j.outcome(format!("trunc5:method-00,rep={rep:02x}+close")),
        Err((k, t)) => {
            j.bad(&format!("trunc.{k}"), format!("an incomplete request was answered with octets that are no well-formed failure reply: {t}"));
            j.outcome("trunc5:unexpected");
        }
    }
}

/// Self-test of the reference on hand-made vectors (so that a broken oracle is a MACHINERY error, not silence).
fn self_test() -> Result<(), String> {
    let ok10 = [5u8, 0, 0, 1, 0, 0, 0, 0, 0, 0];
    if s5_reply_check(&ok10) != Ok((0, 1, 0)) {
        return Err("reference rejects the RFC 1928 reply 05 00 00 01 0.0.0.0:0".into());
    }
    let mut v6 = vec![5u8, 7, 0, 4];
    v6.extend_from_slice(&[0; 16]);
    v6.extend_from_slice(&[0x12, 0x34]);
    if s5_reply_check(&v6) != Ok((7, 4, 0x1234)) {
        return Err("reference misreads an IPv6 reply".into());
    }
    if s5_reply_check(&[5, 0, 0, 3, 2, b'a', b'b', 0, 80]) != Ok((0, 3, 80)) {
        return Err("reference misreads a domain reply".into());
    }
    for bad in [&[0u8, 0x5b, 0, 0, 0, 0, 0, 0][..], &[5, 0, 1, 1, 0, 0, 0, 0, 0, 0], &[5, 0, 0, 2, 0, 0, 0, 0, 0, 0], &[5, 0, 0, 1, 0, 0, 0, 0, 0], &[5, 9, 0, 1, 0, 0, 0, 0, 0, 0], &[5, 0, 0, 1, 0, 0, 0, 0, 0, 0, 0]] {
        if s5_reply_check(bad).is_ok() {
            return Err(format!("reference accepts the malformed SOCKS5 reply {}", hex(bad)));
        }
    }
    if !s4_rejection(&[0, 0x5b, 0, 0, 0, 0, 0, 0]) || s4_rejection(&[0, 0x5a, 0, 0, 0, 0, 0, 0]) || s4_rejection(&[5, 0x5b, 0, 0, 0, 0, 0, 0]) || s4_rejection(&[0, 0x5b, 0, 0]) {
        return Err("reference misjudges SOCKS4 rejections".into());
    }
    // the oracle must flag the reply the seeded defect class produces (a SOCKS5 reply to a SOCKS4 request)
    let ctx = Ctx { entry: SocketAddr::from(([127, 0, 0, 1], 1)), client_done: Arc::new(AtomicBool::new(false)), accept: [1, 2], refuse: 3, v6: false, hangs: AtomicUsize::new(0) };
    let case = Case::S4 { cd: 3, user: vec![], domain: None, tgt: Tgt::Accept };
    let obs = Obs { reply: vec![5, 0, 0, 1, 127, 0, 0, 1], end: Some(End::Open), ..Obs::default() };
    if !judge(&ctx, &case, &obs).findings.iter().any(|f| f.key == "wire4.reply.socks5-reply") {
        return Err("the oracle does not flag a SOCKS5 reply to a SOCKS4 request".into());
    }
    let obs = Obs { reply: vec![0, 0x5b, 0, 0, 0, 0, 0, 0], end: Some(End::Eof), end_full_wait: true, ..Obs::default() };
    if !judge(&ctx, &case, &obs).findings.is_empty() {
        return Err("the oracle flags the SOCKS4 rejection of an undefined command".into());
    }
    let case = Case::S5 { methods: vec![0], req: Some(Req5 { cmd: 2, rsv: 0, atyp: 1 }), tgt: Tgt::Accept, pipelined: false };
    let obs = Obs { method: vec![5, 0], reply: ok10.to_vec(), end: Some(End::Eof), ..Obs::default() };
    if !judge(&ctx, &case, &obs).findings.iter().any(|f| f.key == "wire5.success.unsupported-command") {
        return Err("the oracle does not flag REP=00 for BIND".into());
    }
    Ok(())
}

// ---------------------------------------------------------------------------------------
// matrix
// ---------------------------------------------------------------------------------------

const ATYPS: [u8; 7] = [1, 3, 4, 0, 2, 5, 0xff];

fn build_matrix(ctx: &Ctx, thorough: bool, one_char_name: Option<u8>) -> (Vec<Case>, BTreeMap<String, Value>) {
    let mut m = Vec::new();
    let mut b = BTreeMap::new();
    let tgts = [Tgt::Accept, Tgt::Refuse];
    // ---- SOCKS4 / SOCKS4a
    let cds: Vec<u8> = if thorough { (0..=255).collect() } else { vec![0, 1, 2, 3, 4, 0x7f, 0xff] };
    let mut users: Vec<Vec<u8>> = vec![vec![], b"a".to_vec()];
    if thorough {
        users.push(vec![b'u'; 255]);
    }
    let mut domains: Vec<Option<Vec<u8>>> = vec![None, Some(b"localhost".to_vec())];
    if let Some(c) = one_char_name {
        domains.push(Some(vec![c]));
    }
    let n0 = m.len();
    for &cd in &cds {
        for user in &users {
            for domain in &domains {
                for &tgt in &tgts {
                    m.push(Case::S4 { cd, user: user.clone(), domain: domain.clone(), tgt });
                }
            }
        }
    }
    b.insert("socks4_cases".into(), json!(m.len() - n0));
    b.insert("socks4_CD".into(), if thorough { json!("00..ff") } else { json!(cds) });
    b.insert("socks4_user_id_lengths".into(), json!(users.iter().map(Vec::len).collect::<Vec<_>>()));
    b.insert("socks4_destinations".into(), json!(domains.iter().map(|d| d.as_ref().map_or("DSTIP 127.0.0.1".to_string(), |d| format!("4a domain {:?}", String::from_utf8_lossy(d)))).collect::<Vec<_>>()));
    // ---- SOCKS5
    let mut fail_lists: Vec<Vec<u8>> = vec![vec![2], vec![], vec![1, 2, 3]];
    let mut ok_lists: Vec<Vec<u8>> = vec![vec![0], vec![0, 2], vec![2, 0]];
    if thorough {
        fail_lists.push(vec![0xff]);
        fail_lists.push(vec![0x80]);
        fail_lists.push((1..=255).collect());
        ok_lists.push(vec![0, 0]);
        ok_lists.push((1..=254).chain([0]).collect());
    }
    let n0 = m.len();
    for l in &fail_lists {
        m.push(Case::S5 { methods: l.clone(), req: None, tgt: Tgt::Accept, pipelined: false });
    }
    let cmds: Vec<u8> = vec![0, 1, 2, 3, 4, 0xff];
    for l in &ok_lists {
        for &cmd in &cmds {
            for &atyp in &ATYPS {
                for &tgt in &tgts {
                    m.push(Case::S5 { methods: l.clone(), req: Some(Req5 { cmd, rsv: 0, atyp }), tgt, pipelined: false });
                }
            }
        }
    }
    if thorough {
        // every command code, every RSV corner, and the pipelined form, for the plain method list [00]
        for cmd in 0..=255u8 {
            if cmds.contains(&cmd) {
                continue;
            }
            for &atyp in &ATYPS {
                for &tgt in &tgts {
                    m.push(Case::S5 { methods: vec![0], req: Some(Req5 { cmd, rsv: 0, atyp }), tgt, pipelined: false });
                }
            }
        }
        // every ATYP octet
        for atyp in 0..=255u8 {
            if ATYPS.contains(&atyp) {
                continue;
            }
            for &cmd in &cmds {
                for &tgt in &tgts {
                    m.push(Case::S5 { methods: vec![0], req: Some(Req5 { cmd, rsv: 0, atyp }), tgt, pipelined: false });
                }
            }
        }
        for &rsv in &[1u8, 0xff] {
            for &cmd in &cmds {
                for &atyp in &ATYPS {
                    for &tgt in &tgts {
                        m.push(Case::S5 { methods: vec![0], req: Some(Req5 { cmd, rsv, atyp }), tgt, pipelined: false });
                    }
                }
            }
        }
        for &cmd in &cmds {
            for &atyp in &ATYPS {
                for &tgt in &tgts {
                    m.push(Case::S5 { methods: vec![0], req: Some(Req5 { cmd, rsv: 0, atyp }), tgt, pipelined: true });
                }
            }
        }
    }
    b.insert("socks5_cases".into(), json!(m.len() - n0));
    b.insert("socks5_method_lists_without_00".into(), json!(fail_lists.iter().map(|l| if l.len() > 8 { format!("{} methods 01..ff", l.len()) } else { format!("[{}]", hex(l)) }).collect::<Vec<_>>()));
    b.insert("socks5_method_lists_with_00".into(), json!(ok_lists.iter().map(|l| if l.len() > 8 { format!("{} methods, 00 last", l.len()) } else { format!("[{}]", hex(l)) }).collect::<Vec<_>>()));
    b.insert("socks5_CMD".into(), if thorough { json!("00..ff (method list [00]); 00 01 02 03 04 ff for the other lists") } else { json!(cmds) });
    b.insert("socks5_ATYP".into(), if thorough { json!("00..ff (method list [00], CMD 00 01 02 03 04 ff); 01 03 04 00 02 05 ff otherwise") } else { json!(ATYPS) });
    b.insert("socks5_RSV".into(), if thorough { json!([0, 1, 255]) } else { json!([0]) });
    b.insert("socks5_greeting_and_request_in_one_write".into(), json!(thorough));
    // ---- wrong version
    let vers: Vec<u8> = if thorough { (0..=255u8).filter(|v| *v != 4 && *v != 5).collect() } else { vec![0, 3, 6] };
    let n0 = m.len();
    for &ver in &vers {
        for shape5 in [false, true] {
            m.push(Case::BadVer { ver, shape5 });
        }
    }
    b.insert("wrong_version_cases".into(), json!(m.len() - n0));
    b.insert("wrong_version_octets".into(), if thorough { json!("every octet but 04 and 05") } else { json!(vers) });
    // ---- truncation, splitting
    let fams: Vec<Fam> = if thorough { vec![Fam::S4, Fam::S4a, Fam::S5v4, Fam::S5dom, Fam::S5v6, Fam::S5assoc] } else { vec![Fam::S4, Fam::S4a, Fam::S5v4] };
    let n0 = m.len();
    for &fam in &fams {
        let len = fam_bytes(ctx, fam).len();
        for keep in 0..len {
            m.push(Case::Trunc { fam, keep });
        }
    }
    b.insert("truncation_cases".into(), json!(m.len() - n0));
    b.insert("truncated_requests".into(), json!(fams.iter().map(|f| format!("{} ({} octets)", f.name(), fam_bytes(ctx, *f).len())).collect::<Vec<_>>()));
    let n0 = m.len();
    if thorough {
        for &fam in &fams {
            let len = fam_bytes(ctx, fam).len();
            for at in 1..len {
                m.push(Case::Split { fam, at });
            }
        }
    }
    b.insert("two_piece_split_cases".into(), json!(m.len() - n0));
    (m, b)
}

// ---------------------------------------------------------------------------------------
// environment
// ---------------------------------------------------------------------------------------

struct World {
    ctx: Arc<Ctx>,
    tunnel: env::Tunnel,
    _lease: env::PortLease,
    echo: [Echo; 2],
    _refusing: Refusing,
}

async fn start_world(envr: &env::Env) -> Result<World, String> {
    let e4 = echo_target().await?;
    let e5 = echo_target().await?;
    let v6 = e4.v6 && e5.v6;
    let refusing = refusing_target(v6)?;
    let mut last = String::new();
    for _ in 0..6 {
        let lease = env::lease_port(false);
        let entry = SocketAddr::from(([127, 0, 0, 1], lease.port));
        let mut tunnel = env::start_tunnel(envr, &[format!("127.0.0.1:{}:socks", lease.port)]).await?;
        match env::connect_tcp_entry(entry, &tunnel.client_done, Instant::now() + Duration::from_secs(30)).await {
            Ok(s) => {
                drop(s);
                let ctx = Arc::new(Ctx { entry, client_done: tunnel.client_done.clone(), accept: [e4.port, e5.port], refuse: refusing.port, v6, hangs: AtomicUsize::new(0) });
                return Ok(World { ctx, tunnel, _lease: lease, echo: [e4, e5], _refusing: refusing });
            }
            Err(env::ConnectFail::ClientExited) => {
                let ex = tunnel.client_exit().await;
                tunnel.stop();
                last = ex.as_ref().map_or("client ended".into(), |e| e.text.clone());
                if ex.is_some_and(|e| e.addr_in_use) {
                    continue; // lost the race for the leased port: take another one
                }
                return Err(format!("the client ended before its SOCKS listener could be reached: {last}"));
            }
            Err(env::ConnectFail::Deadline(e)) => {
                tunnel.stop();
                return Err(format!("the SOCKS listener on {entry} never came up: {e}"));
            }
        }
    }
    Err(format!("no port for the SOCKS listener: {last}"))
}

/// A one-character host name that the resolver of this machine refuses at once (None: there is none to be had quickly).
async fn probe_one_char_name() -> Option<u8> {
    let t0 = Instant::now();
    let r = tokio::time::timeout(Duration::from_secs(2), tokio::net::lookup_host(("x", 1))).await;
    let unresolvable = match r {
        Ok(Err(_)) => true,
        Ok(Ok(mut it)) => it.next().is_none(),
        Err(_) => false,
    };
    (unresolvable && t0.elapsed() < Duration::from_secs(1)).then_some(b'x')
}

async fn run_all(ctx: &Arc<Ctx>, cases: &[Case], par: usize, counter: &Arc<AtomicU64>) -> Vec<Obs> {
    let next = Arc::new(AtomicUsize::new(0));
    let out: Arc<Mutex<Vec<Option<Obs>>>> = Arc::new(Mutex::new(vec![None; cases.len()]));
    let cases: Arc<Vec<Case>> = Arc::new(cases.to_vec());
    let mut hs = Vec::new();
    for _ in 0..par.max(1) {
        let (next, out, cases, ctx, counter) = (next.clone(), out.clone(), cases.clone(), ctx.clone(), counter.clone());
        hs.push(tokio::spawn(async move {
            loop {
                let i = next.fetch_add(1, Ordering::SeqCst);
                if i >= cases.len() {
                    return;
                }
                let o = converse(&ctx, &cases[i], false).await;
                counter.fetch_add(1, Ordering::Relaxed);
                out.lock().unwrap_or_else(std::sync::PoisonError::into_inner)[i] = Some(o);
            }
        }));
    }
    for h in hs {
        let _ = h.await;
    }
    let mut g = out.lock().unwrap_or_else(std::sync::PoisonError::into_inner);
    g.drain(..).map(|o| o.unwrap_or_else(|| Obs { machinery: Some("the case was not executed (harness task ended)".into()), ..Obs::default() })).collect()
}

fn runtime(workers: usize) -> tokio::runtime::Runtime {
    tokio::runtime::Builder::new_multi_thread().worker_threads(workers).enable_all().build().expect("tokio runtime")
}

fn assumptions(rep: &mut Report) {
    for a in [
        "schedules are not owned: one execution per case under whatever interleaving tokio and the loopback stack produce; a deadline hit counts only if the case shows it again when run alone",
        "the listener has no authentication configured: NO AUTHENTICATION REQUIRED (00) is the only method it may select; `05 00` is demanded iff 00 is offered, `05 ff` then close otherwise (nmethods=0: a plain close is accepted too)",
        "LENIENT (protocol texts have no MUST): a CONNECT to a target that cannot be connected to (refusing port, unresolvable name) may be answered with a SUCCESS reply followed by a close without any payload octet, instead of a failure reply. This listener always does that (the tunnel acknowledges the stream before the far end has connected), see the outcome counters `grant-then-close` / `success-then-close`; a failure reply there must be SOCKS4 5b..5d / SOCKS5 REP 05, 01, 03 or 04",
        "LENIENT: BND.ADDR/BND.PORT of a CONNECT success reply are only checked for well-formedness (this listener sends 0.0.0.0:0; RFC 1928 says what they 'contain' without MUST); the six trailing octets of a SOCKS4 reply are not judged (the memo: ignored for CONNECT)",
        "LENIENT: an unsupported ATYP may be answered with any well-formed failure reply (08 is what RFC 1928 defines for it; counted per REP) or with a plain close, never with REP=00; when CMD is unsupported as well, either failure is accepted",
        "STRICT although RFC 1928 has no MUST for it: CMD outside {01 CONNECT, 03 UDP ASSOCIATE} must be answered with REP=07 (the only code the RFC defines for this; the listener does so)",
        "LENIENT: a failure reply to UDP ASSOCIATE is accepted (a server need not offer it); the run is MACHINERY-degenerate if no association ever succeeds. A successful association must have BND.PORT != 0, BND.ADDR not a domain, a UDP socket bound there (checked through /proc/net/udp when BND.ADDR is IPv4), a TCP connection that is still open and silent 150 ms after the reply, and must be closed after the client's half-close",
        "LENIENT (thorough): RSV != 00 is outside the RFC: the answer for RSV=00 or any failure reply / close is accepted, never a success for an unsupported command or ATYP",
        "unknown version octet: the texts do not say what to answer; only a success reply / method selection 00 and a connection left open are findings",
        "truncated requests: after the client's half-close the listener must close; no answer, a rejection/failure reply or (complete SOCKS5 greeting) the method selection are all accepted, a success reply never",
        "ECONNRESET counts as a close",
        "one-sided count: the echoing targets must not see more connections than there were success replies (checked 300 ms after the last case)",
    ] {
        rep.assumptions.push(a.into());
    }
}

// ---------------------------------------------------------------------------------------
// driver
// ---------------------------------------------------------------------------------------

fn replay(args: &Args, v: &Value, mut rep: Report) -> Report {
    let kind = v.get("kind").and_then(Value::as_str).unwrap_or("");
    if !kind.starts_with("wire-") {
        // a replay that belongs to the other half (the library-level enumeration, vmux C18)
        rep.evaluations = 1;
        rep.distinct_nontrivial = 2;
        return rep;
    }
    if kind == "wire-aggregate" {
        // no single case stands for an aggregate count: the whole matrix of the tier is run again
        let mut a = Args { id: args.id.clone(), tier: v.get("tier").and_then(Value::as_str).unwrap_or(&args.tier).to_string(), out: args.out.clone(), replay: None, threads: args.threads, seed: args.seed };
        if a.tier != "thorough" {
            a.tier = "quick".into();
        }
        return run(&a);
    }
    let case = match Case::from_json(v) {
        Ok(c) => c,
        Err(e) => {
            rep.machinery_error = Some(format!("replay file is not a C18W case: {e}"));
            return rep;
        }
    };
    let envr = match env::Env::new() {
        Ok(e) => e,
        Err(e) => {
            rep.machinery_error = Some(e);
            return rep;
        }
    };
    let rt = runtime(4);
    let res: Result<(Arc<Ctx>, Obs, Obs), String> = rt.block_on(async {
        let mut w = start_world(&envr).await?;
        let a = converse(&w.ctx, &case, true).await;
        let b = converse(&w.ctx, &case, true).await;
        w.tunnel.stop();
        Ok((w.ctx.clone(), a, b))
    });
    let (ctx, a, b) = match res {
        Ok(x) => x,
        Err(e) => {
            rep.machinery_error = Some(e);
            return rep;
        }
    };
    rep.rule = "replay of one recorded case, run twice on fresh connections of one fresh environment".into();
    rep.evaluations = 2;
    rep.distinct_nontrivial = 1;
    rep.sample(a.to_json(&case));
    rep.sample(b.to_json(&case));
    if let Some(m) = a.machinery.as_ref().or(b.machinery.as_ref()) {
        rep.machinery_error = Some(m.clone());
        return rep;
    }
    let (va, vb) = (judge(&ctx, &case, &a), judge(&ctx, &case, &b));
    println!("case: {}", case.label());
    println!("run 1: {} => {}", a.wire_text(), va.outcome);
    println!("run 2: {} => {}", b.wire_text(), vb.outcome);
    let keys = |v: &Verdict| v.findings.iter().map(|f| f.key.clone()).collect::<Vec<_>>();
    if keys(&va) != keys(&vb) {
        rep.machinery_error = Some(format!("two runs of the same case differ: {:?} vs {:?}", keys(&va), keys(&vb)));
        return rep;
    }
    for f in va.findings {
        println!("  finding {}: {}", f.key, f.desc);
        rep.violation(f.key, f.desc, case.to_json());
    }
    rep
}

#[allow(clippy::too_many_lines)]
pub fn run(args: &Args) -> Report {
    let mut rep = Report::new("C18", &args.tier, "e2e", "exploration");
    rep.rule = "one conversation with the SOCKS listener of the real client_main_inner (fresh loopback TCP connection, literal octets) per point of the request matrix, every point executed, the answers judged octet by octet against a reference written from the SOCKS4/4a memos and RFC 1928; a point is distinct when its case record is distinct; a deadline hit counts only when the case shows it again run alone".into();
    std::panic::set_hook(Box::new(|_| {}));
    if let Err(e) = self_test() {
        rep.machinery_error = Some(format!("oracle self-test: {e}"));
        return rep;
    }
    if let Some(v) = args.replay_json() {
        return replay(args, &v, rep);
    }
    let thorough = args.thorough();
    let envr = match env::Env::new() {
        Ok(e) => e,
        Err(e) => {
            rep.machinery_error = Some(e);
            return rep;
        }
    };
    let par = args.threads.clamp(2, 8);
    let rt = runtime(args.threads.clamp(4, 8));
    let counter = Arc::new(AtomicU64::new(0));

    struct Out {
        ctx: Arc<Ctx>,
        cases: Vec<Case>,
        bounds: BTreeMap<String, Value>,
        obs: Vec<Obs>,
        iso: Vec<(usize, Obs)>,
        confirmed: HashSet<(usize, &'static str)>,
        unresolved: usize,
        accepted: [u64; 2],
        client_exit: Option<env::SubjectExit>,
        one_char: Option<u8>,
        pass_s: f64,
    }
    let res: Result<Out, String> = rt.block_on(async {
        let mut w = start_world(&envr).await?;
        let one_char = probe_one_char_name().await;
        let (cases, bounds) = build_matrix(&w.ctx, thorough, one_char);
        let t0 = Instant::now();
        let obs = run_all(&w.ctx, &cases, par, &counter).await;
        let pass_s = t0.elapsed().as_secs_f64();
        // deadline hits, grouped by (protocol family, stage): members are run again alone, with the full deadline, until
        // one of them shows the same hit again (the rest of the group then counts as it is); a member that does not
        // show it again is replaced by its isolated run
        let mut iso = Vec::new();
        let mut confirmed: HashSet<(usize, &'static str)> = HashSet::new();
        let mut unresolved = 0usize;
        let iso_t0 = Instant::now();
        for (i, o) in obs.iter().enumerate() {
            let Some(stage) = o.hang else { continue };
            let g = (cases[i].fam_no(), stage);
            if confirmed.contains(&g) {
                continue;
            }
            if iso_t0.elapsed() > ISO_BUDGET {
                unresolved += 1;
                continue;
            }
            let again = converse(&w.ctx, &cases[i], true).await;
            counter.fetch_add(1, Ordering::Relaxed);
            if again.hang == Some(stage) {
                confirmed.insert(g);
            }
            iso.push((i, again));
        }
        tokio::time::sleep(Duration::from_millis(300)).await;
        let accepted = [w.echo[0].accepted.load(Ordering::SeqCst), w.echo[1].accepted.load(Ordering::SeqCst)];
        let client_exit = w.tunnel.client_exit().await;
        w.tunnel.stop();
        Ok(Out { ctx: w.ctx.clone(), cases, bounds, obs, iso, confirmed, unresolved, accepted, client_exit, one_char, pass_s })
    });
    let out = match res {
        Ok(o) => o,
        Err(e) => {
            rep.machinery_error = Some(e);
            return rep;
        }
    };
    let Out { ctx, cases, bounds, mut obs, iso, confirmed, unresolved, accepted, client_exit, one_char, pass_s } = out;

    // a deadline hit that does not show again is replaced by the isolated run (whose other findings count)
    let mut hang_first: BTreeMap<usize, &'static str> = BTreeMap::new();
    let mut not_reproduced = Vec::new();
    // target connections that replaced runs may have caused stay allowed in the one-sided count
    let mut success_seen = [0u64; 2];
    let mut short_deadline_used = 0u64;
    for (i, again) in iso {
        let first = obs[i].hang.unwrap_or("?");
        hang_first.insert(i, first);
        if judge(&ctx, &cases[i], &obs[i]).success_seen {
            success_seen[cases[i].fam_no()] += 1;
        }
        if again.hang.is_none() {
            not_reproduced.push(json!({"case": cases[i].to_json(), "deadline_hit_at": first}));
        }
        obs[i] = again;
    }

    let mut outcomes: BTreeMap<String, u64> = BTreeMap::new();
    let mut machinery: Vec<String> = Vec::new();
    let mut counted_by_group = 0u64;
    let mut unresolved_hits = 0u64;
    let mut gone: Option<usize> = None;
    let mut slowest = 0u64;
    let mut sampled: HashSet<String> = HashSet::new();
    for (i, (case, o)) in cases.iter().zip(obs.iter()).enumerate() {
        if o.client_gone {
            gone.get_or_insert(i);
            continue;
        }
        if let Some(m) = &o.machinery {
            machinery.push(format!("[{}] {m}", case.label()));
            continue;
        }
        slowest = slowest.max(o.ms);
        if o.deadline_ms < DEADLINE.as_millis() as u64 {
            short_deadline_used += 1;
        }
        let v = judge(&ctx, case, o);
        if v.success_seen {
            success_seen[case.fam_no()] += 1;
        }
        *outcomes.entry(v.outcome.clone()).or_insert(0) += 1;
        if sampled.insert(v.outcome.clone()) && rep.samples.len() < 6 && matches!(v.outcome.as_str(), "s4:grant+echo" | "s4:rejection+close(non-connect command)" | "s5:udp-associate-success" | "s5:rep=07+close(unsupported command)" | "s5:method-ff+close" | "trunc4:closed-silently") {
            rep.sample(json!({"outcome": v.outcome, "observation": o.to_json(case)}));
        }
        for f in v.findings {
            if f.hang && !hang_first.contains_key(&i) {
                if confirmed.contains(&(case.fam_no(), o.hang.unwrap_or("?"))) {
                    counted_by_group += 1;
                    rep.violation(f.key, format!("{} (not re-run alone: a deadline hit of the same kind was confirmed on another case run alone)", f.desc), case.to_json());
                } else {
                    // no time left to run it alone: no verdict on this one (MACHINERY below)
                    unresolved_hits += 1;
                }
            } else {
                rep.violation(f.key, f.desc, case.to_json());
            }
        }
    }
    if let Some(i) = gone {
        let text = client_exit.as_ref().map_or("client task over".to_string(), |e| e.text.clone());
        let n = obs.iter().filter(|o| o.client_gone).count();
        rep.violation_n(format!("{}.listener.client-ended", cases[i].wire()), format!("the client (and with it the SOCKS listener) ended during the run: {text}; {n} case(s) could not be executed, the first: [{}]", cases[i].label()), cases[i].to_json(), 1);
    } else if let Some(e) = &client_exit {
        rep.violation("wire5.listener.client-ended", format!("the client ended during the run: {}", e.text), json!({"kind": "wire-aggregate", "tier": args.tier}));
    }
    for f in 0..2 {
        if accepted[f] > success_seen[f] {
            rep.violation(
                format!("wire{}.target.unrequested-connection", 4 + f),
                format!("the echoing target of the SOCKS{} cases accepted {} connections, but only {} conversations saw a success reply: a request that was refused, rejected, cut short or malformed was carried out", 4 + f, accepted[f], success_seen[f]),
                json!({"kind": "wire-aggregate", "tier": args.tier}),
            );
        }
    }

    rep.evaluations = counter.load(Ordering::Relaxed);
    rep.distinct_nontrivial = cases.iter().map(|c| c.to_json().to_string()).collect::<HashSet<_>>().len() as u64;
    rep.exhaustive = machinery.is_empty() && gone.is_none() && unresolved == 0 && unresolved_hits == 0;
    for (k, v) in bounds {
        rep.bounds.insert(k, v);
    }
    rep.bounds.insert("cases".into(), json!(cases.len()));
    rep.bounds.insert("deadline_ms".into(), json!(DEADLINE.as_millis() as u64));
    rep.bounds.insert("parallel_conversations".into(), json!(par));
    rep.extra.insert("wire_outcomes".into(), json!(outcomes));
    let sum = |p: &dyn Fn(&str) -> bool| outcomes.iter().filter(|(k, _)| p(k)).map(|(_, n)| *n).sum::<u64>();
    let n_success = sum(&|k| k.contains("grant+echo") || k.contains("success+echo") || k.contains("udp-associate-success"));
    let n_lenient = sum(&|k| k.contains("then-close(target unreachable)"));
    let n_reject = sum(&|k| k.contains("rejection+close") || k.contains("rep="));
    let n_close = sum(&|k| k.contains("closed-silently") || k.contains("closed-without") || k.contains("method-00-then-close") || k.contains("method-ff+close"));
    rep.extra.insert("wire_success_replies_with_working_relay".into(), json!(n_success));
    rep.extra.insert("wire_success_replies_then_close_for_unreachable_targets".into(), json!(n_lenient));
    rep.extra.insert("wire_rejections_and_failure_replies".into(), json!(n_reject));
    rep.extra.insert("wire_closes_without_reply".into(), json!(n_close));
    rep.extra.insert("wire_target_connections_accepted".into(), json!({"socks4": accepted[0], "socks5": accepted[1]}));
    rep.extra.insert("wire_success_replies_seen".into(), json!({"socks4": success_seen[0], "socks5": success_seen[1]}));
    rep.extra.insert("wire_ipv6_loopback".into(), json!(ctx.v6));
    rep.extra.insert("wire_one_char_domain".into(), json!(one_char.map(|c| (c as char).to_string())));
    rep.extra.insert("wire_deadline_hits_rerun_alone".into(), json!(hang_first.len()));
    rep.extra.insert("wire_deadline_hits_not_reproduced_alone".into(), json!(not_reproduced));
    rep.extra.insert("wire_slowest_conversation_ms".into(), json!(slowest));
    rep.extra.insert("wire_pass_wall_s".into(), json!((pass_s * 100.0).round() / 100.0));
    rep.extra.insert("wire_deadline_hits_counted_through_a_confirmed_hit_of_the_same_kind".into(), json!(counted_by_group));
    rep.extra.insert("wire_conversations_with_short_deadline".into(), json!(short_deadline_used));
    if short_deadline_used > 0 {
        rep.caps_hit.push(format!("after {HANGS_BEFORE_SHORT} deadline hits in the parallel pass, {short_deadline_used} conversation(s) ran with a {SHORT_DEADLINE:?} deadline; their hits count only through a hit of the same kind confirmed alone with the full deadline"));
    }
    if one_char.is_none() {
        rep.caps_hit.push("SOCKS4a cases with a one-character domain left out: the resolver of this machine does not refuse such a name at once".into());
    }
    if !ctx.v6 {
        rep.caps_hit.push("no IPv6 loopback: ATYP 04 CONNECT cases are judged as 'target unreachable'".into());
    }
    assumptions(&mut rep);
    if !machinery.is_empty() {
        rep.machinery_error = Some(format!("{} case(s) could not be executed: {}", machinery.len(), machinery[0]));
    } else if unresolved_hits > 0 {
        rep.machinery_error = Some(format!("{unresolved_hits} deadline hit(s) could not be re-run alone within {ISO_BUDGET:?} (machine too loaded for a verdict)"));
    } else if rep.violations.is_empty() && (n_success == 0 || n_reject == 0 || n_close == 0 || outcomes.get("s5:udp-associate-success").copied().unwrap_or(0) == 0 || outcomes.get("s4:grant+echo").copied().unwrap_or(0) == 0 || outcomes.get("s5:success+echo").copied().unwrap_or(0) == 0) {
        rep.machinery_error = Some(format!("degenerate run: working success replies {n_success}, rejections {n_reject}, closes without reply {n_close}, outcomes {outcomes:?} -- SOCKS4 grant+echo, SOCKS5 success+echo, a UDP association, rejections and closes must each occur"));
    }
    rep
}
