//! C03 demo: a `MuxStream` whose flow was already closed by the peer's `Reset` keeps
//! emitting flow-control `Acknowledge` frames under its old flow ID when the application
//! drains the data that was buffered before the `Reset`. If the ID has been drawn again in
//! the meantime, those `Acknowledge`s are credited to the *new*, unrelated flow: the peer
//! is handed more credit than the window advertised for that flow, overruns the receive
//! queue, and the new stream is reset with "Peer does not respect `rwnd` limit".
//!
//! Both endpoints are unmodified `penguin_mux::Multiplexor`s talking over an in-memory
//! WebSocket. The only scripted thing is the client's flow-ID generator (public API:
//! `Multiplexor::new_detailed` takes the `Rng`), which draws the same ID twice.
//
// SPDX-License-Identifier: Apache-2.0 OR GPL-3.0-or-later

use penguin_mux::config::Options;
use penguin_mux::ws::{Message, WebSocket};
use penguin_mux::{Error, Multiplexor};
use std::sync::{Arc, Mutex};
use std::task::{Context, Poll};
use std::time::Duration;
use tokio::io::{AsyncReadExt, AsyncWriteExt};
use tokio::sync::mpsc;
use tokio::time::{sleep, timeout};

const CLIENT_RWND: u32 = 4;
const SERVER_RWND: u32 = 6;
/// The flow ID that the client's generator hands out twice.
const FLOW: u32 = 0x00c0_ffee;

#[derive(Clone, Copy, Debug, PartialEq, Eq)]
enum Dir {
    ClientToServer,
    ServerToClient,
}

#[derive(Clone, Copy, Debug, PartialEq, Eq)]
enum Op {
    Connect,
    Acknowledge,
    Reset,
    Finish,
    Push,
    Other,
}

/// One stream frame seen on the wire: (direction, opcode, flow ID, u32 argument if any)
type Wire = Arc<Mutex<Vec<(Dir, Op, u32, u32)>>>;

/// In-memory WebSocket that records every stream frame it carries.
struct TapWs {
    dir: Dir,
    tx: Option<mpsc::UnboundedSender<Message>>,
    rx: mpsc::UnboundedReceiver<Message>,
    wire: Wire,
}

impl WebSocket for TapWs {
    fn poll_ready_unpin(&mut self, _cx: &mut Context<'_>) -> Poll<Result<(), Error>> {
        Poll::Ready(if self.tx.is_some() {
            Ok(())
        } else {
            Err(Error::Closed)
        })
    }
    fn start_send_unpin(&mut self, item: Message) -> Result<(), Error> {
        if let Message::Binary(data) = &item {
            if data.len() >= 5 {
                let op = match data[0] & 0x0f {
                    0 => Op::Connect,
                    1 => Op::Acknowledge,
                    2 => Op::Reset,
                    3 => Op::Finish,
                    4 => Op::Push,
                    _ => Op::Other,
                };
                let id = u32::from_be_bytes([data[1], data[2], data[3], data[4]]);
                let arg = if matches!(op, Op::Connect | Op::Acknowledge) && data.len() >= 9 {
                    u32::from_be_bytes([data[5], data[6], data[7], data[8]])
                } else {
                    0
                };
                self.wire.lock().unwrap().push((self.dir, op, id, arg));
            }
        }
        self.tx
            .as_ref()
            .ok_or(Error::Closed)?
            .send(item)
            .or(Err(Error::Closed))
    }
    fn poll_flush_unpin(&mut self, _cx: &mut Context<'_>) -> Poll<Result<(), Error>> {
        Poll::Ready(Ok(()))
    }
    fn poll_close_unpin(&mut self, _cx: &mut Context<'_>) -> Poll<Result<(), Error>> {
        self.tx.take();
        Poll::Ready(Ok(()))
    }
    fn poll_next_unpin(&mut self, cx: &mut Context<'_>) -> Poll<Option<Result<Message, Error>>> {
        self.rx.poll_recv(cx).map(|m| m.map(Ok))
    }
}

fn tap_pair(wire: &Wire) -> (TapWs, TapWs) {
    let (c2s_tx, c2s_rx) = mpsc::unbounded_channel();
    let (s2c_tx, s2c_rx) = mpsc::unbounded_channel();
    (
        TapWs {
            dir: Dir::ClientToServer,
            tx: Some(c2s_tx),
            rx: s2c_rx,
            wire: wire.clone(),
        },
        TapWs {
            dir: Dir::ServerToClient,
            tx: Some(s2c_tx),
            rx: c2s_rx,
            wire: wire.clone(),
        },
    )
}

/// Flow-ID generator: `FLOW` for the first two draws, fresh values afterwards.
struct TwiceRng(u32);
impl rand::TryRng for TwiceRng {
    type Error = core::convert::Infallible;
    fn try_next_u32(&mut self) -> Result<u32, Self::Error> {
        self.0 += 1;
        Ok(if self.0 <= 2 { FLOW } else { FLOW + self.0 })
    }
    fn try_next_u64(&mut self) -> Result<u64, Self::Error> {
        self.try_next_u32().map(u64::from)
    }
    fn try_fill_bytes(&mut self, dst: &mut [u8]) -> Result<(), Self::Error> {
        dst.fill(0);
        Ok(())
    }
}

/// Black-box accounting on the recorded wire for the *second* flow that uses `FLOW`
/// (everything after the second `Connect`), server->client direction:
/// - `phantom_credit`: the largest value reached by (credit returned by the client's
///   `Acknowledge`s) - (`Push` frames the server had put on the wire by then). A receiver
///   can only acknowledge frames it consumed, so this must never be positive.
/// - `over_window`: the largest value reached by (`Push` frames on the wire) - (credit
///   returned for frames of *this* flow, i.e. capped by what had been sent), which must
///   never exceed the window the client advertised in its `Connect`.
/// - whether a `Reset` was sent on the flow in either direction.
/// The two directions are merged in recording order, which is fine here because the test
/// is sequential at the points that matter.
fn account_second_flow(wire: &Wire) -> (i64, i64, bool) {
    let wire = wire.lock().unwrap();
    let mut connects = 0;
    let mut pushed: i64 = 0;
    let mut acked: i64 = 0;
    let mut genuine_acked: i64 = 0;
    let mut phantom_credit = 0;
    let mut over_window = 0;
    let mut reset_seen = false;
    for &(dir, op, id, arg) in wire.iter() {
        if id != FLOW {
            continue;
        }
        if op == Op::Connect {
            connects += 1;
            continue;
        }
        if connects < 2 {
            continue;
        }
        match (dir, op) {
            (Dir::ServerToClient, Op::Push) => {
                pushed += 1;
                over_window = over_window.max(pushed - genuine_acked);
            }
            // `Acknowledge` server->client is the handshake answer; the client->server
            // ones are flow control for the server->client direction.
            (Dir::ClientToServer, Op::Acknowledge) => {
                acked += i64::from(arg);
                phantom_credit = phantom_credit.max(acked - pushed);
                genuine_acked = acked.min(pushed);
            }
            (_, Op::Reset) => reset_seen = true,
            _ => {}
        }
    }
    (phantom_credit, over_window, reset_seen)
}

#[tokio::test(flavor = "multi_thread", worker_threads = 2)]
async fn stale_acknowledge_of_a_reset_flow_is_not_credited_to_its_successor() {
    let wire: Wire = Arc::new(Mutex::new(Vec::new()));
    let (client_ws, server_ws) = tap_pair(&wire);

    let (client, client_task) = Multiplexor::new_detailed::<_, std::time::Instant>(
        client_ws,
        Options::new()
            .rwnd(CLIENT_RWND)
            .default_rwnd_threshold(CLIENT_RWND),
        TwiceRng(0),
    );
    let (server, server_task) = Multiplexor::new_detailed::<_, std::time::Instant>(
        server_ws,
        Options::new().rwnd(SERVER_RWND).default_rwnd_threshold(2),
        TwiceRng(1000),
    );
    tokio::spawn(client_task.into_task());
    tokio::spawn(server_task.into_task());

    // ---- Old flow: the client opens A, the server fills A's window and goes away ----
    let mut a = client.new_stream_channel(b"old", 1).await.unwrap();
    let mut a_srv = server.accept_stream_channel().await.unwrap();
    for i in 0..CLIENT_RWND {
        // Exactly the window advertised by the client: all legal
        a_srv.write_all(&[b'a', i as u8]).await.unwrap();
    }
    // The server application drops its end without `shutdown`: `Reset` on the wire.
    drop(a_srv);
    // Wait until the client's task has processed that `Reset` (flow freed on both sides).
    // A zero-length write transmits nothing and fails once the flow is closed.
    timeout(Duration::from_secs(10), async {
        while a.write(&[]).await.is_ok() {
            sleep(Duration::from_millis(5)).await;
        }
    })
    .await
    .expect("the client never saw the server's `Reset`");
    sleep(Duration::from_millis(50)).await;

    // ---- New flow: the client opens B and its generator draws the same ID again ----
    let mut b = client.new_stream_channel(b"new", 2).await.unwrap();
    let mut b_srv = server.accept_stream_channel().await.unwrap();
    {
        let w = wire.lock().unwrap();
        let connect_ids: Vec<u32> = w
            .iter()
            .filter(|f| f.1 == Op::Connect)
            .map(|f| f.2)
            .collect();
        assert_eq!(
            connect_ids,
            vec![FLOW, FLOW],
            "test setup: both streams must use the same flow ID"
        );
    }

    // ---- The client application now drains what A had buffered before the `Reset` ----
    let mut old = Vec::new();
    a.read_to_end(&mut old).await.unwrap();
    assert_eq!(old.len(), 2 * CLIENT_RWND as usize, "A's data is intact");
    drop(a);
    sleep(Duration::from_millis(100)).await;

    // ---- The server writes on B while the client does not read B ----
    // The client advertised `CLIENT_RWND` for B, so write number `CLIENT_RWND + 1` has to
    // wait until the client reads.
    let writer = tokio::spawn(async move {
        let mut written = 0u32;
        for i in 0..=CLIENT_RWND {
            if b_srv.write_all(&[b'b', i as u8]).await.is_err() {
                break;
            }
            written += 1;
        }
        b_srv.shutdown().await.ok();
        // Keep our end until the client is done
        sleep(Duration::from_millis(500)).await;
        written
    });
    sleep(Duration::from_millis(300)).await;


    // Now the client reads B to the end.
    let mut new = Vec::new();
    let read = timeout(Duration::from_secs(10), b.read_to_end(&mut new)).await;
    let written = writer.await.unwrap();
    let (phantom_credit, over_window, reset_seen) = account_second_flow(&wire);
    let dump: Vec<_> = wire
        .lock()
        .unwrap()
        .iter()
        .filter(|f| f.2 == FLOW)
        .copied()
        .collect();

    assert!(
        phantom_credit <= 0,
        "the client acknowledged {phantom_credit} frame(s) on flow B that were never sent on it, \
         let alone consumed\nwire: {dump:x?}"
    );
    assert!(
        over_window <= i64::from(CLIENT_RWND),
        "flow control violated on flow B: {over_window} unacknowledged `Push` frames on the \
         wire towards a peer that advertised rwnd={CLIENT_RWND}\nwire: {dump:x?}"
    );
    assert!(
        !reset_seen,
        "stream B was reset although both ends are conforming\nwire: {dump:x?}"
    );
    read.expect("reading B timed out").unwrap();
    assert_eq!(written, CLIENT_RWND + 1);
    assert_eq!(
        new.len(),
        2 * (CLIENT_RWND as usize + 1),
        "B lost data\nwire: {dump:x?}"
    );
    drop((client, server));
}
