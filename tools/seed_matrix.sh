#!/bin/bash
# For every seeded change: run the checks listed in seeded/<name>/checks.txt against it (scratch worktree, never /repo)
# and record which violation keys each check reports in seeded/<name>/detect.json.
cd /verif
for d in seeded/[!_]*/; do
  n=$(basename $d)
  [ -f $d/checks.txt ] || continue
  [ -n "${ONLY:-}" ] && [ "$n" != "$ONLY" ] && continue
  ids=$(cat $d/checks.txt)
  echo "=== $n: $ids"
  tier=quick; [ -f $d/tier.txt ] && tier=$(cat $d/tier.txt)
  [ -n "${SKIP_DONE:-}" ] && [ -f $d/detect.json ] && [ $d/detect.json -nt $d/checks.txt ] && continue
  out=$(TIER=$tier MUT=${MUT:-/tmp/mutm} tools/mutate.sh $d/patch.diff $ids 2>&1)
  echo "$out" | python3 -c "
import sys,json,re
res={}; cur=None
for l in sys.stdin:
    m=re.match(r'== (\S+): machinery_error=(.*?) evaluations=(\S+) violations=(\d+)',l)
    if m: cur=m.group(1).replace('C19B','C19'); res[cur]={'violations':int(m.group(4)),'keys':[],'machinery_error':None if m.group(2)=='None' else m.group(2)}; continue
    m=re.match(r'\s+(\S+) x\d+ ::',l)
    if m and cur: res[cur]['keys'].append(m.group(1))
json.dump({'caught_by':[k for k,v in res.items() if v['violations']>0],'not_caught_by':[k for k,v in res.items() if v['violations']==0],'detail':res},open('$d/detect.json','w'),indent=1)
print(json.dumps({k:v['keys'][:3] for k,v in res.items()}))
"
done
