//! C10, part T — a peer that misbehaves at the WEBSOCKET level.
//! One real endpoint (server role, and again client role) whose WebSocket is a real `tokio_tungstenite::WebSocketStream`
//! (through the crate's adapter in `ws.rs`) over the byte pipes of `bytepipe.rs`; its peer is a raw BYTE-level script. After
//! a small set-up (bystander stream opened by the peer with a read pending, `accept_stream_channel` and `get_datagram`
//! pending, a `new_stream_channel` whose Connect the peer leaves unanswered) the peer sends one element (quick) or two
//! (thorough) of a WebSocket-level alphabet -- Text messages, Binary messages that are no penguin frame, control frames,
//! fragmentation, framing violations -- and then either goes on normally (one more valid Push on the bystander) or, where
//! the element has to end the connection, stays silent. Never a panic, never a hang: either the connection goes on and the
//! bystander still works, or it has ended and everything pending has resolved.

use super::c05::push_viol;
use super::common::{Case, Plan, run_cases};
use crate::Args;
use crate::apps::{EndPlan, Ev, Op, SideCfg, World, opts};
use crate::bytepipe::UNBOUNDED_BYTES;
use crate::codec::{self, RFrame};
use crate::explore::{Cost, RunOutput, choose_n};
use crate::report::Report;
use crate::sim::{Fnv, Step};
use std::collections::BTreeMap;
use std::time::Duration;

/// every case label of this part starts with it (a replay file is routed to the part that owns the case)
pub const LABEL_PREFIX: &str = "tungstenite: ";

const BYSTANDER: u32 = 0x51;

#[derive(Clone, Copy, Debug, PartialEq, Eq, Hash)]
enum El {
    TextEmpty,
    Text10,
    Text200,
    /// 63 ASCII octets, 'é' (two octets: 64 and 65), 20 ASCII octets
    TextStraddle64,
    /// 64 ASCII octets, 'é'
    Text64ThenMulti,
    TextBadUtf8,
    BinEmpty,
    Bin1,
    Bin4,
    BinBadOpcode,
    Ping0,
    Ping125,
    PongUnsolicited,
    Ping126,
    Close1000,
    CloseBadCode,
    Close1Octet,
    /// a VALID Push for the bystander in two fragments (FIN=0 Binary + continuation)
    FragmentedPush,
    ContinuationAlone,
    ReservedBit,
    ReservedOpcode3,
    WrongMasking,
    Len2Pow40,
}
use El::*;
const ALPHABET: [El; 23] = [TextEmpty, Text10, Text200, TextStraddle64, Text64ThenMulti, TextBadUtf8, BinEmpty, Bin1, Bin4, BinBadOpcode, Ping0, Ping125, PongUnsolicited, Ping126, Close1000, CloseBadCode, Close1Octet, FragmentedPush, ContinuationAlone, ReservedBit, ReservedOpcode3, WrongMasking, Len2Pow40];

/// What the property prescribes after the element.
#[derive(Clone, Copy, Debug, PartialEq, Eq)]
enum Must {
    /// valid WebSocket traffic: the connection goes on
    Continue,
    /// a message that is no valid penguin frame: the connection ends with an error, or the message is ignored
    Either,
    /// Close / WebSocket protocol violation: the connection ends
    End,
}

fn must(e: El) -> Must {
    match e {
        Ping0 | Ping125 | PongUnsolicited | FragmentedPush => Must::Continue,
        TextEmpty | Text10 | Text200 | TextStraddle64 | Text64ThenMulti | TextBadUtf8 | BinEmpty | Bin1 | Bin4 | BinBadOpcode => Must::Either,
        Ping126 | Close1000 | CloseBadCode | Close1Octet | ContinuationAlone | ReservedBit | ReservedOpcode3 | WrongMasking | Len2Pow40 => Must::End,
    }
}

const MASK: [u8; 4] = [0x37, 0xfa, 0x21, 0x3d];

/// One WebSocket frame, byte by byte. `masked`: as a client sends it. `announce`: the length to announce instead of the real one.
fn ws_frame(fin: bool, rsv: u8, opcode: u8, payload: &[u8], masked: bool, announce: Option<u64>) -> Vec<u8> {
    let mut v = vec![u8::from(fin) << 7 | (rsv & 7) << 4 | (opcode & 0x0f)];
    let m = u8::from(masked) << 7;
    let len = announce.unwrap_or(payload.len() as u64);
    if len < 126 {
        v.push(m | len as u8);
    } else if len < 65536 {
        v.push(m | 126);
        v.extend_from_slice(&(len as u16).to_be_bytes());
    } else {
        v.push(m | 127);
        v.extend_from_slice(&len.to_be_bytes());
    }
    if masked {
        v.extend_from_slice(&MASK);
        v.extend(payload.iter().enumerate().map(|(i, b)| b ^ MASK[i % 4]));
    } else {
        v.extend_from_slice(payload);
    }
    v
}

fn ascii(n: usize) -> Vec<u8> {
    // (first octet 'a' = 0x61: version nibble 6, no penguin frame whatever follows)
    (0..n).map(|i| b'a' + (i % 26) as u8).collect()
}

fn push_bytes(data: &[u8]) -> Vec<u8> {
    codec::encode(&RFrame::Push { id: BYSTANDER, data: data.to_vec() })
}

/// Payload of the Text / Binary message of an element (for the "is it a valid penguin frame" question).
fn message_payload(e: El) -> Option<Vec<u8>> {
    Some(match e {
        TextEmpty | BinEmpty => vec![],
        Text10 => ascii(10),
        Text200 => ascii(200),
        TextStraddle64 => [ascii(63), "é".as_bytes().to_vec(), ascii(20)].concat(),
        Text64ThenMulti => [ascii(64), "é".as_bytes().to_vec()].concat(),
        TextBadUtf8 => vec![b'a', 0xff, 0xfe, b'b', 0xc3],
        Bin1 => vec![0x74],
        Bin4 => vec![0x74, 0, 0, 0],
        BinBadOpcode => vec![0x7f, 0, 0, 0, BYSTANDER as u8],
        _ => return None,
    })
}

/// The raw bytes of an element as the peer of a `masked`-expecting endpoint sends them (`cm`: the peer is the client, its
/// frames are masked), and the bystander data they carry if they are valid traffic.
fn element(e: El, cm: bool, k: usize) -> (Vec<u8>, Vec<u8>) {
    let none = Vec::new();
    match e {
        TextEmpty | Text10 | Text200 | TextStraddle64 | Text64ThenMulti | TextBadUtf8 => (ws_frame(true, 0, 1, &message_payload(e).unwrap(), cm, None), none),
        BinEmpty | Bin1 | Bin4 | BinBadOpcode => (ws_frame(true, 0, 2, &message_payload(e).unwrap(), cm, None), none),
        Ping0 => (ws_frame(true, 0, 9, &[], cm, None), none),
        Ping125 => (ws_frame(true, 0, 9, &ping_payload(125, k), cm, None), none),
        PongUnsolicited => (ws_frame(true, 0, 10, b"late", cm, None), none),
        Ping126 => (ws_frame(true, 0, 9, &ping_payload(126, k), cm, None), none),
        Close1000 => (ws_frame(true, 0, 8, &[0x03, 0xe8], cm, None), none),
        // 1005 ("no status received") must never appear on the wire
        CloseBadCode => (ws_frame(true, 0, 8, &[0x03, 0xed, b'x'], cm, None), none),
        Close1Octet => (ws_frame(true, 0, 8, &[0x03], cm, None), none),
        FragmentedPush => {
            let data = vec![0xf0 + k as u8, 0xf1, 0xf2];
            let p = push_bytes(&data);
            ([ws_frame(false, 0, 2, &p[..3], cm, None), ws_frame(true, 0, 0, &p[3..], cm, None)].concat(), data)
        }
        ContinuationAlone => (ws_frame(true, 0, 0, &push_bytes(b"zz"), cm, None), none),
        ReservedBit => (ws_frame(true, 4, 2, &push_bytes(b"zz"), cm, None), none),
        ReservedOpcode3 => (ws_frame(true, 0, 3, &push_bytes(b"zz"), cm, None), none),
        // a server's frame that is masked / a client's frame that is not
        WrongMasking => (ws_frame(true, 0, 2, &push_bytes(b"zz"), !cm, None), none),
        Len2Pow40 => (ws_frame(true, 0, 2, &[], cm, Some(1 << 40)), none),
    }
}

fn ping_payload(n: usize, k: usize) -> Vec<u8> {
    (0..n).map(|i| (i as u8).wrapping_mul(7).wrapping_add(k as u8)).collect()
}

const W_CONTINUED: u64 = 1;
const W_ENDED_ERR: u64 = 2;
const W_ENDED_OK: u64 = 4;
const W_PONG_ECHOED: u64 = 8;
const W_FRAGMENTS_REASSEMBLED: u64 = 16;
const W_IN_PIECES: u64 = 32;
const W_FOLLOW_UP_ARRIVED: u64 = 64;
const W_PENDING_RESOLVED_CLOSED: u64 = 128;

#[derive(Clone, Debug)]
struct Cfg {
    /// side of the real endpoint: 0 = client role (the peer's frames are unmasked), 1 = server role
    side: usize,
    seq: Vec<El>,
    /// the peer's bytes go on the wire in pieces of this many octets (0 = each element at once)
    chunk: usize,
}

/// What the raw peer has received, frame by frame: (opcode, payload unmasked).
fn parse_frames(buf: &[u8]) -> Vec<(u8, Vec<u8>)> {
    let mut out = Vec::new();
    let mut i = 0;
    while i + 2 <= buf.len() {
        let (op, masked, l7) = (buf[i] & 0x0f, buf[i + 1] & 0x80 != 0, usize::from(buf[i + 1] & 0x7f));
        let (mut h, len) = match l7 {
            126 if i + 4 <= buf.len() => (4, usize::from(u16::from_be_bytes([buf[i + 2], buf[i + 3]]))),
            127 if i + 10 <= buf.len() => (10, u64::from_be_bytes(buf[i + 2..i + 10].try_into().unwrap()) as usize),
            126 | 127 => break,
            n => (2, n),
        };
        let mut key = [0u8; 4];
        if masked {
            if i + h + 4 > buf.len() {
                break;
            }
            key.copy_from_slice(&buf[i + h..i + h + 4]);
            h += 4;
        }
        if i + h + len > buf.len() {
            break;
        }
        out.push((op, buf[i + h..i + h + len].iter().enumerate().map(|(j, b)| b ^ key[j % 4]).collect()));
        i += h + len;
    }
    out
}

fn exec(c: &Cfg, render: bool) -> RunOutput {
    let side = c.side;
    let sfx = if side == 0 { "a" } else { "b" };
    // the peer is the client iff the endpoint is the server
    let cm = side == 1;
    let cfg = SideCfg { opts: opts(8, 4).bind_buffer_size(1).datagram_buffer_size(2).max_flow_id_retries(1), rng: vec![] };
    let mut w = World::one_tungstenite(UNBOUNDED_BYTES, side, &cfg);
    let pipe = w.pipe.clone().expect("byte pipes");
    let (din, dout) = (1 - side, side);
    let mut plans = BTreeMap::new();
    plans.insert(1u8, EndPlan::Seq(vec![Op::ReadToEof(16)]));
    w.spawn_acceptor(side, usize::MAX, plans);
    w.spawn_dgram_receiver(side, &format!("dgrecv.{sfx}"), usize::MAX, false);
    w.spawn_opener(side, 2, vec![2, b'h'], 2002, EndPlan::Seq(vec![Op::Drop]));
    let mut viol: Vec<(String, String)> = Vec::new();
    let mut got: Vec<u8> = Vec::new();
    // ---- set-up (deterministic): the peer opens the bystander and sends a first Push; the application reads it
    let mut expect: Vec<u8> = vec![0xe0, 0xe1];
    pipe.inject(din, &ws_frame(true, 0, 2, &codec::encode(&RFrame::Connect { id: BYSTANDER, rwnd: 4, port: 1001, host: vec![1, b'h'] }), cm, None));
    pipe.inject(din, &ws_frame(true, 0, 2, &push_bytes(&expect), cm, None));
    loop {
        let en = w.sim.enabled();
        let Some(s) = en.first().cloned() else { break };
        w.sim.apply(&s);
        got.extend(pipe.raw_take(dout));
        if w.sim.steps > 500 {
            break;
        }
    }
    let setup_frames = parse_frames(&got).len();
    let setup_ok = {
        let obs = w.obs.borrow();
        obs.dirs.get(&(1, 0)).is_some_and(|d| d.read == expect) && obs.pending().len() == 4 && !w.task_done(side)
    };
    // ---- the script: the elements, then (unless one of them has to end the connection) one more Push for the bystander
    let mut pieces: Vec<Vec<u8>> = Vec::new();
    let mut pings: Vec<Vec<u8>> = Vec::new();
    for (k, e) in c.seq.iter().enumerate() {
        let (bytes, data) = element(*e, cm, k);
        expect.extend_from_slice(&data);
        match e {
            Ping0 => pings.push(vec![]),
            Ping125 => pings.push(ping_payload(125, k)),
            _ => {}
        }
        if c.chunk == 0 { pieces.push(bytes) } else { pieces.extend(bytes.chunks(c.chunk).map(<[u8]>::to_vec)) }
    }
    let follow_up = !c.seq.iter().any(|e| must(*e) == Must::End);
    let before_follow_up = expect.len();
    if follow_up {
        let data = vec![0xe8, 0xe9, 0xea];
        pieces.push(ws_frame(true, 0, 2, &push_bytes(&data), cm, None));
        expect.extend_from_slice(&data);
    }
    let mut wit = if c.chunk != 0 { W_IN_PIECES } else { 0 };
    let mut fps = Vec::new();
    let mut next = 0usize;
    let mut horizon = false;
    w.sim.log.clear();
    loop {
        if w.sim.steps >= 3000 {
            horizon = true;
            break;
        }
        let en = w.sim.enabled();
        let raw = usize::from(next < pieces.len());
        if en.is_empty() && raw == 0 {
            break;
        }
        // canonical order: task polls, deliveries, and only then the peer's next piece
        let ch = choose_n(en.len() + raw, Cost::Sched);
        if ch < en.len() {
            let s = en[ch].clone();
            w.sim.apply(&s);
        } else {
            pipe.inject(din, &pieces[next]);
            w.sim.log.push(Step::Extra(next));
            next += 1;
        }
        got.extend(pipe.raw_take(dout));
        let obs = w.obs.borrow();
        // the bystander only ever gets what the peer sent it, in order
        if let Some(d) = obs.dirs.get(&(1, 0)) {
            if d.read.len() > expect.len() || d.read[..] != expect[..d.read.len()] {
                push_viol(&mut viol, "tungpeer.bystander-broken", format!("the bystander read {:02x?}, which is not a prefix of what the peer pushed on it ({:02x?})", d.read, expect));
            }
        }
        let mut h = Fnv::default();
        h.u64(obs.events.len() as u64);
        for (n, d) in &obs.futures {
            h.str(n);
            h.byte(u8::from(*d));
        }
        if let Some(m) = w.mux[side].as_ref() {
            for f in m.verif_flow_digest() {
                h.u64(u64::from(f.id));
                h.u64(u64::from(f.credit));
                h.byte(f.kind | u8::from(f.finish_sent) << 2 | u8::from(f.read_open) << 3);
                h.u64(f.queued as u64);
            }
        }
        {
            let l = pipe.lock();
            for d in &l.dirs {
                h.u64(d.inflight.len() as u64);
                h.u64(d.unread.len() as u64);
                h.u64(d.written);
                h.byte(u8::from(d.fin_inflight) | u8::from(d.fin_delivered) << 1 | u8::from(d.wr_closed) << 2 | u8::from(d.reader_gone) << 3);
            }
        }
        h.u64(next as u64);
        for (i, t) in w.sim.tasks.iter().enumerate() {
            h.byte(u8::from(t.done) | u8::from(w.sim.is_runnable(i)) << 1 | u8::from(t.panicked.is_some()) << 2);
        }
        fps.push(h.0);
    }
    // ------------------------------------------------------------ verdict at quiescence
    let obs = w.obs.borrow();
    let what = format!("{:?} sent to the {} endpoint{}", c.seq, if side == 0 { "client-role" } else { "server-role" }, if c.chunk == 0 { String::new() } else { format!(" in pieces of {} octets", c.chunk) });
    if !setup_ok {
        push_viol(&mut viol, "tungpeer.setup", format!("the set-up did not reach its state: pending {:?}, bystander read {:?}, task done {}", obs.pending(), obs.dirs.get(&(1, 0)).map(|d| d.read.clone()), w.task_done(side)));
    }
    if horizon {
        push_viol(&mut viol, "tungpeer.hang.livelock", format!("{what}: step horizon reached"));
    }
    for t in &w.sim.tasks {
        if let Some(p) = &t.panicked {
            push_viol(&mut viol, "tungpeer.panic", format!("{what}: {} panicked: {p}", t.name));
        }
    }
    let frames = parse_frames(&got);
    let sent_close = frames.iter().any(|(op, _)| *op == 8);
    let task_done = w.task_done(side);
    let result = w.task_result[side].borrow().clone();
    let pend = obs.pending();
    let strictest = if c.seq.iter().any(|e| must(*e) == Must::End) { Must::End } else if c.seq.iter().any(|e| must(*e) == Must::Either) { Must::Either } else { Must::Continue };
    if !task_done && !horizon {
        // (a) the connection goes on
        let told = {
            let l = pipe.lock();
            l.told_rd[side] || l.told_wr[side]
        };
        if strictest == Must::End {
            if sent_close || told {
                push_viol(&mut viol, "tungpeer.hang.task", format!("{what}: the endpoint has started to close the connection (Close sent: {sent_close}) but its connection task never finished; pending: {pend:?}"));
            } else {
                push_viol(&mut viol, "tungpeer.result", format!("{what}: this has to end the connection, but the connection task goes on as if nothing had happened"));
            }
        } else {
            wit |= W_CONTINUED;
            let read = obs.dirs.get(&(1, 0)).map(|d| d.read.clone()).unwrap_or_default();
            if read != expect {
                push_viol(&mut viol, "tungpeer.bystander-broken", format!("{what}: the connection goes on, but the bystander read {read:02x?} where the peer pushed {expect:02x?} (the Push behind the element(s) starts at offset {before_follow_up})"));
            } else {
                wit |= W_FOLLOW_UP_ARRIVED;
                if c.seq.contains(&FragmentedPush) {
                    wit |= W_FRAGMENTS_REASSEMBLED;
                }
            }
            if pend.len() != 4 || obs.events.iter().any(|e| matches!(e, Ev::OpenErr { .. } | Ev::AcceptErr { .. } | Ev::DgramErr { .. } | Ev::DgramGot { .. } | Ev::OpenOk { .. })) {
                push_viol(&mut viol, "tungpeer.pending-disturbed", format!("{what}: the connection goes on, but the pending operations did not all stay pending: pending now {pend:?}, events {:?}", obs.events));
            }
            // every Ping answered by a Pong with the same payload, in order; no other Pong
            let pongs: Vec<&Vec<u8>> = frames.iter().filter(|(op, _)| *op == 10).map(|(_, p)| p).collect();
            if pongs.len() != pings.len() || pongs.iter().zip(&pings).any(|(a, b)| *a != b) {
                push_viol(&mut viol, "tungpeer.ping-not-answered", format!("{what}: Pings with payloads of {:?} octets were sent, the endpoint answered with {} Pong(s) with payloads {:02x?}", pings.iter().map(Vec::len).collect::<Vec<_>>(), pongs.len(), pongs));
            } else if !pings.is_empty() {
                wit |= W_PONG_ECHOED;
            }
            // nothing but Pongs (and credit for the bystander) came back
            let other = frames[setup_frames..].iter().filter(|(op, p)| !(*op == 10 || *op == 2 && matches!(codec::decode(p), Ok(RFrame::Acknowledge { id: BYSTANDER, .. })))).count();
            if other != 0 {
                push_viol(&mut viol, "tungpeer.result", format!("{what}: the connection goes on, but the endpoint sent something besides Pongs: {:02x?}", &frames[setup_frames..]));
            }
        }
    } else if task_done {
        // (b) the connection has ended: everything pending has resolved
        if strictest == Must::Continue {
            push_viol(&mut viol, "tungpeer.result", format!("{what}: valid WebSocket traffic ended the connection (task result {result:?})"));
        }
        for n in &pend {
            let kind = if n.starts_with("open") { "open" } else if n.starts_with("accept") { "accept" } else if n.starts_with("dg") { "dgram" } else { "read" };
            push_viol(&mut viol, &format!("tungpeer.hang.{kind}"), format!("{what}: the connection task has ended ({result:?}) but these operations never completed: {pend:?}"));
        }
        let mut closed = 0;
        for e in &obs.events {
            match e {
                Ev::OpenErr { err, .. } | Ev::AcceptErr { err, .. } | Ev::DgramErr { err, .. } => {
                    closed += 1;
                    if err != "Closed" {
                        push_viol(&mut viol, "tungpeer.result", format!("{what}: a pending multiplexor call failed with {err} instead of Closed ({e:?})"));
                    }
                }
                Ev::OpenOk { tag: 2, .. } => push_viol(&mut viol, "tungpeer.result", format!("{what}: the stream request that the peer never answered succeeded")),
                _ => {}
            }
        }
        if closed == 3 {
            wit |= W_PENDING_RESOLVED_CLOSED;
        }
        if let Some(d) = obs.dirs.get(&(1, 0)) {
            if let Some(e) = &d.read_err {
                push_viol(&mut viol, "tungpeer.result", format!("{what}: the bystander's read failed with {e}; reads return the delivered prefix and then 0"));
            } else if pend.is_empty() && !d.eof {
                push_viol(&mut viol, "tungpeer.result", format!("{what}: the bystander's reader finished without seeing end-of-stream"));
            }
        }
        // a message that is no valid penguin frame must not end the connection "successfully"
        let first_fatal = c.seq.iter().find(|e| must(**e) != Must::Continue);
        if let Some(e) = first_fatal {
            if message_payload(*e).is_some_and(|p| codec::decode(&p).is_err()) && !matches!(result, Some(Err(_))) && w.sim.tasks.iter().all(|t| t.panicked.is_none()) {
                push_viol(&mut viol, "tungpeer.result", format!("{what}: {e:?} is no valid frame; the connection ended, but the connection task returned {result:?} instead of an error"));
            }
        }
        wit |= if matches!(result, Some(Err(_))) { W_ENDED_ERR } else if matches!(result, Some(Ok(()))) { W_ENDED_OK } else { 0 };
    }
    let mut h = Fnv::default();
    for e in &obs.events {
        h.str(&format!("{e:?}"));
    }
    h.byte(u8::from(task_done) | u8::from(matches!(result, Some(Err(_)))) << 1);
    h.u64(frames.len() as u64);
    drop(obs);
    let out = RunOutput {
        blocked: false,
        steps: w.sim.steps,
        fingerprints: fps,
        outcome: h.0,
        violations: viol,
        witnesses: wit,
        horizon,
        rendering: render.then(|| {
            w.sim
                .log
                .iter()
                .map(|s| match s {
                    Step::Extra(k) => format!("raw(piece {k}: {:02x?}{})", &pieces[*k][..pieces[*k].len().min(12)], if pieces[*k].len() > 12 { format!(".. {} octets", pieces[*k].len()) } else { String::new() }),
                    o => w.sim.describe(o),
                })
                .collect::<Vec<_>>()
                .join(" ")
        }),
    };
    w.sim.teardown();
    out
}

pub fn run(args: &Args) -> Report {
    let mut rep = Report::new("C10", &args.tier, "psim", "fault_enumeration");
    let thorough = args.thorough();
    let mut seqs: Vec<Vec<El>> = ALPHABET.iter().map(|e| vec![*e]).collect();
    if thorough {
        for a in ALPHABET {
            for b in ALPHABET {
                seqs.push(vec![a, b]);
            }
        }
    }
    let mut cases = Vec::new();
    for side in [1usize, 0] {
        for seq in &seqs {
            // every element at once, and in pieces of 5 octets (shorter than a masked header): single elements only
            for chunk in if seq.len() == 1 { vec![0usize, 5] } else { vec![0] } {
                let cfg = Cfg { side, seq: seq.clone(), chunk };
                let label = format!("{LABEL_PREFIX}raw byte-level peer sends {seq:?} to the {} endpoint, {}", if side == 0 { "client-role" } else { "server-role" }, if chunk == 0 { "each element in one piece".to_string() } else { format!("in pieces of {chunk} octets") });
                cases.push(Case { try_unbounded: false, max_k: if seq.len() == 1 { u32::MAX } else { 2 }, label, exec: Box::new(move |r| exec(&cfg, r)) });
            }
        }
    }
    let plan = Plan {
        // (the schedules are short, some twenty steps, k <= 1 gives only 1 802 executions: the quick tier goes to k <= 2)
        ks: if thorough { vec![0, 1, 2, 3] } else { vec![0, 1, 2] },
        env: 0,
        fault: 0,
        total_wall: Duration::from_secs(if thorough { 900 } else { 40 }),
        max_execs_per_case: 2_000_000,
        required_witnesses: W_CONTINUED | W_ENDED_ERR | W_ENDED_OK | W_PONG_ECHOED | W_FRAGMENTS_REASSEMBLED | W_IN_PIECES | W_FOLLOW_UP_ARRIVED | W_PENDING_RESOLVED_CLOSED,
        adaptive: thorough,
        witness_names: &[
            ("connection_went_on", W_CONTINUED),
            ("connection_ended_with_error", W_ENDED_ERR),
            ("connection_ended_orderly", W_ENDED_OK),
            ("ping_answered_with_same_payload", W_PONG_ECHOED),
            ("fragmented_push_delivered", W_FRAGMENTS_REASSEMBLED),
            ("element_sent_in_pieces", W_IN_PIECES),
            ("push_behind_the_element_arrived", W_FOLLOW_UP_ARRIVED),
            ("pending_operations_resolved_closed", W_PENDING_RESOLVED_CLOSED),
        ],
    };
    rep.rule = format!("psim over REAL tungstenite, raw byte-level peer: one real Multiplexor endpoint (server role and client role) whose WebSocket is a real tokio_tungstenite::WebSocketStream through the crate's adapter (ws.rs); set-up: the peer opens a bystander stream (Connect + Push as proper Binary WebSocket frames, masked when the peer is the client), the application has a stream read, accept_stream_channel, get_datagram and a new_stream_channel (Connect never answered) pending. Then the peer sends {} of an alphabet of {} WebSocket-level elements (Text: empty / 10 / 200 ASCII octets / a two-octet character straddling octet 64 / right behind octet 64 / invalid UTF-8; Binary: empty / 1 / 4 octets / unassigned penguin opcode; Ping with 0 / 125 / 126 octets, unsolicited Pong; Close 1000 / invalid code / 1-octet payload; a valid Push in two fragments, a lone continuation, a reserved bit, reserved opcode 3, wrong masking for the role, a header announcing 2^40 octets), each at once and in pieces of 5 octets, then one more valid Push unless the element has to end the connection; every schedule with <= k deviations (the peer's pieces are steps). At quiescence: no panic; either the connection task still runs, the bystander has read exactly what was pushed, the pending operations are all still pending, every Ping was answered by a Pong with the same payload and nothing else was sent; or the task has ended and every pending operation has resolved (reads: prefix then 0; the others: Closed). Valid Ping / Pong / fragmented Binary must leave the connection up; Close and WebSocket protocol violations must end it; a Text or Binary message that is no penguin frame may end it (then with an error result) or be ignored", if thorough { "one or two elements" } else { "one element" }, ALPHABET.len());
    rep.assumptions = vec![
        "the peer's pieces are delivered in order; a piece is one injection into the byte pipe (unbounded capacity), one deliver step moves everything in flight".into(),
        "Text messages are chosen so that their octets are no valid penguin frame (first octet 'a' = version 6), so 'ignored' and 'ends with an error' are the only acceptable outcomes".into(),
    ];
    run_cases(args, &mut rep, cases, &plan);
    rep
}
