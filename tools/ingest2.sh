#!/bin/bash
# tools/ingest2.sh <seed dir name> : confirm + detect one seed already copied under seeded/ (at most three at a time)
n=$1; D=/verif/seeded/$n
slot=0
while :; do
  for k in 1 2 3; do
    exec 9>/tmp/seedq.$k.lock
    if flock -n 9; then slot=$k; break 2; fi
  done
  sleep 5
done
cd /verif
SV=/tmp/sv$slot tools/confirm_seed.sh seeded/$n > $D/confirm.log 2>&1
MUT=/tmp/mutm$slot ONLY=$n tools/seed_matrix.sh > $D/detect.log 2>&1
rm -rf /tmp/mutm$slot-out-*
echo "done $n: $(jq -c '.confirmed' $D/confirm.json) $(jq -c '[.caught_by,.not_caught_by]' $D/detect.json)" >> /tmp/ingest.log
