//! C08 hunt: "when the connection ends, everything resolves".
//!
//! Every test here only uses the public API of `penguin-mux` and either the real
//! `tokio-tungstenite` transport over an in-memory duplex pipe, or a tiny scripted
//! in-memory `WebSocket` whose two directions can be failed independently.
//
// SPDX-License-Identifier: Apache-2.0 OR GPL-3.0-or-later

use bytes::Bytes;
use penguin_mux::config::Options;
use penguin_mux::frame::{Frame, OpCode};
use penguin_mux::timing::OptionalDuration;
use penguin_mux::ws::{Message, WebSocket};
use penguin_mux::{Datagram, Error, Multiplexor};
use std::collections::VecDeque;
use std::sync::{Arc, Mutex};
use std::task::{Context, Poll, Waker};
use std::time::Duration;
use tokio::io::AsyncReadExt;
use tokio::task::JoinSet;

// ---------------------------------------------------------------------------
// A scripted in-memory WebSocket
// ---------------------------------------------------------------------------

#[derive(Clone, Copy, PartialEq, Eq, Debug)]
enum SinkMode {
    /// Everything handed to the sink reaches the peer at once
    Healthy,
    /// The outbound direction has been cut. Like `tokio-tungstenite`, the sink accepts
    /// messages into its write buffer and reports the failure when it flushes or closes.
    Broken,
}

#[derive(Debug)]
struct Wire {
    /// Messages that reached the peer, in order
    to_peer: Vec<Message>,
    /// Messages accepted by the sink and not flushed yet
    write_buffer: Vec<Message>,
    /// Messages the peer has sent and we have not read yet
    from_peer: VecDeque<Message>,
    /// The peer ended the inbound direction (the source yields `None` once drained)
    from_peer_ended: bool,
    sink: SinkMode,
    /// `poll_close` completed
    sink_closed: bool,
    source_waker: Option<Waker>,
}

#[derive(Clone, Debug)]
struct Peer(Arc<Mutex<Wire>>);

struct ScriptedWs(Arc<Mutex<Wire>>);

fn scripted_pair() -> (ScriptedWs, Peer) {
    let wire = Arc::new(Mutex::new(Wire {
        to_peer: Vec::new(),
        write_buffer: Vec::new(),
        from_peer: VecDeque::new(),
        from_peer_ended: false,
        sink: SinkMode::Healthy,
        sink_closed: false,
        source_waker: None,
    }));
    (ScriptedWs(wire.clone()), Peer(wire))
}

impl Peer {
    fn send(&self, msg: impl Into<Message>) {
        let mut w = self.0.lock().unwrap();
        w.from_peer.push_back(msg.into());
        if let Some(waker) = w.source_waker.take() {
            waker.wake();
        }
    }
    fn cut_outbound(&self) {
        self.0.lock().unwrap().sink = SinkMode::Broken;
    }
    /// Opcodes and flow ids of the binary messages that reached the peer
    fn received(&self) -> Vec<(OpCode, u32)> {
        self.0
            .lock()
            .unwrap()
            .to_peer
            .iter()
            .filter_map(|m| match m {
                Message::Binary(b) => {
                    let f = Frame::try_from(b.clone()).unwrap();
                    Some((f.opcode(), f.id))
                }
                _ => None,
            })
            .collect()
    }
    async fn wait_for(&self, what: (OpCode, u32)) {
        for _ in 0..500 {
            if self.received().contains(&what) {
                return;
            }
            tokio::time::sleep(Duration::from_millis(10)).await;
        }
        panic!("peer never received {what:?}: {:?}", self.received());
    }
}

fn broken() -> Error {
    Error::WebSocket(Box::new(std::io::Error::from(
        std::io::ErrorKind::ConnectionReset,
    )))
}

impl WebSocket for ScriptedWs {
    fn poll_ready_unpin(&mut self, _cx: &mut Context<'_>) -> Poll<Result<(), Error>> {
        Poll::Ready(Ok(()))
    }
    fn start_send_unpin(&mut self, item: Message) -> Result<(), Error> {
        self.0.lock().unwrap().write_buffer.push(item);
        Ok(())
    }
    fn poll_flush_unpin(&mut self, _cx: &mut Context<'_>) -> Poll<Result<(), Error>> {
        let mut w = self.0.lock().unwrap();
        match w.sink {
            SinkMode::Healthy => {
                let buffered = std::mem::take(&mut w.write_buffer);
                w.to_peer.extend(buffered);
                Poll::Ready(Ok(()))
            }
            SinkMode::Broken => Poll::Ready(Err(broken())),
        }
    }
    fn poll_close_unpin(&mut self, cx: &mut Context<'_>) -> Poll<Result<(), Error>> {
        {
            let mut w = self.0.lock().unwrap();
            if !w.sink_closed {
                w.sink_closed = true;
                w.write_buffer.push(Message::Close);
            }
        }
        self.poll_flush_unpin(cx)
    }
    fn poll_next_unpin(&mut self, cx: &mut Context<'_>) -> Poll<Option<Result<Message, Error>>> {
        let mut w = self.0.lock().unwrap();
        if let Some(m) = w.from_peer.pop_front() {
            return Poll::Ready(Some(Ok(m)));
        }
        if w.from_peer_ended {
            return Poll::Ready(None);
        }
        w.source_waker = Some(cx.waker().clone());
        Poll::Pending
    }
}

/// How long an operation may stay pending after the connection has ended before the
/// test declares it blocked forever.
const GRACE: Duration = Duration::from_secs(5);

// ---------------------------------------------------------------------------
// Finding 1: keepalive expires while the outbound direction is backed up
// ---------------------------------------------------------------------------

/// The peer stops reading (frozen process, black-holed path) while our send direction is
/// backed up, the usual state of a transfer whose peer has just died. The keepalive
/// declares the connection dead, as it should, but then nothing resolves.
///
/// Real `tokio-tungstenite` over `tokio::io::duplex`, exactly like the crate's own tests.
#[tokio::test]
async fn keepalive_expiry_with_backed_up_sink_resolves_pending_calls() {
    use tokio_tungstenite::{WebSocketStream, tungstenite::protocol::Role};
    let (c, frozen_peer) = tokio::io::duplex(64);
    let client = WebSocketStream::from_raw_socket(c, Role::Client, None).await;
    let options = Options::new()
        .keepalive_interval(OptionalDuration::from_secs(1))
        .keepalive_timeout(OptionalDuration::from_secs(2));
    let mut task = JoinSet::new();
    let mux = Multiplexor::new_with_opt(client, options, Some(&mut task));
    // 1 KiB does not fit in the 64-byte pipe: the sink is backed up from now on
    mux.send_datagram(Datagram {
        flow_id: 1,
        target_host: Bytes::from_static(b"example.com"),
        target_port: 53,
        data: Bytes::from(vec![0u8; 1024]),
    })
    .await
    .unwrap();
    // No `Pong` can ever arrive: the keepalive expires after 2..=3 s.
    let pending = tokio::time::timeout(Duration::from_secs(3) + GRACE, mux.get_datagram()).await;
    let task_result = tokio::time::timeout(Duration::from_millis(100), task.join_next()).await;
    drop(frozen_peer);
    let pending =
        pending.expect("`get_datagram` is still pending 5 s after the keepalive expired");
    assert!(matches!(pending, Err(Error::Closed)), "{pending:?}");
    let task_result = task_result.expect("task still running").unwrap().unwrap();
    assert!(
        matches!(task_result, Err(Error::KeepaliveTimeout)),
        "{task_result:?}"
    );
}

// ---------------------------------------------------------------------------
// Finding 2a: handle dropped, outbound direction cut
// ---------------------------------------------------------------------------

/// The outbound direction is cut (nothing notices: nothing is being sent and there is no
/// keepalive), then the `Multiplexor` is dropped while a reader is blocked on a stream.
/// The queued frames cannot be flushed and `Close` cannot be sent, which the task sees as
/// errors, and yet it then waits for the peer to answer the `Close` it never received.
#[tokio::test]
async fn drop_after_outbound_cut_resolves_blocked_reader() {
    let (ws, peer) = scripted_pair();
    let mut task = JoinSet::new();
    let mux = Multiplexor::new_with_opt(ws, Options::new(), Some(&mut task));
    // The peer opens flow 7 and sends "hello"
    peer.send(Frame::new_connect(b"", 0, 7, 4));
    let mut stream = mux.accept_stream_channel().await.unwrap();
    peer.wait_for((OpCode::Acknowledge, 7)).await;
    peer.send(Frame::new_push(7, b"hello"));
    let reader = tokio::spawn(async move {
        let mut all = Vec::new();
        stream.read_to_end(&mut all).await.map(|_| all)
    });
    tokio::time::sleep(Duration::from_millis(50)).await;
    // Cut our -> peer only; peer -> us stays up and silent
    peer.cut_outbound();
    drop(mux);
    let read = tokio::time::timeout(GRACE, reader).await;
    let task_result = tokio::time::timeout(Duration::from_millis(100), task.join_next()).await;
    let read = read
        .expect("blocked reader still pending 5 s after the `Multiplexor` was dropped")
        .unwrap();
    // data already delivered, then end-of-stream
    assert_eq!(read.unwrap(), b"hello");
    assert!(task_result.is_ok(), "task still running");
}

/// The same history with the real `tokio-tungstenite` on both ends and a real peer
/// `Multiplexor`: only the byte pipe under our end is rigged so that writes fail once the
/// outbound direction is cut, while reads keep working.
#[tokio::test]
async fn drop_after_outbound_cut_resolves_blocked_reader_tungstenite() {
    use std::pin::Pin;
    use std::sync::atomic::{AtomicBool, Ordering};
    use tokio::io::{AsyncRead, AsyncWrite, AsyncWriteExt, ReadBuf};
    use tokio_tungstenite::{WebSocketStream, tungstenite::protocol::Role};

    struct HalfCut<T>(T, Arc<AtomicBool>);
    impl<T: AsyncRead + Unpin> AsyncRead for HalfCut<T> {
        fn poll_read(
            mut self: Pin<&mut Self>,
            cx: &mut Context<'_>,
            buf: &mut ReadBuf<'_>,
        ) -> Poll<std::io::Result<()>> {
            Pin::new(&mut self.0).poll_read(cx, buf)
        }
    }
    impl<T: AsyncWrite + Unpin> AsyncWrite for HalfCut<T> {
        fn poll_write(
            mut self: Pin<&mut Self>,
            cx: &mut Context<'_>,
            buf: &[u8],
        ) -> Poll<std::io::Result<usize>> {
            if self.1.load(Ordering::SeqCst) {
                return Poll::Ready(Err(std::io::ErrorKind::BrokenPipe.into()));
            }
            Pin::new(&mut self.0).poll_write(cx, buf)
        }
        fn poll_flush(mut self: Pin<&mut Self>, cx: &mut Context<'_>) -> Poll<std::io::Result<()>> {
            if self.1.load(Ordering::SeqCst) {
                return Poll::Ready(Err(std::io::ErrorKind::BrokenPipe.into()));
            }
            Pin::new(&mut self.0).poll_flush(cx)
        }
        fn poll_shutdown(
            mut self: Pin<&mut Self>,
            cx: &mut Context<'_>,
        ) -> Poll<std::io::Result<()>> {
            if self.1.load(Ordering::SeqCst) {
                return Poll::Ready(Err(std::io::ErrorKind::BrokenPipe.into()));
            }
            Pin::new(&mut self.0).poll_shutdown(cx)
        }
    }

    let cut = Arc::new(AtomicBool::new(false));
    let (c, s) = tokio::io::duplex(4096);
    let ours =
        WebSocketStream::from_raw_socket(HalfCut(c, cut.clone()), Role::Client, None).await;
    let theirs = WebSocketStream::from_raw_socket(s, Role::Server, None).await;
    let mut task = JoinSet::new();
    let mux = Multiplexor::new_with_opt(ours, Options::new(), Some(&mut task));
    let peer_mux = Multiplexor::new(theirs);
    let (mut peer_stream, stream) =
        tokio::join!(peer_mux.new_stream_channel(b"", 0), mux.accept_stream_channel());
    let (peer_stream, mut stream) = (peer_stream.as_mut().unwrap(), stream.unwrap());
    peer_stream.write_all(b"hello").await.unwrap();
    let reader = tokio::spawn(async move {
        let mut all = Vec::new();
        stream.read_to_end(&mut all).await.map(|_| all)
    });
    tokio::time::sleep(Duration::from_millis(50)).await;
    cut.store(true, Ordering::SeqCst);
    drop(mux);
    let read = tokio::time::timeout(GRACE, reader).await;
    let task_result = tokio::time::timeout(Duration::from_millis(100), task.join_next()).await;
    let read = read
        .expect("blocked reader still pending 5 s after the `Multiplexor` was dropped")
        .unwrap();
    assert_eq!(read.unwrap(), b"hello");
    assert!(task_result.is_ok(), "task still running");
    drop(peer_mux);
}

// ---------------------------------------------------------------------------
// Finding 2b: handle dropped, then the transport goes silent; keepalive is configured
// ---------------------------------------------------------------------------

/// The `Multiplexor` is dropped on a healthy connection with a keepalive configured; the
/// `Close` goes out, and the peer (or the path) dies before answering. The keepalive
/// stopped running when the handle was dropped, so this is never detected.
#[tokio::test]
async fn drop_then_silent_peer_is_detected_by_keepalive() {
    let (ws, peer) = scripted_pair();
    let options = Options::new()
        .keepalive_interval(OptionalDuration::from_secs(1))
        .keepalive_timeout(OptionalDuration::from_secs(2));
    let mut task = JoinSet::new();
    let mux = Multiplexor::new_with_opt(ws, options, Some(&mut task));
    peer.send(Frame::new_connect(b"", 0, 7, 4));
    let mut stream = mux.accept_stream_channel().await.unwrap();
    peer.wait_for((OpCode::Acknowledge, 7)).await;
    let reader = tokio::spawn(async move {
        let mut all = Vec::new();
        stream.read_to_end(&mut all).await.map(|_| all)
    });
    tokio::time::sleep(Duration::from_millis(50)).await;
    drop(mux);
    // the peer never answers the `Close`, never sends anything again
    let read = tokio::time::timeout(Duration::from_secs(3) + GRACE, reader).await;
    assert!(
        peer.0.lock().unwrap().to_peer.contains(&Message::Close),
        "Close was sent"
    );
    read.expect("blocked reader still pending 8 s after drop; keepalive timeout is 2 s")
        .unwrap()
        .unwrap();
}

// ---------------------------------------------------------------------------
// Finding 3: a pending open request reports `FlowIdRejected` instead of `Closed`
// ---------------------------------------------------------------------------

/// The connection ends (the peer sends `Close`) while `new_stream_channel` is waiting for
/// the answer to its last permitted `Connect`.
#[tokio::test]
async fn pending_open_request_on_last_retry_returns_closed() {
    let (ws, peer) = scripted_pair();
    let mux = Multiplexor::new_with_opt(ws, Options::new().max_flow_id_retries(1), None);
    let open = mux.new_stream_channel(b"example.com", 80);
    let script = async {
        // wait for the `Connect`, then close the connection
        for _ in 0..500 {
            if peer.received().iter().any(|(op, _)| *op == OpCode::Connect) {
                break;
            }
            tokio::time::sleep(Duration::from_millis(10)).await;
        }
        peer.send(Message::Close);
        peer.0.lock().unwrap().from_peer_ended = true;
    };
    let (r, ()) = tokio::join!(open, script);
    let e = r.expect_err("the connection is closed");
    assert!(matches!(e, Error::Closed), "expected `Closed`, got `{e:?}`");
}

/// Same with the default options: two genuine rejections first, then the connection ends
/// while the third `Connect` is pending.
#[tokio::test]
async fn pending_open_request_after_two_rejections_returns_closed() {
    let (ws, peer) = scripted_pair();
    let mux = Multiplexor::new_with_opt(ws, Options::new(), None);
    let open = mux.new_stream_channel(b"example.com", 80);
    let script = async {
        let mut answered = 0;
        for _ in 0..500 {
            let connects: Vec<u32> = peer
                .received()
                .into_iter()
                .filter(|(op, _)| *op == OpCode::Connect)
                .map(|(_, id)| id)
                .collect();
            while answered < connects.len() && answered < 2 {
                peer.send(Frame::new_reset(connects[answered]));
                answered += 1;
            }
            if connects.len() == 3 {
                break;
            }
            tokio::time::sleep(Duration::from_millis(10)).await;
        }
        peer.send(Message::Close);
        peer.0.lock().unwrap().from_peer_ended = true;
    };
    let (r, ()) = tokio::join!(open, script);
    let e = r.expect_err("the connection is closed");
    assert!(matches!(e, Error::Closed), "expected `Closed`, got `{e:?}`");
}

// ---------------------------------------------------------------------------
// Finding 4: the peer's `Close` is never read while the accept queue is full
// ---------------------------------------------------------------------------

/// The application does not accept incoming streams (a pure client, like the `penguin`
/// client, never does). The peer opens one stream more than the accept queue holds and
/// then closes the connection in an orderly way.
#[tokio::test]
async fn peer_close_is_seen_while_accept_queue_is_full() {
    let (ws, peer) = scripted_pair();
    let mut task = JoinSet::new();
    let mux = Multiplexor::new_with_opt(ws, Options::new().stream_buffer_size(1), Some(&mut task));
    peer.send(Frame::new_connect(b"", 0, 7, 4));
    peer.send(Frame::new_connect(b"", 0, 8, 4));
    // whatever the answer to the second `Connect` is (today: `Acknowledge`)
    for _ in 0..500 {
        if peer.received().iter().any(|(_, id)| *id == 8) {
            break;
        }
        tokio::time::sleep(Duration::from_millis(10)).await;
    }
    peer.send(Message::Close);
    peer.0.lock().unwrap().from_peer_ended = true;
    let pending = tokio::time::timeout(GRACE, mux.get_datagram()).await;
    let pending = pending.expect("`get_datagram` still pending 5 s after the peer closed");
    assert!(matches!(pending, Err(Error::Closed)), "{pending:?}");
}

// ---------------------------------------------------------------------------
// Finding 5: the task future is cancelled (what the `penguin` client does on every
// reconnect caused by a failed stream request: it drops the `JoinSet` the task lives in)
// ---------------------------------------------------------------------------

#[tokio::test]
async fn cancelled_task_wakes_blocked_writer() {
    use tokio::io::AsyncWriteExt;
    let (ws, peer) = scripted_pair();
    let mut task = JoinSet::new();
    let mux = Multiplexor::new_with_opt(ws, Options::new(), Some(&mut task));
    // The peer grants one frame of credit
    peer.send(Frame::new_connect(b"", 0, 7, 1));
    let mut stream = mux.accept_stream_channel().await.unwrap();
    stream.write_all(b"a").await.unwrap();
    let writer = tokio::spawn(async move { stream.write_all(b"b").await });
    tokio::time::sleep(Duration::from_millis(50)).await;
    assert!(!writer.is_finished(), "the writer is parked waiting for credit");
    // same order as the locals of `on_connected` in penguin/src/client/mod.rs
    drop(mux);
    drop(task);
    let r = tokio::time::timeout(GRACE, writer)
        .await
        .expect("blocked writer still pending 5 s after the connection was torn down")
        .unwrap();
    assert_eq!(r.unwrap_err().kind(), std::io::ErrorKind::BrokenPipe);
}

// ---------------------------------------------------------------------------
// Control: the same harness, healthy transport (passes on the unmodified tree)
// ---------------------------------------------------------------------------

/// Frames queued before the drop are flushed in order, then `Close`; once the peer answers
/// everything resolves.
#[tokio::test]
async fn control_drop_on_healthy_transport_flushes_and_resolves() {
    use tokio::io::AsyncWriteExt;
    let (ws, peer) = scripted_pair();
    let mut task = JoinSet::new();
    let mux = Multiplexor::new_with_opt(ws, Options::new(), Some(&mut task));
    peer.send(Frame::new_connect(b"", 0, 7, 4));
    let mut s7 = mux.accept_stream_channel().await.unwrap();
    peer.send(Frame::new_connect(b"", 0, 8, 4));
    let s8 = mux.accept_stream_channel().await.unwrap();
    s7.write_all(b"a").await.unwrap();
    s7.write_all(b"b").await.unwrap();
    s7.shutdown().await.unwrap();
    drop(s8);
    mux.send_datagram(Datagram {
        flow_id: 9,
        target_host: Bytes::from_static(b"h"),
        target_port: 1,
        data: Bytes::from_static(b"d"),
    })
    .await
    .unwrap();
    drop(mux);
    for _ in 0..500 {
        if peer.0.lock().unwrap().sink_closed {
            break;
        }
        tokio::time::sleep(Duration::from_millis(10)).await;
    }
    let got = peer.received();
    let want = [
        (OpCode::Acknowledge, 7),
        (OpCode::Acknowledge, 8),
        (OpCode::Push, 7),
        (OpCode::Push, 7),
        (OpCode::Finish, 7),
        (OpCode::Datagram, 9),
        (OpCode::Reset, 8),
    ];
    assert_eq!(got, want);
    assert_eq!(
        peer.0.lock().unwrap().to_peer.last(),
        Some(&Message::Close)
    );
    // peer answers
    peer.send(Message::Close);
    peer.0.lock().unwrap().from_peer_ended = true;
    let mut all = Vec::new();
    tokio::time::timeout(GRACE, s7.read_to_end(&mut all))
        .await
        .unwrap()
        .unwrap();
    tokio::time::timeout(GRACE, task.join_next())
        .await
        .unwrap()
        .unwrap()
        .unwrap()
        .unwrap();
}

/// Control with the real transport: a full window of data, `Finish`, then the stream and the
/// `Multiplexor` are dropped at once over a tiny pipe. Everything still arrives, in order.
#[tokio::test]
async fn control_drop_flushes_a_full_window_tungstenite() {
    use tokio::io::AsyncWriteExt;
    use tokio_tungstenite::{WebSocketStream, tungstenite::protocol::Role};
    let (c, s) = tokio::io::duplex(16);
    let ours = WebSocketStream::from_raw_socket(c, Role::Client, None).await;
    let theirs = WebSocketStream::from_raw_socket(s, Role::Server, None).await;
    let mut task = JoinSet::new();
    let mux = Multiplexor::new_with_opt(ours, Options::new().rwnd(8), Some(&mut task));
    let peer_mux = Multiplexor::new_with_opt(theirs, Options::new().rwnd(64), None);
    let (stream, peer_stream) =
        tokio::join!(mux.new_stream_channel(b"", 0), peer_mux.accept_stream_channel());
    let (mut stream, mut peer_stream) = (stream.unwrap(), peer_stream.unwrap());
    let mut expected = Vec::new();
    for i in 0..64u8 {
        let chunk = vec![i; 1000];
        stream.write_all(&chunk).await.unwrap();
        expected.extend(chunk);
    }
    stream.shutdown().await.unwrap();
    mux.send_datagram(Datagram {
        flow_id: 9,
        target_host: Bytes::from_static(b"h"),
        target_port: 1,
        data: Bytes::from_static(b"last"),
    })
    .await
    .unwrap();
    drop(stream);
    drop(mux);
    let mut all = Vec::new();
    tokio::time::timeout(GRACE, peer_stream.read_to_end(&mut all))
        .await
        .unwrap()
        .unwrap();
    assert_eq!(all, expected);
    let d = tokio::time::timeout(GRACE, peer_mux.get_datagram())
        .await
        .unwrap()
        .unwrap();
    assert_eq!(d.data, Bytes::from_static(b"last"));
    let e = tokio::time::timeout(GRACE, peer_mux.get_datagram())
        .await
        .unwrap()
        .unwrap_err();
    assert!(matches!(e, Error::Closed));
    tokio::time::timeout(GRACE, task.join_next())
        .await
        .unwrap()
        .unwrap()
        .unwrap()
        .unwrap();
}

/// Control: a writer parked on credit, a blocked reader, a pending accept, a pending datagram
/// receive, a pending open request and a pending bind request when the peer sends `Close`.
#[tokio::test]
async fn control_peer_close_resolves_every_pending_operation() {
    use penguin_mux::frame::BindType;
    use tokio::io::AsyncWriteExt;
    let (ws, peer) = scripted_pair();
    let mux = Arc::new(Multiplexor::new_with_opt(ws, Options::new(), None));
    peer.send(Frame::new_connect(b"", 0, 7, 1));
    let stream = mux.accept_stream_channel().await.unwrap();
    peer.send(Frame::new_push(7, b"hello"));
    let (mut rd, mut wr) = tokio::io::split(stream);
    wr.write_all(b"a").await.unwrap();
    let writer = tokio::spawn(async move { wr.write_all(b"b").await });
    let reader = tokio::spawn(async move {
        let mut all = Vec::new();
        rd.read_to_end(&mut all).await.map(|_| all)
    });
    let m = mux.clone();
    let accept = tokio::spawn(async move { m.accept_stream_channel().await.map(|_| ()) });
    let m = mux.clone();
    let dgram = tokio::spawn(async move { m.get_datagram().await.map(|_| ()) });
    let m = mux.clone();
    let open = tokio::spawn(async move { m.new_stream_channel(b"x", 1).await.map(|_| ()) });
    let m = mux.clone();
    let bind = tokio::spawn(async move { m.request_bind(b"x", 1, BindType::Stream).await });
    tokio::time::sleep(Duration::from_millis(100)).await;
    peer.send(Message::Close);
    peer.0.lock().unwrap().from_peer_ended = true;
    let r = tokio::time::timeout(GRACE, async {
        (
            writer.await.unwrap(),
            reader.await.unwrap(),
            accept.await.unwrap(),
            dgram.await.unwrap(),
            open.await.unwrap(),
            bind.await.unwrap(),
        )
    })
    .await
    .expect("something is still pending");
    assert_eq!(r.0.unwrap_err().kind(), std::io::ErrorKind::BrokenPipe);
    assert_eq!(r.1.unwrap(), b"hello");
    assert!(matches!(r.2, Err(Error::Closed)));
    assert!(matches!(r.3, Err(Error::Closed)));
    assert!(matches!(r.4, Err(Error::Closed)));
    assert!(matches!(r.5, Ok(false)));
    // later operations
    assert!(matches!(mux.accept_stream_channel().await, Err(Error::Closed)));
    assert!(matches!(mux.new_stream_channel(b"x", 1).await, Err(Error::Closed)));
    assert!(matches!(
        mux.request_bind(b"x", 1, BindType::Stream).await,
        Err(Error::Closed)
    ));
}
