//! C03 demonstration: a `MuxStream` whose flow has been closed AND whose flow id has been
//! opened again by the peer still puts a `Push` frame on the wire under that id, if the
//! close happens between the "may I write?" check and the actual send. In
//! `CopyBidirectional::poll_write_us` that window contains calls into the local I/O object
//! (`other.poll_fill_buf`, the coalescing loop), so it is as wide as the local side is slow.
//!
//! The stale frame is delivered to the NEW flow: the new flow's sender (which did nothing
//! wrong) has its full window of credit, the receiver's queue already holds the foreign frame,
//! so the window is overrun and the innocent new stream is reset.
//!
//! Only the public API is used. Two conforming endpoints, an in-memory WebSocket that records
//! the wire, a scripted flow-id generator on the opening side (`Multiplexor::new_detailed`).
//
// SPDX-License-Identifier: Apache-2.0 OR GPL-3.0-or-later

use bytes::Bytes;
use penguin_mux::config::Options;
use penguin_mux::ws::{Message, WebSocket};
use penguin_mux::{Error, Multiplexor};
use std::collections::VecDeque;
use std::pin::Pin;
use std::sync::atomic::{AtomicBool, AtomicUsize, Ordering};
use std::sync::{Arc, Condvar, Mutex};
use std::task::{Context, Poll, Waker};
use std::time::Duration;
use tokio::io::{AsyncBufRead, AsyncRead, AsyncWrite, AsyncWriteExt, ReadBuf};

// ---------------------------------------------------------------------------------------------
// In-memory WebSocket with a wire log
// ---------------------------------------------------------------------------------------------

#[derive(Default)]
struct Pipe {
    q: Mutex<(VecDeque<Message>, Option<Waker>)>,
    /// Deliveries are withheld (frames stay "on the wire") while this is set
    held: AtomicBool,
}
impl Pipe {
    fn hold(&self) {
        self.held.store(true, Ordering::SeqCst);
    }
    fn release(&self) {
        self.held.store(false, Ordering::SeqCst);
        if let Some(w) = self.q.lock().unwrap().1.take() {
            w.wake();
        }
    }
}

#[derive(Clone, Copy, Debug, PartialEq, Eq)]
enum Dir {
    AtoB,
    BtoA,
}

type WireLog = Arc<Mutex<Vec<(Dir, Bytes)>>>;

struct MemWs {
    dir: Dir,
    tx: Arc<Pipe>,
    rx: Arc<Pipe>,
    log: WireLog,
    eof: bool,
}

impl WebSocket for MemWs {
    fn poll_ready_unpin(&mut self, _cx: &mut Context<'_>) -> Poll<Result<(), Error>> {
        Poll::Ready(Ok(()))
    }
    fn start_send_unpin(&mut self, item: Message) -> Result<(), Error> {
        if let Message::Binary(b) = &item {
            self.log.lock().unwrap().push((self.dir, b.clone()));
        }
        let mut g = self.tx.q.lock().unwrap();
        g.0.push_back(item);
        if !self.tx.held.load(Ordering::SeqCst) {
            if let Some(w) = g.1.take() {
                w.wake();
            }
        }
        Ok(())
    }
    fn poll_flush_unpin(&mut self, _cx: &mut Context<'_>) -> Poll<Result<(), Error>> {
        Poll::Ready(Ok(()))
    }
    fn poll_close_unpin(&mut self, _cx: &mut Context<'_>) -> Poll<Result<(), Error>> {
        let mut g = self.tx.q.lock().unwrap();
        g.0.push_back(Message::Close);
        if let Some(w) = g.1.take() {
            w.wake();
        }
        Poll::Ready(Ok(()))
    }
    fn poll_next_unpin(&mut self, cx: &mut Context<'_>) -> Poll<Option<Result<Message, Error>>> {
        if self.eof {
            return Poll::Ready(None);
        }
        let mut g = self.rx.q.lock().unwrap();
        if self.rx.held.load(Ordering::SeqCst) {
            g.1 = Some(cx.waker().clone());
            return Poll::Pending;
        }
        match g.0.pop_front() {
            Some(Message::Close) => {
                self.eof = true;
                Poll::Ready(Some(Ok(Message::Close)))
            }
            Some(m) => Poll::Ready(Some(Ok(m))),
            None => {
                g.1 = Some(cx.waker().clone());
                Poll::Pending
            }
        }
    }
}

fn ws_pair() -> (MemWs, MemWs, WireLog) {
    let (a, b, log, _) = ws_pair_with_pipes();
    (a, b, log)
}

/// The last element is the A -> B pipe
fn ws_pair_with_pipes() -> (MemWs, MemWs, WireLog, Arc<Pipe>) {
    let ab = Arc::new(Pipe::default());
    let ba = Arc::new(Pipe::default());
    let log: WireLog = Arc::default();
    (
        MemWs {
            dir: Dir::AtoB,
            tx: ab.clone(),
            rx: ba.clone(),
            log: log.clone(),
            eof: false,
        },
        MemWs {
            dir: Dir::BtoA,
            tx: ba,
            rx: ab.clone(),
            log: log.clone(),
            eof: false,
        },
        log,
        ab,
    )
}

// Frame layout (PROTOCOL.md): 1 byte ver/op, 4 bytes flow id, payload
const OP_CONNECT: u8 = 0;
const OP_ACK: u8 = 1;
const OP_RESET: u8 = 2;
const OP_PUSH: u8 = 4;
fn op(b: &Bytes) -> u8 {
    b[0] & 0x0f
}
fn id(b: &Bytes) -> u32 {
    u32::from_be_bytes([b[1], b[2], b[3], b[4]])
}
fn arg(b: &Bytes) -> u32 {
    u32::from_be_bytes([b[5], b[6], b[7], b[8]])
}

// ---------------------------------------------------------------------------------------------
// Scripted flow-id generator: the first `repeat` draws give `first`, later draws count up
// ---------------------------------------------------------------------------------------------

struct ScriptRng {
    first: u32,
    repeat: u32,
    n: u32,
}
impl rand::TryRng for ScriptRng {
    type Error = core::convert::Infallible;
    fn try_next_u32(&mut self) -> Result<u32, Self::Error> {
        self.n += 1;
        Ok(if self.n <= self.repeat {
            self.first
        } else {
            0x1000 + self.n
        })
    }
    fn try_next_u64(&mut self) -> Result<u64, Self::Error> {
        self.try_next_u32().map(u64::from)
    }
    fn try_fill_bytes(&mut self, dst: &mut [u8]) -> Result<(), Self::Error> {
        dst.fill(0);
        Ok(())
    }
}

// ---------------------------------------------------------------------------------------------
// The local side of the bridge: a source that has one chunk ready at once and whose second
// read takes a while (the thread is preempted / the read blocks / the device is slow)
// ---------------------------------------------------------------------------------------------

#[derive(Default)]
struct Rendezvous {
    in_window: AtomicBool,
    resume: Mutex<bool>,
    cv: Condvar,
}

struct SlowSource {
    calls: usize,
    have: Option<&'static [u8]>,
    rv: Arc<Rendezvous>,
    polls_after: Arc<AtomicUsize>,
}

impl AsyncRead for SlowSource {
    fn poll_read(
        self: Pin<&mut Self>,
        _cx: &mut Context<'_>,
        _buf: &mut ReadBuf<'_>,
    ) -> Poll<std::io::Result<()>> {
        unreachable!("the bridge uses `AsyncBufRead`")
    }
}
impl AsyncBufRead for SlowSource {
    fn poll_fill_buf(self: Pin<&mut Self>, _cx: &mut Context<'_>) -> Poll<std::io::Result<&[u8]>> {
        let this = self.get_mut();
        if let Some(have) = this.have {
            return Poll::Ready(Ok(have));
        }
        this.calls += 1;
        match this.calls {
            // First read: data is there
            1 => {
                this.have = Some(b"OLD-STREAM-DATA-1;");
                Poll::Ready(Ok(this.have.unwrap()))
            }
            // Second read (the bridge asks whether it can coalesce more into the same frame):
            // this one is slow. Nothing illegal about it.
            2 => {
                this.rv.in_window.store(true, Ordering::SeqCst);
                let g = this.rv.resume.lock().unwrap();
                let (_g, _t) = this
                    .rv
                    .cv
                    .wait_timeout_while(g, Duration::from_secs(20), |go| !*go)
                    .unwrap();
                this.have = Some(b"OLD-STREAM-DATA-2;");
                Poll::Ready(Ok(this.have.unwrap()))
            }
            // Nothing more for now
            3 => {
                this.polls_after.fetch_add(1, Ordering::SeqCst);
                Poll::Pending
            }
            // and later the local side ends
            _ => Poll::Ready(Ok(&[])),
        }
    }
    fn consume(self: Pin<&mut Self>, amt: usize) {
        let this = self.get_mut();
        let have = this.have.take().unwrap();
        if amt < have.len() {
            this.have = Some(&have[amt..]);
        }
    }
}
impl AsyncWrite for SlowSource {
    fn poll_write(
        self: Pin<&mut Self>,
        _cx: &mut Context<'_>,
        buf: &[u8],
    ) -> Poll<std::io::Result<usize>> {
        Poll::Ready(Ok(buf.len()))
    }
    fn poll_flush(self: Pin<&mut Self>, _cx: &mut Context<'_>) -> Poll<std::io::Result<()>> {
        Poll::Ready(Ok(()))
    }
    fn poll_shutdown(self: Pin<&mut Self>, _cx: &mut Context<'_>) -> Poll<std::io::Result<()>> {
        Poll::Ready(Ok(()))
    }
}

async fn wait_until(what: &str, mut f: impl FnMut() -> bool) {
    for _ in 0..10_000 {
        if f() {
            return;
        }
        tokio::time::sleep(Duration::from_millis(1)).await;
    }
    panic!("timed out waiting for: {what}");
}

const X: u32 = 0x00c0_ffee;
const RWND_A: u32 = 3;

#[tokio::test(flavor = "multi_thread", worker_threads = 2)]
async fn closed_stream_pushes_onto_the_flow_that_reuses_its_id() {
    let (ws_a, ws_b, log) = ws_pair();
    // Asymmetric settings, all legal
    let opt_a = Options::new().rwnd(RWND_A).default_rwnd_threshold(2);
    let opt_b = Options::new().rwnd(5).default_rwnd_threshold(1);
    let (mux_a, task_a) = Multiplexor::new_detailed::<_, std::time::Instant>(
        ws_a,
        opt_a,
        ScriptRng {
            first: X,
            repeat: 2,
            n: 0,
        },
    );
    let (mux_b, task_b) = Multiplexor::new_detailed::<_, std::time::Instant>(
        ws_b,
        opt_b,
        ScriptRng {
            first: 0x0b0b_0b0b,
            repeat: 0,
            n: 0,
        },
    );
    tokio::spawn(task_a.into_task());
    tokio::spawn(task_b.into_task());

    // --- the old flow -----------------------------------------------------------------------
    let (old_a, old_b) = tokio::join!(mux_a.new_stream_channel(b"old", 1), async {
        mux_b.accept_stream_channel().await
    });
    let old_a = old_a.unwrap();
    let old_b = old_b.unwrap();

    // B's application relays a local source into the old stream, on a thread of its own
    let rv = Arc::new(Rendezvous::default());
    let polls_after = Arc::new(AtomicUsize::new(0));
    let source = SlowSource {
        calls: 0,
        have: None,
        rv: rv.clone(),
        polls_after: polls_after.clone(),
    };
    let bridge_thread = std::thread::spawn(move || {
        let rt = tokio::runtime::Builder::new_current_thread()
            .enable_all()
            .build()
            .unwrap();
        rt.block_on(async move {
            tokio::time::timeout(
                Duration::from_secs(30),
                old_b.into_copy_bidirectional_with_buf(source),
            )
            .await
        })
    });
    // The bridge has checked that the stream is open, has taken one unit of credit, holds the
    // first chunk and is now inside the (slow) second read of its local source.
    wait_until("bridge inside its second local read", || {
        rv.in_window.load(Ordering::SeqCst)
    })
    .await;

    // --- A's application lets go of the old flow, A's endpoint frees the id -----------------
    drop(old_a);
    wait_until("A's Reset of the old flow on the wire", || {
        log.lock()
            .unwrap()
            .iter()
            .any(|(d, b)| *d == Dir::AtoB && op(b) == OP_RESET && id(b) == X)
    })
    .await;

    // --- A opens a new flow and draws the same id again --------------------------------------
    let (new_a, new_b) = tokio::join!(mux_a.new_stream_channel(b"new", 2), async {
        mux_b.accept_stream_channel().await
    });
    let mut new_a = new_a.unwrap();
    let mut new_b = new_b.unwrap();
    // From here on B's endpoint has processed A's Reset (the old flow is closed on B, its slot is
    // gone, `finish_sent` of the old stream is set) and has accepted the new flow on id X.
    let handshake_at = {
        let l = log.lock().unwrap();
        let n_connect = l
            .iter()
            .filter(|(d, b)| *d == Dir::AtoB && op(b) == OP_CONNECT && id(b) == X)
            .count();
        assert_eq!(n_connect, 2, "the script makes A draw the id twice");
        let at = l
            .iter()
            .rposition(|(d, b)| *d == Dir::AtoB && op(b) == OP_CONNECT && id(b) == X)
            .unwrap();
        assert_eq!(arg(&l[at].1), RWND_A, "window advertised for the new flow");
        at
    };

    // --- the old stream's slow read returns --------------------------------------------------
    *rv.resume.lock().unwrap() = true;
    rv.cv.notify_all();
    wait_until("bridge back to idle", || {
        polls_after.load(Ordering::SeqCst) > 0 || bridge_thread.is_finished()
    })
    .await;

    // --- the new flow's writer uses the window it was given, nothing more ---------------------
    // (A's application is not reading yet; that is allowed, this is what the window is for.)
    let writer = tokio::spawn(async move {
        for i in 0..RWND_A {
            // Each write is one frame; with credit exhausted the next one would simply wait
            new_b.write_all(format!("new-{i};").as_bytes()).await?;
        }
        new_b.shutdown().await?;
        Ok::<_, std::io::Error>(new_b)
    });
    let writer_result = tokio::time::timeout(Duration::from_secs(5), writer)
        .await
        .expect("RWND_A writes fit the window and must not block")
        .unwrap();
    // Let A's endpoint process everything that is on the wire
    tokio::time::sleep(Duration::from_millis(200)).await;

    // --- black-box accounting on the wire, new flow, direction B -> A -------------------------
    let (pushes, acked, resets_from_a, foreign) = {
        let l = log.lock().unwrap();
        let after = &l[handshake_at + 1..];
        let pushes: Vec<Bytes> = after
            .iter()
            .filter(|(d, b)| *d == Dir::BtoA && op(b) == OP_PUSH && id(b) == X)
            .map(|(_, b)| b.slice(5..))
            .collect();
        // The first Acknowledge B -> A is the handshake answer; A -> B ones return credit
        let acked: u32 = after
            .iter()
            .filter(|(d, b)| *d == Dir::AtoB && op(b) == OP_ACK && id(b) == X)
            .map(|(_, b)| arg(b))
            .sum();
        let resets_from_a = after
            .iter()
            .filter(|(d, b)| *d == Dir::AtoB && op(b) == OP_RESET && id(b) == X)
            .count();
        let foreign: Vec<String> = pushes
            .iter()
            .filter(|p| p.starts_with(b"OLD"))
            .map(|p| String::from_utf8_lossy(p).into_owned())
            .collect();
        (pushes.len() as u32, acked, resets_from_a, foreign)
    };
    eprintln!(
        "new flow {X:08x}, B->A: window advertised by A = {RWND_A}, Push frames on the wire = \
         {pushes}, credit returned = {acked}, Reset sent by A = {resets_from_a}, \
         Push frames carrying the OLD stream's bytes = {foreign:?}"
    );

    // What A's application sees on the new stream
    let mut got = Vec::new();
    let read = tokio::time::timeout(
        Duration::from_secs(2),
        tokio::io::AsyncReadExt::read_to_end(&mut new_a, &mut got),
    )
    .await;
    eprintln!(
        "A's application reads from the new stream: {:?} (read_to_end: {read:?})",
        String::from_utf8_lossy(&got)
    );
    eprintln!("B's writer on the new stream: {:?}", writer_result.as_ref().map(|_| ()));

    assert!(
        pushes - acked <= RWND_A,
        "C03: B put {pushes} Push frames on the wire of flow {X:08x} with {acked} credit returned, \
         A advertised a window of {RWND_A}"
    );
    assert_eq!(
        resets_from_a, 0,
        "C03: the new stream was reset although its writer stayed within its window"
    );
    assert!(foreign.is_empty(), "bytes of the old stream on the new flow");
    assert_eq!(
        String::from_utf8_lossy(&got),
        "new-0;new-1;new-2;",
        "A's application must read exactly what B's application wrote to the new stream"
    );
    drop(writer_result);
    let _ = bridge_thread.join();
}

/// The same defect without any help from the local I/O object: a plain `write_all` of one large
/// buffer. `poll_write` checks that the stream is open, takes the credit, then COPIES the buffer
/// into the frame and only then queues it. A's `Reset` of the old flow and A's `Connect` that
/// draws the id again are delivered to B's endpoint while B's application thread is copying.
/// (Timing dependent: the deliveries are released 300 us after the writer thread announced its
/// `write`; the copy of 48 MiB takes several milliseconds.)
#[tokio::test(flavor = "multi_thread", worker_threads = 2)]
async fn closed_stream_large_write_lands_on_the_flow_that_reuses_its_id() {
    // 48 MiB / 300 us by default; `C03_BIG` (bytes) and `C03_DELAY_US` override for experiments
    let big_len: usize = std::env::var("C03_BIG")
        .ok()
        .and_then(|s| s.parse().ok())
        .unwrap_or(48 << 20);
    let delay_us: u64 = std::env::var("C03_DELAY_US")
        .ok()
        .and_then(|s| s.parse().ok())
        .unwrap_or(300);
    let (ws_a, ws_b, log, a_to_b) = ws_pair_with_pipes();
    let opt_a = Options::new().rwnd(RWND_A).default_rwnd_threshold(2);
    let opt_b = Options::new().rwnd(5).default_rwnd_threshold(1);
    let (mux_a, task_a) = Multiplexor::new_detailed::<_, std::time::Instant>(
        ws_a,
        opt_a,
        ScriptRng {
            first: X,
            repeat: 2,
            n: 0,
        },
    );
    let (mux_b, task_b) = Multiplexor::new_detailed::<_, std::time::Instant>(
        ws_b,
        opt_b,
        ScriptRng {
            first: 0x0b0b_0b0b,
            repeat: 0,
            n: 0,
        },
    );
    tokio::spawn(task_a.into_task());
    tokio::spawn(task_b.into_task());
    let mux_a = Arc::new(mux_a);

    let (old_a, old_b) = tokio::join!(mux_a.new_stream_channel(b"old", 1), async {
        mux_b.accept_stream_channel().await
    });
    let old_a = old_a.unwrap();
    let mut old_b = old_b.unwrap();

    // Frames from A stay on the wire for the moment
    a_to_b.hold();
    drop(old_a);
    wait_until("A's Reset of the old flow on the wire", || {
        log.lock()
            .unwrap()
            .iter()
            .any(|(d, b)| *d == Dir::AtoB && op(b) == OP_RESET && id(b) == X)
    })
    .await;
    let opener = {
        let mux_a = mux_a.clone();
        tokio::spawn(async move { mux_a.new_stream_channel(b"new", 2).await })
    };
    wait_until("A's second Connect on the wire", || {
        log.lock()
            .unwrap()
            .iter()
            .filter(|(d, b)| *d == Dir::AtoB && op(b) == OP_CONNECT && id(b) == X)
            .count()
            == 2
    })
    .await;

    // B's application writes one large buffer to the old stream, on a thread of its own
    let started = Arc::new(AtomicBool::new(false));
    let writer_thread = {
        let started = started.clone();
        std::thread::spawn(move || {
            let big = vec![b'O'; big_len];
            let rt = tokio::runtime::Builder::new_current_thread()
                .enable_all()
                .build()
                .unwrap();
            rt.block_on(async move {
                started.store(true, Ordering::SeqCst);
                let r = old_b.write_all(&big).await;
                (r, old_b)
            })
        })
    };
    while !started.load(Ordering::SeqCst) {
        std::hint::spin_loop();
    }
    let t0 = std::time::Instant::now();
    while t0.elapsed() < Duration::from_micros(delay_us) {
        std::hint::spin_loop();
    }
    a_to_b.release();

    let new_b = tokio::time::timeout(Duration::from_secs(10), mux_b.accept_stream_channel())
        .await
        .unwrap()
        .unwrap();
    let new_a = opener.await.unwrap().unwrap();
    let (old_write, old_b) = writer_thread.join().unwrap();
    eprintln!("B's write of {big_len} bytes to the old stream returned {old_write:?}");
    tokio::time::sleep(Duration::from_millis(200)).await;

    let stale: Vec<usize> = {
        let l = log.lock().unwrap();
        let at = l
            .iter()
            .rposition(|(d, b)| *d == Dir::AtoB && op(b) == OP_CONNECT && id(b) == X)
            .unwrap();
        // B's handshake answer for the new flow
        let hs = at
            + l[at..]
                .iter()
                .position(|(d, b)| *d == Dir::BtoA && op(b) == OP_ACK && id(b) == X)
                .expect("B accepted the new flow");
        l[hs + 1..]
            .iter()
            .filter(|(d, b)| *d == Dir::BtoA && op(b) == OP_PUSH && id(b) == X)
            .map(|(_, b)| b.len() - 5)
            .collect()
    };
    assert!(
        stale.is_empty(),
        "C03: nobody has written to the new flow {X:08x}, yet B put Push frames on its wire          (payload sizes {stale:?}) after the handshake: the old stream's write, whose flow B's          endpoint had closed before"
    );
    drop((new_a, new_b, old_b));
}
