//! C01 helper: the *client side* of the proxy protocols spoken at the entry points, and the
//! reference parser of the SOCKS5 UDP request header (RFC 1928 section 7). Written from the
//! protocol texts (SOCKS4 / SOCKS4a memo, RFC 1928, RFC 9110 section 9.3.6); nothing here calls
//! the code under test.

use std::net::{IpAddr, Ipv4Addr, Ipv6Addr, SocketAddr};
use tokio::io::{AsyncRead, AsyncReadExt, AsyncWrite, AsyncWriteExt};

/// Outcome of the entry handshake as a conforming client sees it.
#[derive(Debug, Clone, PartialEq, Eq)]
pub enum Shake {
    /// the proxy said "connected"; what follows is the tunnel
    Granted,
    /// the proxy answered with a well-formed refusal (legal when the target is unreachable)
    Refused(String),
    /// the proxy closed / reset the connection before a complete answer
    Closed(String),
    /// the answer is not what the protocol allows
    Malformed(String),
}

async fn read_n<S: AsyncRead + Unpin>(s: &mut S, n: usize) -> Result<Vec<u8>, String> {
    let mut b = vec![0u8; n];
    let mut got = 0;
    while got < n {
        match s.read(&mut b[got..]).await {
            Ok(0) => return Err(format!("EOF after {got} of {n} bytes")),
            Ok(k) => got += k,
            Err(e) => return Err(format!("{:?} after {got} of {n} bytes", e.kind())),
        }
    }
    Ok(b)
}

/// SOCKS4 CONNECT (`host` = None) or SOCKS4a CONNECT (`host` = Some(name)).
pub async fn socks4_connect<S: AsyncRead + AsyncWrite + Unpin>(s: &mut S, ip: Ipv4Addr, port: u16, host: Option<&str>) -> Shake {
    socks4_connect_with(s, ip, port, host, &[]).await
}

/// SOCKS4 / SOCKS4a CONNECT of a client that does not wait for the reply before it sends: `with`
/// (the first bytes of what it has to say to the target) travels in the SAME `write_all` as the
/// request, then the reply is read. Nothing in the memo forbids it (the bytes simply wait in the
/// proxy's buffers until the connection to the target exists) and a direct connection would
/// deliver them. `with` empty: the lock-step client.
pub async fn socks4_connect_with<S: AsyncRead + AsyncWrite + Unpin>(s: &mut S, ip: Ipv4Addr, port: u16, host: Option<&str>, with: &[u8]) -> Shake {
    let mut req = vec![4u8, 1];
    req.extend_from_slice(&port.to_be_bytes());
    match host {
        None => req.extend_from_slice(&ip.octets()),
        Some(_) => req.extend_from_slice(&[0, 0, 0, 1]),
    }
    req.extend_from_slice(b"verif");
    req.push(0);
    if let Some(h) = host {
        req.extend_from_slice(h.as_bytes());
        req.push(0);
    }
    // one buffer, one write: request ++ optimistic data
    req.extend_from_slice(with);
    if let Err(e) = s.write_all(&req).await {
        return Shake::Closed(format!("write request: {:?}", e.kind()));
    }
    let rep = match read_n(s, 8).await {
        Ok(r) => r,
        Err(e) => return Shake::Closed(e),
    };
    if rep[0] != 0 {
        return Shake::Malformed(format!("SOCKS4 reply VN={} (must be 0)", rep[0]));
    }
    match rep[1] {
        90 => Shake::Granted,
        91..=93 => Shake::Refused(format!("SOCKS4 CD={}", rep[1])),
        x => Shake::Malformed(format!("SOCKS4 reply CD={x}")),
    }
}

/// Read a SOCKS5 reply (VER REP RSV ATYP BND.ADDR BND.PORT); returns (REP, bound address).
pub async fn socks5_read_reply<S: AsyncRead + Unpin>(s: &mut S) -> Result<(u8, Option<SocketAddr>), Shake> {
    let h = read_n(s, 4).await.map_err(Shake::Closed)?;
    if h[0] != 5 {
        return Err(Shake::Malformed(format!("SOCKS5 reply VER={}", h[0])));
    }
    if h[2] != 0 {
        return Err(Shake::Malformed(format!("SOCKS5 reply RSV={}", h[2])));
    }
    let addr = match h[3] {
        1 => {
            let a = read_n(s, 6).await.map_err(Shake::Closed)?;
            Some(SocketAddr::new(IpAddr::V4(Ipv4Addr::new(a[0], a[1], a[2], a[3])), u16::from_be_bytes([a[4], a[5]])))
        }
        4 => {
            let a = read_n(s, 18).await.map_err(Shake::Closed)?;
            let mut o = [0u8; 16];
            o.copy_from_slice(&a[..16]);
            Some(SocketAddr::new(IpAddr::V6(Ipv6Addr::from(o)), u16::from_be_bytes([a[16], a[17]])))
        }
        3 => {
            let l = read_n(s, 1).await.map_err(Shake::Closed)?;
            let _ = read_n(s, usize::from(l[0]) + 2).await.map_err(Shake::Closed)?;
            None
        }
        x => return Err(Shake::Malformed(format!("SOCKS5 reply ATYP={x}"))),
    };
    Ok((h[1], addr))
}

/// SOCKS5 method negotiation (NO AUTHENTICATION only).
pub async fn socks5_greet<S: AsyncRead + AsyncWrite + Unpin>(s: &mut S) -> Result<(), Shake> {
    if let Err(e) = s.write_all(&[5, 1, 0]).await {
        return Err(Shake::Closed(format!("write greeting: {:?}", e.kind())));
    }
    let m = read_n(s, 2).await.map_err(Shake::Closed)?;
    if m != [5, 0] {
        return Err(Shake::Malformed(format!("SOCKS5 method selection {m:02x?}")));
    }
    Ok(())
}

/// SOCKS5 CONNECT to an IP address (`host` = None: ATYP 1 for IPv4, ATYP 4 for IPv6) or a domain name.
pub async fn socks5_connect<S: AsyncRead + AsyncWrite + Unpin>(s: &mut S, ip: IpAddr, port: u16, host: Option<&str>) -> Shake {
    socks5_connect_with(s, ip, port, host, &[]).await
}

/// SOCKS5 CONNECT of a client that pipelines: the method negotiation is done in lock-step (the
/// client has to know the method before it may send the request), then the CONNECT request and
/// `with` (the first bytes for the target) travel in ONE `write_all`, then the reply is read.
/// RFC 1928 does not make the client wait for the reply; the bytes wait in the proxy's buffers.
/// `with` empty: the lock-step client.
pub async fn socks5_connect_with<S: AsyncRead + AsyncWrite + Unpin>(s: &mut S, ip: IpAddr, port: u16, host: Option<&str>, with: &[u8]) -> Shake {
    if let Err(e) = socks5_greet(s).await {
        return e;
    }
    let mut req = vec![5u8, 1, 0];
    match (host, ip) {
        (None, IpAddr::V4(ip)) => {
            req.push(1);
            req.extend_from_slice(&ip.octets());
        }
        (None, IpAddr::V6(ip)) => {
            req.push(4);
            req.extend_from_slice(&ip.octets());
        }
        (Some(h), _) => {
            req.push(3);
            req.push(u8::try_from(h.len()).expect("domain too long"));
            req.extend_from_slice(h.as_bytes());
        }
    }
    req.extend_from_slice(&port.to_be_bytes());
    // one buffer, one write: request ++ optimistic data
    req.extend_from_slice(with);
    if let Err(e) = s.write_all(&req).await {
        return Shake::Closed(format!("write request: {:?}", e.kind()));
    }
    match socks5_read_reply(s).await {
        Err(sh) => sh,
        Ok((0, _)) => Shake::Granted,
        Ok((r @ 1..=8, _)) => Shake::Refused(format!("SOCKS5 REP={r}")),
        Ok((r, _)) => Shake::Malformed(format!("SOCKS5 REP={r}")),
    }
}

/// SOCKS5 CONNECT whose DST.ADDR is a domain name (ATYP 3) given as raw octets: RFC 1928 says
/// "one octet of name length followed by that many octets" and prescribes no syntax, so a local
/// application can put anything of 0..=255 octets there. Lock-step client.
pub async fn socks5_connect_raw_domain<S: AsyncRead + AsyncWrite + Unpin>(s: &mut S, host: &[u8], port: u16) -> Shake {
    if let Err(e) = socks5_greet(s).await {
        return e;
    }
    let mut req = vec![5u8, 1, 0, 3];
    req.push(u8::try_from(host.len()).expect("domain too long"));
    req.extend_from_slice(host);
    req.extend_from_slice(&port.to_be_bytes());
    if let Err(e) = s.write_all(&req).await {
        return Shake::Closed(format!("write request: {:?}", e.kind()));
    }
    match socks5_read_reply(s).await {
        Err(sh) => sh,
        Ok((0, _)) => Shake::Granted,
        Ok((r @ 1..=8, _)) => Shake::Refused(format!("SOCKS5 REP={r}")),
        Ok((r, _)) => Shake::Malformed(format!("SOCKS5 REP={r}")),
    }
}

/// SOCKS4a CONNECT whose host name is given as raw octets (anything without a NUL; the memo
/// prescribes no syntax). Lock-step client.
pub async fn socks4a_connect_raw<S: AsyncRead + AsyncWrite + Unpin>(s: &mut S, host: &[u8], port: u16) -> Shake {
    assert!(!host.contains(&0), "a SOCKS4a host name cannot contain NUL");
    let mut req = vec![4u8, 1];
    req.extend_from_slice(&port.to_be_bytes());
    req.extend_from_slice(&[0, 0, 0, 1]);
    req.extend_from_slice(b"verif");
    req.push(0);
    req.extend_from_slice(host);
    req.push(0);
    if let Err(e) = s.write_all(&req).await {
        return Shake::Closed(format!("write request: {:?}", e.kind()));
    }
    let rep = match read_n(s, 8).await {
        Ok(r) => r,
        Err(e) => return Shake::Closed(e),
    };
    if rep[0] != 0 {
        return Shake::Malformed(format!("SOCKS4 reply VN={} (must be 0)", rep[0]));
    }
    match rep[1] {
        90 => Shake::Granted,
        91..=93 => Shake::Refused(format!("SOCKS4 CD={}", rep[1])),
        x => Shake::Malformed(format!("SOCKS4 reply CD={x}")),
    }
}

/// SOCKS5 UDP ASSOCIATE; returns the relay address the client has to send its datagrams to.
pub async fn socks5_udp_associate<S: AsyncRead + AsyncWrite + Unpin>(s: &mut S) -> Result<SocketAddr, Shake> {
    socks5_greet(s).await?;
    // DST.ADDR/DST.PORT all zero: "the client is not in possession of the information"
    if let Err(e) = s.write_all(&[5, 3, 0, 1, 0, 0, 0, 0, 0, 0]).await {
        return Err(Shake::Closed(format!("write request: {:?}", e.kind())));
    }
    match socks5_read_reply(s).await? {
        (0, Some(a)) => Ok(a),
        (0, None) => Err(Shake::Malformed("UDP ASSOCIATE reply carries a domain name as BND.ADDR".into())),
        (r @ 1..=8, _) => Err(Shake::Refused(format!("SOCKS5 REP={r}"))),
        (r, _) => Err(Shake::Malformed(format!("SOCKS5 REP={r}"))),
    }
}

/// HTTP CONNECT (RFC 9110 9.3.6). Reads the response head byte by byte so that nothing of the
/// tunnel is consumed; any 2xx is success, header fields of a 2xx are ignored.
pub async fn http_connect<S: AsyncRead + AsyncWrite + Unpin>(s: &mut S, authority: &str) -> Shake {
    http_connect_raw(s, authority.as_bytes()).await
}

/// HTTP CONNECT whose authority is given as raw octets (odd-target-host sub-matrix: what a local
/// application puts there is its own business; the proxy owes it an answer or a close).
pub async fn http_connect_raw<S: AsyncRead + AsyncWrite + Unpin>(s: &mut S, authority: &[u8]) -> Shake {
    let mut req = b"CONNECT ".to_vec();
    req.extend_from_slice(authority);
    req.extend_from_slice(b" HTTP/1.1\r\nHost: ");
    req.extend_from_slice(authority);
    req.extend_from_slice(b"\r\n\r\n");
    if let Err(e) = s.write_all(&req).await {
        return Shake::Closed(format!("write request: {:?}", e.kind()));
    }
    let mut head = Vec::new();
    let mut one = [0u8; 1];
    while !head.ends_with(b"\r\n\r\n") {
        if head.len() > 16384 {
            return Shake::Malformed("response head longer than 16 KiB".into());
        }
        match s.read(&mut one).await {
            Ok(0) => return Shake::Closed(format!("EOF inside the response head after {} bytes", head.len())),
            Ok(_) => head.push(one[0]),
            Err(e) => return Shake::Closed(format!("{:?} inside the response head", e.kind())),
        }
    }
    let text = String::from_utf8_lossy(&head).to_string();
    let line = text.split("\r\n").next().unwrap_or("");
    let mut it = line.splitn(3, ' ');
    let ver = it.next().unwrap_or("");
    let code = it.next().unwrap_or("");
    if !(ver == "HTTP/1.1" || ver == "HTTP/1.0") || code.len() != 3 || !code.bytes().all(|b| b.is_ascii_digit()) {
        return Shake::Malformed(format!("status line {line:?}"));
    }
    if code.starts_with('2') {
        Shake::Granted
    } else {
        // a refusal may carry a body; the caller only needs to see the connection end
        Shake::Refused(format!("HTTP status {code}"))
    }
}

// ---------------------------------------------------------------------------------------
// RFC 1928 section 7: UDP request header
//   +----+------+------+----------+----------+----------+
//   |RSV | FRAG | ATYP | DST.ADDR | DST.PORT |   DATA   |
//   | 2  |  1   |  1   | Variable |    2     | Variable |
// ---------------------------------------------------------------------------------------

#[derive(Debug, Clone, PartialEq, Eq)]
pub enum UdpAddr {
    Ip(IpAddr),
    Domain(Vec<u8>),
}

#[derive(Debug, Clone, PartialEq, Eq)]
pub struct UdpHeader {
    pub frag: u8,
    pub addr: UdpAddr,
    pub port: u16,
    /// offset of DATA
    pub data_at: usize,
}

/// What a conforming client does with a datagram received from the relay.
pub fn parse_udp_header(d: &[u8]) -> Result<UdpHeader, String> {
    if d.len() < 4 {
        return Err(format!("datagram of {} bytes is shorter than RSV+FRAG+ATYP", d.len()));
    }
    if d[0] != 0 || d[1] != 0 {
        return Err(format!("RSV is {:02x}{:02x}, must be 0000", d[0], d[1]));
    }
    let frag = d[2];
    let (addr, at) = match d[3] {
        1 => {
            if d.len() < 4 + 4 + 2 {
                return Err("truncated inside an IPv4 DST.ADDR/DST.PORT".into());
            }
            (UdpAddr::Ip(IpAddr::V4(Ipv4Addr::new(d[4], d[5], d[6], d[7]))), 8)
        }
        4 => {
            if d.len() < 4 + 16 + 2 {
                return Err("truncated inside an IPv6 DST.ADDR/DST.PORT".into());
            }
            let mut o = [0u8; 16];
            o.copy_from_slice(&d[4..20]);
            (UdpAddr::Ip(IpAddr::V6(Ipv6Addr::from(o))), 20)
        }
        3 => {
            if d.len() < 5 {
                return Err("truncated before the domain length".into());
            }
            let l = usize::from(d[4]);
            if d.len() < 5 + l + 2 {
                return Err("truncated inside a domain DST.ADDR/DST.PORT".into());
            }
            (UdpAddr::Domain(d[5..5 + l].to_vec()), 5 + l)
        }
        x => return Err(format!("ATYP is {x:#04x}, must be 01, 03 or 04")),
    };
    let port = u16::from_be_bytes([d[at], d[at + 1]]);
    Ok(UdpHeader { frag, addr, port, data_at: at + 2 })
}

/// Build the header a client prepends to a datagram for `target` (FRAG = 0).
pub fn build_udp_request(target: SocketAddr, domain: Option<&str>, data: &[u8]) -> Vec<u8> {
    let mut v = vec![0u8, 0, 0];
    match (domain, target.ip()) {
        (Some(h), _) => {
            v.push(3);
            v.push(u8::try_from(h.len()).expect("domain too long"));
            v.extend_from_slice(h.as_bytes());
        }
        (None, IpAddr::V4(ip)) => {
            v.push(1);
            v.extend_from_slice(&ip.octets());
        }
        (None, IpAddr::V6(ip)) => {
            v.push(4);
            v.extend_from_slice(&ip.octets());
        }
    }
    v.extend_from_slice(&target.port().to_be_bytes());
    v.extend_from_slice(data);
    v
}

/// Self-test of the reference parser on hand-made vectors (including the layout the repository
/// used to emit: ATYP *after* the address).
pub fn self_test() -> Result<(), String> {
    let good = [0, 0, 0, 1, 127, 0, 0, 1, 0x12, 0x34, 0xaa, 0xbb];
    let h = parse_udp_header(&good)?;
    if h.addr != UdpAddr::Ip(IpAddr::V4(Ipv4Addr::LOCALHOST)) || h.port != 0x1234 || h.data_at != 10 || h.frag != 0 {
        return Err(format!("reference parser misreads the RFC 1928 example: {h:?}"));
    }
    // the historic defect: RSV RSV FRAG ADDR(4) ATYP PORT DATA
    let old = [0, 0, 0, 127, 0, 0, 1, 1, 0x12, 0x34, 0xaa, 0xbb];
    if parse_udp_header(&old).is_ok() {
        return Err("reference parser accepts a header with ATYP after the address".into());
    }
    let dom = [0, 0, 0, 3, 2, b'a', b'b', 0, 80];
    let h = parse_udp_header(&dom)?;
    if h.addr != UdpAddr::Domain(b"ab".to_vec()) || h.port != 80 || h.data_at != 9 {
        return Err(format!("reference parser misreads a domain header: {h:?}"));
    }
    let mut v6 = vec![0, 0, 0, 4];
    v6.extend_from_slice(&Ipv6Addr::LOCALHOST.octets());
    v6.extend_from_slice(&[0, 53]);
    let h = parse_udp_header(&v6)?;
    if h.addr != UdpAddr::Ip(IpAddr::V6(Ipv6Addr::LOCALHOST)) || h.port != 53 || h.data_at != 22 {
        return Err(format!("reference parser misreads an IPv6 header: {h:?}"));
    }
    for bad in [&[0u8, 0, 0][..], &[0, 1, 0, 1, 1, 2, 3, 4, 0, 0], &[0, 0, 0, 2, 1, 2, 3, 4, 0, 0], &[0, 0, 0, 1, 1, 2, 3, 4, 0], &[0, 0, 0, 3, 5, b'a', 0, 0]] {
        if parse_udp_header(bad).is_ok() {
            return Err(format!("reference parser accepts the malformed header {bad:02x?}"));
        }
    }
    let b = build_udp_request(SocketAddr::from(([127, 0, 0, 1], 0x1234)), None, &[0xaa, 0xbb]);
    if b != good {
        return Err("reference builder does not produce the RFC 1928 layout".into());
    }
    Ok(())
}
