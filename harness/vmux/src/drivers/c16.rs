//! C16 — keepalive detects a dead peer in bounded time and never a live one.
//! One real endpoint on tokio's paused clock against a scripted pong peer; every
//! pong-delay history up to R rounds for every (interval, timeout) pair.

use super::c05::push_viol;
use super::common::{Case, Plan, run_cases};
use crate::Args;
use crate::apps::{SideCfg, World};
use crate::explore::{Cost, RunOutput, choose};
use crate::link::UNBOUNDED_CAP;
use crate::raw::{RMsg, Raw};
use crate::report::Report;
use crate::sim::{Fnv, Sim, Step};
use penguin_mux::config::Options;
use penguin_mux::timing::OptionalDuration;
use penguin_mux::ws::Message;
use std::future::Future;
use std::pin::Pin;
use std::task::{Context, Poll};
use std::time::Duration;
use tokio::time::Instant;

const W_TIMEOUT: u64 = 1;
const W_SURVIVED: u64 = 2;
const W_PING_SEEN: u64 = 4;
const W_DISABLED: u64 = 8;
const W_CLAMPED: u64 = 16;
const W_RESOLVED_AFTER_TIMEOUT: u64 = 32;
const W_LATE_PONG: u64 = 64;
const W_HUNG: u64 = 128;
const W_PEER_PINGS: u64 = 256;
const W_LATE_POLL: u64 = 512;
const W_IDLE_STALL: u64 = 1024;
const W_DROP_FLUSH: u64 = 2048;

const TOL: Duration = Duration::from_millis(3);

/// pong delay classes, relative to the effective timeout T_eff
#[derive(Clone, Copy, Debug, PartialEq, Eq, Hash)]
enum Delay {
    Zero,
    Half,
    /// exactly on the boundary
    AtT,
    /// later than allowed by a hair
    Late,
    Never,
}
const DELAYS: [Delay; 5] = [Delay::Zero, Delay::Half, Delay::AtT, Delay::Late, Delay::Never];

#[derive(Clone, Debug)]
struct Scn {
    /// milliseconds; 0 = disabled (NONE)
    interval: u64,
    /// milliseconds; 0 = NONE (not set)
    timeout: u64,
    rounds: Vec<Delay>,
    /// after the scripted rounds: true = answer at once forever, false = stay silent
    prompt_tail: bool,
    /// after the scripted rounds the peer hangs: it neither answers nor READS any more, while the local application
    /// has a burst of datagrams to send, so the transport's send side fills up (link capacity 2)
    hung_tail: bool,
    /// the peer sends Pings of its own every interval (and keeps doing so after it has stopped answering ours):
    /// only Pongs are evidence that our Pings get through
    peer_pings: bool,
    /// the connection task may be polled LATE once (2 ms after it became runnable): timers fire late on a busy
    /// machine, and a peer that answers within a millisecond must survive that also when T = I
    jitter: bool,
    /// how late that one poll comes, in ms (2 = a timer firing late; larger = the thread that runs the connection task
    /// was not scheduled for that long: a stopped or paused process, a blocking call on the runtime thread)
    late_ms: u64,
    /// after the scripted rounds the peer keeps answering after T/2 (instead of at once)
    half_tail: bool,
    /// the two option setters are called in the other order (timeout first, then interval)
    timeout_first: bool,
    /// the whole process is frozen once for this long (ms; 0 = never) at a moment when it is IDLE and no Ping is
    /// outstanding (every Ping so far answered and the answer processed; nothing on the wire): a stopped or suspended
    /// process, a paused VM. Several ticks of the interval are missed; a peer that answers at once is still alive
    idle_stall_ms: u64,
    /// the application builds the Multiplexor and starts (first polls) its connection task only this much later (ms):
    /// start-up, for the keepalive, is the moment the task starts
    late_start_ms: u64,
    /// two application tasks send datagrams at the very instants of the keepalive ticks over a link that takes ONE
    /// message at a time: the Ping waits in the outbound queue with other messages before and behind it
    chatter: bool,
    /// C08's flush clause under a configured keepalive: the application queues 6 datagrams and drops its Multiplexor
    /// over a healthy but SLOW transport (capacity 1, the peer takes one message every 400 ms): flushing takes longer
    /// than the keepalive timeout, and every queued frame must still arrive, in order, before the Close
    drop_flush: bool,
}

fn od(ms: u64) -> OptionalDuration {
    if ms == 0 {
        OptionalDuration::NONE
    } else if ms % 1000 == 0 {
        OptionalDuration::from_secs(ms / 1000)
    } else {
        OptionalDuration::from(Duration::from_millis(ms))
    }
}

/// Wait until some task is woken (a tokio timer fired) or until `until`.
struct IdleWait<'a> {
    sim: &'a Sim,
    sleep: Pin<Box<tokio::time::Sleep>>,
}
impl Future for IdleWait<'_> {
    type Output = bool; // true = deadline reached
    fn poll(mut self: Pin<&mut Self>, cx: &mut Context<'_>) -> Poll<bool> {
        if !self.sim.enabled().is_empty() {
            return Poll::Ready(false);
        }
        self.sim.set_outer_waker(cx.waker());
        // a wake-up may have slipped in between
        if !self.sim.enabled().is_empty() {
            return Poll::Ready(false);
        }
        match self.sleep.as_mut().poll(cx) {
            Poll::Ready(()) => Poll::Ready(true),
            Poll::Pending => Poll::Pending,
        }
    }
}

async fn run_async(sc: &Scn, render: bool) -> RunOutput {
    let t0 = Instant::now();
    // options through the public builders, interval first (the documented order): clamping is part of the subject
    let o = if sc.timeout_first {
        let mut o = Options::new();
        if sc.timeout != 0 {
            o = o.keepalive_timeout(od(sc.timeout));
        }
        o.keepalive_interval(od(sc.interval))
    } else {
        let mut o = Options::new().keepalive_interval(od(sc.interval));
        if sc.timeout != 0 {
            o = o.keepalive_timeout(od(sc.timeout));
        }
        o
    };
    let cfg = SideCfg { opts: o, rng: vec![] };
    let mut w = World::one(if sc.hung_tail { 2 } else if sc.chatter || sc.drop_flush { 1 } else { UNBOUNDED_CAP }, 0, &cfg);
    let mut raw = Raw::new(1, w.sim.link.clone());
    if sc.late_start_ms > 0 {
        tokio::time::advance(Duration::from_millis(sc.late_start_ms)).await;
    }
    let t0 = Instant::now();
    if sc.drop_flush {
        let mux = w.mux(0);
        w.sim.spawn("dgq.a", crate::apps::group_of(0), async move {
            tokio::time::sleep_until(t0 + Duration::from_millis(100)).await;
            for n in 0..6u8 {
                let d = penguin_mux::Datagram { flow_id: 9, target_host: bytes::Bytes::from_static(b"q"), target_port: 1, data: bytes::Bytes::from(vec![n; 3]) };
                if mux.send_datagram(d).await.is_err() {
                    return;
                }
            }
        });
    }
    let mut dropped_mux = false;
    let mut next_read = t0;
    if sc.chatter {
        for c in 0..2u8 {
            let mux = w.mux(0);
            let ival = Duration::from_millis(sc.interval);
            w.sim.spawn(if c == 0 { "chat1.a" } else { "chat2.a" }, crate::apps::group_of(0), async move {
                for k in 1..=3u32 {
                    tokio::time::sleep_until(t0 + ival * k).await;
                    for n in 0..2u8 {
                        let d = penguin_mux::Datagram { flow_id: 7, target_host: bytes::Bytes::from_static(b"c"), target_port: 1, data: bytes::Bytes::from(vec![c, k as u8, n]) };
                        if mux.send_datagram(d).await.is_err() {
                            return;
                        }
                    }
                }
            });
        }
    }
    let hang = std::rc::Rc::new(tokio::sync::Notify::new());
    let mut hung_at: Option<Duration> = None;
    if sc.hung_tail {
        let mux = w.mux(0);
        let hang = hang.clone();
        w.sim.spawn("burst.a", crate::apps::group_of(0), async move {
            hang.notified().await;
            for n in 0..6u8 {
                let d = penguin_mux::Datagram { flow_id: 9, target_host: bytes::Bytes::from_static(b"h"), target_port: 1, data: bytes::Bytes::from(vec![n; 3]) };
                if mux.send_datagram(d).await.is_err() {
                    break;
                }
            }
        });
    }
    w.spawn_dgram_receiver(0, "dgrecv.a", usize::MAX, false);
    w.spawn_acceptor(0, usize::MAX, std::collections::BTreeMap::new());
    let enabled = sc.interval != 0;
    let i = Duration::from_millis(sc.interval);
    // effective timeout: NONE stays NONE; a finite one is raised to the interval
    let t_eff: Option<Duration> = if !enabled || sc.timeout == 0 { None } else { Some(Duration::from_millis(sc.timeout.max(sc.interval))) };
    let horizon = t0 + Duration::from_millis(if enabled { (sc.rounds.len() as u64 + 4) * sc.interval + 3 * sc.timeout.max(sc.interval) + 2000 } else { 12_000 });
    let mut viol: Vec<(String, String)> = Vec::new();
    let mut fps = Vec::new();
    let mut wit = 0u64;
    let mut pings: Vec<Duration> = Vec::new(); // arrival times at the peer
    let mut pong_due: Vec<(Instant, usize)> = Vec::new();
    let mut pongs_rx: Vec<(Duration, u64)> = Vec::new(); // (time, step) the endpoint's socket got a pong
    let mut ended_step: u64 = u64::MAX;
    let mut ended_at: Option<Duration> = None;
    let mut log: Vec<String> = Vec::new();
    let mut hit_horizon = false;
    let mut late_used = false;
    let mut idle_stall_used = false;
    let mut next_peer_ping = t0 + i / 2;
    loop {
        if w.sim.steps > 20_000 {
            push_viol(&mut viol, "livelock", format!("step horizon; last steps: {}", w.sim.log.iter().rev().take(14).map(|st| w.sim.describe(st)).collect::<Vec<_>>().join(" <- ")));
            break;
        }
        let now = Instant::now();
        if sc.peer_pings && enabled && now >= next_peer_ping && hung_at.is_none() {
            raw.send_msg(Message::Ping);
            next_peer_ping += i;
            wit |= W_PEER_PINGS;
        }
        // the peer takes in what reached it (a hung peer reads nothing any more)
        // (drop-flush scenario: the peer takes one message every 400 ms)
        let peer_reads_now = !sc.drop_flush || now >= next_read;
        if sc.drop_flush && peer_reads_now {
            next_read = now + Duration::from_millis(400);
        }
        for m in if hung_at.is_some() || !peer_reads_now { Vec::new() } else { raw.pump() } {
            if hung_at.is_some() {
                break; // messages that arrived in the same batch after the hang are not looked at
            }
            if sc.drop_flush && matches!(m, RMsg::Close) {
                // the peer completes the closing handshake
                raw.send_msg(Message::Close);
            }
            if let RMsg::Ping = m {
                wit |= W_PING_SEEN;
                let k = pings.len();
                pings.push(now - t0);
                if sc.hung_tail && k >= sc.rounds.len() {
                    hung_at = Some(now - t0);
                    wit |= W_HUNG;
                    hang.notify_one();
                    continue;
                }
                let d = if k < sc.rounds.len() { sc.rounds[k] } else if sc.half_tail { Delay::Half } else if sc.prompt_tail { Delay::Zero } else { Delay::Never };
                let base = t_eff.unwrap_or(Duration::from_millis(sc.interval.max(1000)));
                let delay = match d {
                    Delay::Zero => Some(Duration::ZERO),
                    Delay::Half => Some(base / 2),
                    Delay::AtT => Some(base),
                    Delay::Late => Some(base + Duration::from_millis(10)),
                    Delay::Never => None,
                };
                if let Some(dl) = delay {
                    pong_due.push((now + dl, k));
                }
            }
        }
        if ended_at.is_none() && w.task_done(0) {
            ended_at = Some(now - t0);
            ended_step = w.sim.steps;
        }
        let en = w.sim.enabled();
        let due: Vec<usize> = pong_due.iter().enumerate().filter(|(_, (t, _))| *t <= now).map(|(ix, _)| ix).collect();
        if en.is_empty() && due.is_empty() {
            if now >= horizon {
                hit_horizon = true;
                break;
            }
            if sc.drop_flush && !dropped_mux && w.sim.tasks.iter().any(|t| t.name == "dgq.a" && t.done) {
                // everything is queued; the application lets go of the Multiplexor
                dropped_mux = true;
                w.drop_mux(0);
                continue;
            }
            if w.sim.all_done() {
                break;
            }
            // environment: the process is frozen here (idle, no Ping outstanding, at least one round answered)
            if sc.idle_stall_ms > 0 && !idle_stall_used && ended_at.is_none() && pong_due.is_empty() && !pongs_rx.is_empty() && pongs_rx.len() == pings.len() && choose(&[Cost::Env, Cost::Env]) == 1 {
                idle_stall_used = true;
                wit |= W_IDLE_STALL;
                if render {
                    log.push(format!("FROZEN({}ms)@{:?}", sc.idle_stall_ms, now - t0));
                }
                tokio::time::advance(Duration::from_millis(sc.idle_stall_ms)).await;
                continue;
            }
            let mut next = pong_due.iter().map(|(t, _)| *t).min().map_or(horizon, |t| t.min(horizon));
            if sc.peer_pings && enabled && hung_at.is_none() {
                next = next.min(next_peer_ping);
            }
            if sc.drop_flush && ended_at.is_none() {
                next = next.min(next_read.max(now + Duration::from_millis(1)));
            }
            let _ = IdleWait { sim: &w.sim, sleep: Box::pin(tokio::time::sleep_until(next)) }.await;
            continue;
        }
        // a pong that is due and a timer that fired at the same instant race: explorer's choice
        let kinds = vec![Cost::Sched; en.len() + usize::from(!due.is_empty())];
        let c = choose(&kinds);
        if c < en.len() {
            let step: Step = en[c].clone();
            // (a long stall is only injected when the task's poll is the only enabled step: the clock is global, and a
            // stalled THREAD does not hold up frames that are already on the wire)
            if sc.jitter && !late_used && matches!(step, Step::Poll(0)) && (sc.late_ms <= 2 || en.len() == 1) {
                // environment answer: on time (default) or late
                if choose(&[Cost::Env, Cost::Env]) == 1 {
                    late_used = true;
                    wit |= W_LATE_POLL;
                    tokio::time::advance(Duration::from_millis(sc.late_ms)).await;
                }
            }
            if render {
                log.push(format!("{}@{:?}", w.sim.describe(&step), now - t0));
            }
            let item = w.sim.apply(&step);
            if let (Step::Deliver(1), Some(crate::link::Item::Msg(Message::Pong))) = (&step, &item) {
                pongs_rx.push((now - t0, w.sim.steps));
            }
        } else {
            let (_, k) = pong_due.remove(due[0]);
            w.sim.steps += 1;
            if render {
                log.push(format!("pong({k})@{:?}", now - t0));
            }
            raw.send_msg(Message::Pong);
        }
        let mut h = Fnv::default();
        h.u64((Instant::now() - t0).as_millis() as u64);
        h.u64(pings.len() as u64);
        h.u64(pongs_rx.len() as u64);
        h.byte(u8::from(w.task_done(0)));
        h.u64(w.obs.borrow().events.len() as u64);
        fps.push(h.0);
    }
    // ------------------------------------------------------------ verdict
    if sc.drop_flush {
        let res = w.task_result[0].borrow().clone();
        let dgrams: Vec<u8> = raw.got.iter().filter_map(|m| if let RMsg::Frame(crate::codec::RFrame::Datagram { data, .. }) = m { data.first().copied() } else { None }).collect();
        let close_at = raw.got.iter().position(|m| matches!(m, RMsg::Close));
        let last_dgram_at = raw.got.iter().rposition(|m| matches!(m, RMsg::Frame(crate::codec::RFrame::Datagram { .. })));
        if !dropped_mux {
            push_viol(&mut viol, "harness.no-drop", "the Multiplexor was never dropped in the drop-flush scenario".into());
        } else if dgrams != [0, 1, 2, 3, 4, 5] || close_at.is_none() || close_at < last_dgram_at {
            push_viol(&mut viol, "dropflush.frames-lost", format!("6 datagrams were queued before the Multiplexor was dropped over a healthy transport that takes one message every 400 ms (keepalive interval {} ms, timeout {} ms): the peer received datagrams {dgrams:?} and {} (task result {res:?}); every queued frame must be transmitted, in order, before the Close", sc.interval, sc.timeout, if close_at.is_some() { "a Close" } else { "no Close" }));
        } else {
            wit |= W_DROP_FLUSH;
        }
        if ended_at.is_none() {
            push_viol(&mut viol, "dropflush.task-hangs", "the connection task did not end after the Multiplexor was dropped and everything was flushed".into());
        }
        for t in &w.sim.tasks {
            if let Some(p) = &t.panicked {
                push_viol(&mut viol, "panic", format!("{} panicked: {p}", t.name));
            }
        }
        let mut h = Fnv::default();
        h.str(&format!("{dgrams:?} {close_at:?} {res:?}"));
        let out = RunOutput { blocked: false, steps: w.sim.steps, fingerprints: fps, outcome: h.0, violations: viol, witnesses: wit, horizon: false, rendering: render.then(|| log.join(" ")) };
        w.sim.teardown();
        return out;
    }
    let end_now = Instant::now() - t0;
    let res = w.task_result[0].borrow().clone();
    if !enabled {
        wit |= W_DISABLED;
        if !pings.is_empty() {
            push_viol(&mut viol, "disabled.ping-sent", format!("keepalive is disabled (interval NONE) but {} Ping(s) were sent", pings.len()));
        }
        if ended_at.is_some() {
            push_viol(&mut viol, "disabled.terminated", format!("keepalive is disabled but the connection task ended: {res:?}"));
        }
    } else {
        if sc.timeout != 0 && sc.timeout < sc.interval {
            wit |= W_CLAMPED;
        }
        // a ping leaves every I while the connection is alive (whether the first one leaves at start-up or
        // one interval later is not prescribed)
        let alive_until = ended_at.unwrap_or(end_now);
        // (a stall of the connection task that the harness itself injected shifts the pings; the schedule is judged only
        // in executions without one)
        let stalled = (sc.jitter && sc.late_ms > 2 && late_used) || idle_stall_used;
        // one Ping per interval also after an outage: the ticks that were missed are not made up for in a burst
        if idle_stall_used {
            for k in 1..pings.len() {
                if pings[k] == pings[k - 1] {
                    push_viol(&mut viol, "ping.burst-after-outage", format!("Pings #{} and #{k} both left at {:?} (interval {i:?}) after the process had been frozen for {} ms", k - 1, pings[k], sc.idle_stall_ms));
                }
            }
        }
        if let (Some(first), false) = (pings.first(), stalled) {
            if *first > i + TOL {
                push_viol(&mut viol, "ping.schedule", format!("the first Ping left at {first:?}, later than one interval {i:?} after start-up"));
            }
        }
        for k in if stalled { 0..0 } else { 1..pings.len() } {
            let gap = pings[k] - pings[k - 1];
            if gap + TOL < i || gap > i + TOL {
                push_viol(&mut viol, "ping.schedule", format!("Ping #{k} left {gap:?} after the previous one (at {:?}), interval is {i:?}", pings[k]));
            }
        }
        let expected_pings = (alive_until.as_millis() / i.as_millis()) as usize + 1;
        // (the tick at which the timeout is detected sends no ping; a first ping after one interval is one fewer)
        if hung_at.is_none() && !stalled && (pings.len() + 2 < expected_pings || pings.len() > expected_pings) {
            push_viol(&mut viol, "ping.count", format!("{} Ping(s) in {alive_until:?} of life with interval {i:?} (expected about {expected_pings})", pings.len()));
        }
        // Only pongs the task actually took out of its socket count: after giving up it does not read any more.
        let consumed = w.sim.link.lock().dirs[1].consumed as usize;
        let lp = if ended_at.is_some() { pongs_rx.iter().take(consumed).map(|(t, _)| *t).last().unwrap_or(Duration::ZERO) } else { pongs_rx.last().map_or(Duration::ZERO, |(t, _)| *t) };
        let _ = ended_step;
        // (a stall injected by the harness delays detection by as much)
        let slack = if idle_stall_used { Duration::from_millis(sc.idle_stall_ms) } else if stalled { Duration::from_millis(sc.late_ms) } else { Duration::ZERO };
        match (ended_at, t_eff) {
            (Some(e), Some(te)) => {
                match &res {
                    Some(Err(s)) if s.contains("KeepaliveTimeout") => wit |= W_TIMEOUT,
                    other => push_viol(&mut viol, "end.wrong-result", format!("the connection task ended with {other:?}, expected KeepaliveTimeout")),
                }
                if e + TOL < lp + te {
                    push_viol(&mut viol, "timeout.too-early", format!("keepalive timeout at {e:?}: last pong received at {lp:?}, timeout {te:?} => not before {:?} (interval {i:?})", lp + te));
                }
                if e > lp + te + i + TOL + slack {
                    push_viol(&mut viol, "timeout.too-late", format!("keepalive timeout at {e:?}: last pong received at {lp:?}, timeout {te:?}, interval {i:?} => not after {:?}", lp + te + i));
                }
                // a peer that answers every ping within T is never declared dead
                let all_in_time = pings.iter().enumerate().all(|(k, p)| {
                    let d = if k < sc.rounds.len() { sc.rounds[k] } else if sc.half_tail { Delay::Half } else if sc.prompt_tail { Delay::Zero } else { Delay::Never };
                    // (an answer exactly at the deadline can coincide with the check; only strictly earlier answers are the premise)
                    { let _ = (p, e); matches!(d, Delay::Zero | Delay::Half) }
                });
                if all_in_time && hung_at.is_none() {
                    push_viol(&mut viol, "timeout.false-positive", format!("every Ping was answered within the timeout {te:?} (history {:?}), yet the connection was declared dead at {e:?}", sc.rounds));
                }
            }
            (Some(_), None) => push_viol(&mut viol, "end.unexpected", format!("no timeout is configured but the connection task ended: {res:?}")),
            (None, Some(te)) => {
                wit |= W_SURVIVED;
                // no silent gap longer than T + I may go undetected
                let mut marks: Vec<Duration> = vec![Duration::ZERO];
                marks.extend(pongs_rx.iter().map(|(t, _)| *t));
                marks.push(end_now);
                for p in marks.windows(2) {
                    if p[1] > p[0] + te + i + TOL + slack {
                        push_viol(&mut viol, "timeout.missed", format!("no Pong was received between {:?} and {:?} (timeout {te:?}, interval {i:?}) but the connection is still up at {end_now:?}", p[0], p[1]));
                    }
                }
            }
            (None, None) => wit |= W_SURVIVED,
        }
        if sc.rounds.contains(&Delay::Late) && ended_at.is_none() {
            wit |= W_LATE_PONG;
        }
    }
    // C08 clause: after the timeout everything resolves although the transport stays silent
    if ended_at.is_some() {
        let obs = w.obs.borrow();
        let pend = obs.pending();
        if !pend.is_empty() {
            push_viol(&mut viol, "timeout.operations-hang", format!("the connection ended ({res:?}) but these operations never resolved on the silent transport: {pend:?}"));
        } else {
            wit |= W_RESOLVED_AFTER_TIMEOUT;
        }
    } else if !hit_horizon && enabled {
        push_viol(&mut viol, "harness.no-horizon", "execution ended before the horizon without the task ending".into());
    }
    for t in &w.sim.tasks {
        if let Some(p) = &t.panicked {
            push_viol(&mut viol, "panic", format!("{} panicked: {p}", t.name));
        }
    }
    let mut h = Fnv::default();
    h.str(&format!("{pings:?} {:?} {ended_at:?} {res:?}", pongs_rx.iter().map(|(t, _)| *t).collect::<Vec<_>>()));
    let out = RunOutput { blocked: false, steps: w.sim.steps, fingerprints: fps, outcome: h.0, violations: viol, witnesses: wit, horizon: false, rendering: render.then(|| log.join(" ")) };
    w.sim.teardown();
    out
}

fn exec(sc: &Scn, render: bool) -> RunOutput {
    let rt = tokio::runtime::Builder::new_current_thread().enable_time().start_paused(true).build().expect("runtime");
    rt.block_on(tokio::task::unconstrained(run_async(sc, render)))
}

pub fn run(args: &Args) -> Report {
    let mut rep = Report::new("C16", &args.tier, "psim", "model_checking");
    let thorough = args.thorough();
    let rounds = if thorough { 5 } else { 4 };
    let mut cases = Vec::new();
    let mut cfgs: Vec<(u64, u64)> = Vec::new();
    for i in [1000u64, 2000, 3000] {
        for t in [0u64, 1000, 2000, 3000, 5000] {
            cfgs.push((i, t));
        }
    }
    // sub-second parts (only reachable through the library API): T < I within the same whole second, T > I, tiny values
    cfgs.extend([(1500, 1000), (2900, 2100), (500, 300), (1000, 1500), (1200, 1200), (700, 0)]);
    cfgs.push((0, 0));
    cfgs.push((0, 2000));
    let cfgs2 = cfgs.clone();
    for (interval, timeout) in cfgs {
        // every history of pong delays of length exactly `rounds` (shorter ones are prefixes followed by the tail policy)
        let total = DELAYS.len().pow(rounds as u32);
        for code in 0..total {
            let hist: Vec<Delay> = (0..rounds).map(|r| DELAYS[(code / DELAYS.len().pow(r as u32)) % DELAYS.len()]).collect();
            for prompt_tail in [false, true] {
                if interval == 0 && (code != 0 || prompt_tail) {
                    continue;
                }
                let sc = Scn { interval, timeout, rounds: hist.clone(), prompt_tail, hung_tail: false, peer_pings: false, jitter: false, late_ms: 2, half_tail: false, timeout_first: false, idle_stall_ms: 0, late_start_ms: 0, chatter: false, drop_flush: false };
                let label = format!("I={interval}ms T={}ms history={hist:?} then {}", if timeout == 0 { "NONE".to_string() } else { timeout.to_string() }, if prompt_tail { "prompt" } else { "silent" });
                cases.push(Case { try_unbounded: false, max_k: u32::MAX, label, exec: Box::new(move |r| exec(&sc, r)) });
            }
        }
    }
    // the peer hangs (stops reading and answering) after k scripted rounds while the send side is congested
    for &(interval, timeout) in &cfgs2 {
        if interval == 0 {
            continue;
        }
        let hung_rounds = if thorough { rounds } else { 2 };
        for len in 0..=hung_rounds {
            let total = 2usize.pow(len as u32);
            for code in 0..total {
                let hist: Vec<Delay> = (0..len).map(|r| if (code >> r) & 1 == 0 { Delay::Zero } else { Delay::Half }).collect();
                let sc = Scn { interval, timeout, rounds: hist.clone(), prompt_tail: false, hung_tail: true, peer_pings: false, jitter: false, late_ms: 2, half_tail: false, timeout_first: false, idle_stall_ms: 0, late_start_ms: 0, chatter: false, drop_flush: false };
                let label = format!("I={interval}ms T={}ms history={hist:?} then the peer hangs (reads nothing), send side congested", if timeout == 0 { "NONE".to_string() } else { timeout.to_string() });
                cases.push(Case { try_unbounded: false, max_k: u32::MAX, label, exec: Box::new(move |r| exec(&sc, r)) });
            }
        }
    }
    // the same (I, T) pairs given through the builder in the other order: the pair, not the order, is the configuration
    for &(interval, timeout) in &cfgs2 {
        if interval == 0 || timeout == 0 {
            continue;
        }
        for (hist, prompt_tail) in [(vec![], false), (vec![Delay::Zero, Delay::Zero], false), (vec![Delay::Zero, Delay::Half, Delay::Zero], true)] {
            let sc = Scn { interval, timeout, rounds: hist.clone(), prompt_tail, hung_tail: false, peer_pings: false, jitter: false, late_ms: 2, half_tail: false, timeout_first: true, idle_stall_ms: 0, late_start_ms: 0, chatter: false, drop_flush: false };
            let label = format!("I={interval}ms T={timeout}ms (timeout set BEFORE the interval) history={hist:?} then {}", if prompt_tail { "prompt" } else { "silent" });
            cases.push(Case { try_unbounded: false, max_k: u32::MAX, label, exec: Box::new(move |r| exec(&sc, r)) });
        }
    }
    // a live peer that answers every Ping at once, and the connection task polled 2 ms late once (any one poll)
    for &(interval, timeout) in &cfgs2 {
        if interval == 0 {
            continue;
        }
        let sc = Scn { interval, timeout, rounds: vec![Delay::Zero; 3], prompt_tail: true, hung_tail: false, peer_pings: false, jitter: true, late_ms: 2, half_tail: false, timeout_first: false, idle_stall_ms: 0, late_start_ms: 0, chatter: false, drop_flush: false };
        let label = format!("I={interval}ms T={}ms every Ping answered at once; one poll of the connection task comes 2 ms late", if timeout == 0 { "NONE".to_string() } else { timeout.to_string() });
        cases.push(Case { try_unbounded: false, max_k: 0, label, exec: Box::new(move |r| exec(&sc, r)) });
    }
    // the process is frozen for 3.2 intervals while it is idle and no Ping is outstanding (any one such moment); the peer
    // answers every Ping at once, before and after
    for &(interval, timeout) in &cfgs2 {
        if interval == 0 {
            continue;
        }
        let sc = Scn { interval, timeout, rounds: vec![Delay::Zero; 3], prompt_tail: true, hung_tail: false, peer_pings: false, jitter: false, late_ms: 2, half_tail: false, timeout_first: false, idle_stall_ms: interval * 16 / 5, late_start_ms: 0, chatter: false, drop_flush: false };
        let label = format!("I={interval}ms T={}ms every Ping answered at once; the idle process is frozen once for {} ms with no Ping outstanding", if timeout == 0 { "NONE".to_string() } else { timeout.to_string() }, sc.idle_stall_ms);
        cases.push(Case { try_unbounded: false, max_k: 0, label, exec: Box::new(move |r| exec(&sc, r)) });
    }
    // a busy link: datagrams of two application tasks are queued at the instants of the ticks, the link takes one message
    // at a time; the peer answers every Ping at once. Every Ping must still go out (one per interval)
    for &(interval, timeout) in &cfgs2 {
        if interval == 0 {
            continue;
        }
        let sc = Scn { interval, timeout, rounds: vec![Delay::Zero; 4], prompt_tail: true, hung_tail: false, peer_pings: false, jitter: false, late_ms: 2, half_tail: false, timeout_first: false, idle_stall_ms: 0, late_start_ms: 0, chatter: true, drop_flush: false };
        let label = format!("I={interval}ms T={}ms every Ping answered at once; two application tasks send datagrams at the instants of the ticks over a link of capacity 1", if timeout == 0 { "NONE".to_string() } else { timeout.to_string() });
        cases.push(Case { try_unbounded: false, max_k: 2, label, exec: Box::new(move |r| exec(&sc, r)) });
    }
    // C08's flush clause with a keepalive configured: Multiplexor dropped over a slow, healthy transport
    for &(interval, timeout) in &cfgs2 {
        if interval == 0 {
            continue;
        }
        let sc = Scn { interval, timeout, rounds: vec![Delay::Zero; 2], prompt_tail: true, hung_tail: false, peer_pings: false, jitter: false, late_ms: 2, half_tail: false, timeout_first: false, idle_stall_ms: 0, late_start_ms: 0, chatter: false, drop_flush: true };
        let label = format!("I={interval}ms T={}ms 6 datagrams queued, then the Multiplexor is dropped; the peer takes one message every 400 ms", if timeout == 0 { "NONE".to_string() } else { timeout.to_string() });
        cases.push(Case { try_unbounded: false, max_k: 1, label, exec: Box::new(move |r| exec(&sc, r)) });
    }
    // the connection task is started (first polled) later than the Multiplexor was built: by a little, by more than
    // the timeout, by several timeouts; the peer answers every Ping at once, resp. never
    for &(interval, timeout) in &cfgs2 {
        if interval == 0 {
            continue;
        }
        let t = if timeout == 0 { interval } else { timeout.max(interval) };
        for late in [t / 2, t + 1, 3 * t + 7] {
            for prompt_tail in [true, false] {
                let sc = Scn { interval, timeout, rounds: vec![], prompt_tail, hung_tail: false, peer_pings: false, jitter: false, late_ms: 2, half_tail: false, timeout_first: false, idle_stall_ms: 0, late_start_ms: late, chatter: false, drop_flush: false };
                let label = format!("I={interval}ms T={}ms connection task started {late} ms after the Multiplexor was built; peer {}", if timeout == 0 { "NONE".to_string() } else { timeout.to_string() }, if prompt_tail { "answers every Ping at once" } else { "never answers" });
                cases.push(Case { try_unbounded: false, max_k: 0, label, exec: Box::new(move |r| exec(&sc, r)) });
            }
        }
    }
    // (Stalls of the thread that runs the connection task for a sizeable part of an interval -- `late_ms` well above timer
    // jitter -- are NOT enumerated: C16 quantifies over pong histories, not over scheduling outages of the endpoint
    // itself, and an endpoint that was not running cannot in general tell its own outage from the peer's silence, e.g.
    // when the outage falls between the tick that timestamps a Ping and the poll that writes it. See
    // findings/HUNT-TRIAGE.md, second round, C16.)
    // the peer keeps sending Pings of its own, also after it has stopped answering ours
    for &(interval, timeout) in &cfgs2 {
        if interval == 0 {
            continue;
        }
        let pr = if thorough { 3 } else { 2 };
        for len in 0..=pr {
            let total = 2usize.pow(len as u32);
            for code in 0..total {
                let hist: Vec<Delay> = (0..len).map(|r| if (code >> r) & 1 == 0 { Delay::Zero } else { Delay::Half }).collect();
                for prompt_tail in [false, true] {
                    let sc = Scn { interval, timeout, rounds: hist.clone(), prompt_tail, hung_tail: false, peer_pings: true, jitter: false, late_ms: 2, half_tail: false, timeout_first: false, idle_stall_ms: 0, late_start_ms: 0, chatter: false, drop_flush: false };
                    let label = format!("I={interval}ms T={}ms history={hist:?} then {}; the peer sends its own Ping every interval throughout", if timeout == 0 { "NONE".to_string() } else { timeout.to_string() }, if prompt_tail { "prompt" } else { "silent" });
                    cases.push(Case { try_unbounded: false, max_k: u32::MAX, label, exec: Box::new(move |r| exec(&sc, r)) });
                }
            }
        }
    }
    rep.bounds.insert("rounds".into(), serde_json::json!(rounds));
    rep.bounds.insert("delay_alphabet".into(), serde_json::json!(["0", "T/2", "T", "T+10ms", "never"]));
    rep.bounds.insert("interval_timeout_pairs".into(), serde_json::json!("I in {1,2,3} s x T in {NONE,1,2,3,5} s (T<I clamped), sub-second pairs (1.5,1.0) (2.9,2.1) (0.5,0.3) (1.0,1.5) (1.2,1.2) (0.7,NONE), plus I=NONE with and without T"));
    let plan = Plan {
        ks: vec![0, 1],
        env: 1,
        fault: 0,
        total_wall: Duration::from_secs(if thorough { 1500 } else { 100 }),
        max_execs_per_case: 5_000,
        required_witnesses: W_TIMEOUT | W_SURVIVED | W_PING_SEEN | W_DISABLED | W_CLAMPED | W_RESOLVED_AFTER_TIMEOUT | W_LATE_PONG | W_HUNG | W_PEER_PINGS | W_LATE_POLL | W_IDLE_STALL | W_DROP_FLUSH,
        adaptive: thorough,
        witness_names: &[("timeout_detected", W_TIMEOUT), ("survived_to_horizon", W_SURVIVED), ("ping_seen", W_PING_SEEN), ("keepalive_disabled_case", W_DISABLED), ("timeout_clamped_to_interval", W_CLAMPED), ("operations_resolved_after_timeout", W_RESOLVED_AFTER_TIMEOUT), ("late_pong_tolerated", W_LATE_PONG), ("peer_hung_with_congested_send_side", W_HUNG), ("peer_sends_its_own_pings", W_PEER_PINGS), ("connection_task_polled_late", W_LATE_POLL), ("idle_process_frozen_for_several_intervals", W_IDLE_STALL), ("multiplexor_dropped_over_slow_transport_with_keepalive_flushed", W_DROP_FLUSH)],
    };
    rep.rule = "psim in virtual time: one real endpoint whose Options come from the public builders, its real task future polled by hand inside a paused-clock tokio runtime (timers fire by auto-advance, TimestampProvider reads the same clock), a raw peer answering Ping k after a scripted delay; EVERY history of R delays over {0, T/2, T, T+10 ms, never} followed by a silent or prompt tail (plus: after every history of <= 2 (thorough: R) in-time answers the peer HANGS, i.e. stops reading as well, while the application sends a burst into a transport of capacity 2, so the send side is congested when the timeout is due; plus: the peer sends Pings of its own every interval throughout, also while it does not answer ours; plus: a peer answering at once while any ONE poll of the connection task comes 2 ms late (a timer firing late), which must not look like a dead peer even when T = I), for every (I,T) pair incl. T<I (clamped), T=I, T=NONE and I=NONE; timer-vs-pong races at equal instants are scheduling choices (<= k deviations). Oracle: Ping k leaves at k*I; disabled => no Ping, no end; the task ends only with KeepaliveTimeout, at a time t with last_pong+T_eff <= t <= last_pong+T_eff+I; never when every Ping was answered within T; no silent gap > T_eff+I survives; after the timeout the pending accept/get_datagram resolve although the transport stays silent".into();
    rep.assumptions = vec!["tolerance 3 ms for tokio's millisecond timer rounding".into(), "both orders of the two builder calls are exercised (the reversed order for every (I,T) pair with three histories)".into()];
    run_cases(args, &mut rep, cases, &plan);
    rep
}
