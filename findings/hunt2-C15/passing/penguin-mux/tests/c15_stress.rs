//! Multi-thread stress of bind requests over the real tungstenite WebSocket on an in-memory pipe.
use penguin_mux::config::Options;
use penguin_mux::frame::BindType;
use penguin_mux::{Datagram, Multiplexor};
use std::sync::Arc;
use std::sync::atomic::{AtomicUsize, Ordering};
use tokio::io::{AsyncReadExt, AsyncWriteExt};
use tokio_tungstenite::{WebSocketStream, tungstenite::protocol::Role};

fn decision(host: &[u8]) -> u8 {
    // 0 accept, 1 reject, 2 drop, 3 hold until the end
    host.iter().fold(7u32, |a, b| a.wrapping_mul(31).wrapping_add(u32::from(*b))) as u8 % 4
}

async fn responder(mux: Arc<Multiplexor>, held: Arc<std::sync::Mutex<Vec<penguin_mux::BindRequest<'static>>>>, shown: Arc<AtomicUsize>) {
    let mut backlog: Vec<penguin_mux::BindRequest<'static>> = Vec::new();
    loop {
        // the timeout cancels `next_bind_request` again and again: no request may get lost
        match tokio::time::timeout(std::time::Duration::from_millis(2), mux.next_bind_request()).await {
            Ok(Ok(r)) => {
                shown.fetch_add(1, Ordering::Relaxed);
                // check the payload: host is "<side>-<n>-<port>-<type>"
                let text = String::from_utf8(r.host().to_vec()).unwrap();
                let parts: Vec<&str> = text.split('-').collect();
                assert_eq!(parts[2].parse::<u16>().unwrap(), r.port(), "port differs");
                let ty = if parts[3] == "S" { BindType::Stream } else { BindType::Datagram };
                assert_eq!(ty, r.bind_type(), "type differs");
                assert_ne!(r.flow_id(), 0);
                backlog.push(r);
                if backlog.len() < 3 {
                    continue;
                }
            }
            Ok(Err(_)) => break,
            Err(_) => {}
        }
        // answer out of order
        while let Some(r) = backlog.pop() {
            match decision(r.host()) {
                0 => r.reply(true).unwrap_or(()),
                1 => r.reply(false).unwrap_or(()),
                2 => drop(r),
                _ => held.lock().unwrap().push(r),
            }
            tokio::task::yield_now().await;
        }
    }
    // connection over; whatever is in the backlog is dropped
}

async fn one_round(round: usize, end_kind: usize) {
    let (c, s) = tokio::io::duplex(if round % 2 == 0 { 256 } else { 65536 });
    let c = WebSocketStream::from_raw_socket(c, Role::Client, None).await;
    let s = WebSocketStream::from_raw_socket(s, Role::Server, None).await;
    let opts_a = Options::new().bind_buffer_size(if round % 3 == 0 { 1 } else { 8 });
    let opts_b = Options::new().bind_buffer_size(if round % 5 == 0 { 0 } else { 4 });
    let b_enabled = round % 5 != 0;
    let mut js_a = tokio::task::JoinSet::new();
    let mut js_b = tokio::task::JoinSet::new();
    let a = Arc::new(Multiplexor::new_with_opt(c, opts_a, Some(&mut js_a)));
    let b = Arc::new(Multiplexor::new_with_opt(s, opts_b, Some(&mut js_b)));
    let held_a = Arc::new(std::sync::Mutex::new(Vec::new()));
    let held_b = Arc::new(std::sync::Mutex::new(Vec::new()));
    let shown_a = Arc::new(AtomicUsize::new(0));
    let shown_b = Arc::new(AtomicUsize::new(0));
    let mut aux = Vec::new();
    for _ in 0..3 {
        aux.push(tokio::spawn(responder(a.clone(), held_a.clone(), shown_a.clone())));
        if b_enabled {
            aux.push(tokio::spawn(responder(b.clone(), held_b.clone(), shown_b.clone())));
        }
    }
    // background traffic: echo streams and datagrams
    for (m, n) in [(a.clone(), b.clone()), (b.clone(), a.clone())] {
        let n2 = n.clone();
        aux.push(tokio::spawn(async move {
            while let Ok(mut st) = n2.accept_stream_channel().await {
                tokio::spawn(async move {
                    let mut buf = [0u8; 64];
                    while let Ok(k) = st.read(&mut buf).await {
                        if k == 0 || st.write_all(&buf[..k]).await.is_err() {
                            break;
                        }
                    }
                    let _ = st.shutdown().await;
                });
            }
        }));
        let n3 = n.clone();
        aux.push(tokio::spawn(async move { while n3.get_datagram().await.is_ok() {} }));
        let m2 = m.clone();
        aux.push(tokio::spawn(async move {
            for i in 0..6u32 {
                let Ok(mut st) = m2.new_stream_channel(b"echo", 7).await else { break };
                let _ = st.write_all(b"ping-ping-ping").await;
                let mut buf = [0u8; 14];
                let _ = st.read_exact(&mut buf).await;
                if i % 2 == 0 {
                    let _ = st.shutdown().await;
                }
                let _ = m2
                    .send_datagram(Datagram {
                        flow_id: i,
                        target_host: bytes::Bytes::from_static(b"d"),
                        target_port: 1,
                        data: bytes::Bytes::from_static(b"x"),
                    })
                    .await;
            }
        }));
    }
    // the requests
    let mut reqs = Vec::new();
    for (side, m) in [(0usize, a.clone()), (1usize, b.clone())] {
        for i in 0..24u32 {
            let port = (i * 2731 + side as u32) as u16;
            let ty = if i % 2 == 0 { BindType::Stream } else { BindType::Datagram };
            let host = format!("{side}-{i}-{port}-{}", if i % 2 == 0 { "S" } else { "D" }).into_bytes();
            let m = m.clone();
            let h = host.clone();
            reqs.push((
                side,
                host,
                tokio::spawn(async move {
                    if i % 4 == 0 {
                        tokio::task::yield_now().await;
                    }
                    m.request_bind(&h, port, ty).await
                }),
            ));
        }
    }
    // let the decided ones finish, then end the connection
    let mut results = Vec::new();
    let mut pending = Vec::new();
    for (side, host, h) in reqs {
        let peer_enabled = if side == 0 { b_enabled } else { true };
        let d = decision(&host);
        if d == 3 && peer_enabled {
            pending.push((side, host, h));
        } else {
            let r = tokio::time::timeout(std::time::Duration::from_secs(20), h)
                .await
                .unwrap_or_else(|_| panic!("round {round}: request {} did not resolve", String::from_utf8_lossy(&host)))
                .unwrap();
            results.push((side, host, r, peer_enabled));
        }
    }
    for (side, host, r, peer_enabled) in results {
        let d = decision(&host);
        let r = r.unwrap_or_else(|e| panic!("round {round}: {e:?} on a live connection"));
        let expect = peer_enabled && d == 0;
        assert_eq!(r, expect, "round {round}: side {side} request {} decision {d}", String::from_utf8_lossy(&host));
    }
    // note: fewer than 3 requests may be left in a responder's backlog: those are "never" answers too
    for (_, _, h) in &pending {
        assert!(!h.is_finished(), "round {round}: a held request resolved on a live connection");
    }
    // `dropper` ends the connection, the other side's held requests must resolve
    let dropper = if end_kind == 2 { 0 } else { 1 };
    if end_kind == 0 {
        // some held requests are answered now, racing with the end
        let v: Vec<_> = held_b.lock().unwrap().drain(..).collect();
        for r in v {
            let _ = r.reply(true);
        }
    }
    let mut keep = Vec::new();
    for (side, host, h) in pending {
        if side == dropper {
            h.abort(); // holds a clone of the dropper's Multiplexor
        } else {
            keep.push((side, host, h));
        }
    }
    if end_kind == 1 {
        js_b.abort_all(); // the peer's task vanishes: the transport closes
    } else {
        for x in aux.drain(..) {
            x.abort();
        }
        for _ in 0..2000 {
            let n = if dropper == 0 { Arc::strong_count(&a) } else { Arc::strong_count(&b) };
            if n == 1 {
                break;
            }
            tokio::time::sleep(std::time::Duration::from_millis(1)).await;
        }
        if dropper == 0 {
            assert_eq!(Arc::strong_count(&a), 1);
        } else {
            assert_eq!(Arc::strong_count(&b), 1);
        }
    }
    let (a, b) = if end_kind == 1 {
        (Some(a), Some(b))
    } else if dropper == 0 {
        drop(a);
        (None, Some(b))
    } else {
        drop(b);
        (Some(a), None)
    };
    for (side, host, h) in keep {
        let r = tokio::time::timeout(std::time::Duration::from_secs(20), h)
            .await
            .unwrap_or_else(|_| panic!("round {round}/{end_kind}: held request {} of side {side} never resolved after the end", String::from_utf8_lossy(&host)))
            .unwrap();
        match r {
            Ok(false) | Err(penguin_mux::Error::Closed) => {}
            Ok(true) => {
                // only legitimate if the held request was answered `true` in the end race
                assert!(end_kind == 0 && side == 0, "round {round}: TRUE without a decision");
            }
            Err(e) => panic!("round {round}: {e:?}"),
        }
    }
    drop((a, b));
    for x in aux {
        x.abort();
    }
}

#[test]
fn c15_stress_threads() {
    let rt = tokio::runtime::Builder::new_multi_thread()
        .worker_threads(4)
        .enable_all()
        .build()
        .unwrap();
    let rounds: usize = std::env::var("C15_ROUNDS").ok().and_then(|s| s.parse().ok()).unwrap_or(150);
    rt.block_on(async {
        for round in 0..rounds {
            one_round(round, round % 3).await;
        }
    });
}
