//! Exploration harness (scratch)
#![allow(dead_code, unused_imports, clippy::all)]

use rusty_penguin_lib::arg::{ClientArgs, Remote, ServerUrl};
use rusty_penguin_lib::client::{HandlerResources, client_main_inner};
use rusty_penguin_lib::server::{State, run_listener};
use std::net::{IpAddr, Ipv4Addr, SocketAddr};
use std::str::FromStr;
use std::time::Duration;
use tokio::io::{AsyncReadExt, AsyncWriteExt};
use tokio::net::{TcpListener, TcpStream, UdpSocket};
use tokio::time::{sleep, timeout};

fn free_tcp_port() -> u16 {
    let l = std::net::TcpListener::bind("127.0.0.1:0").unwrap();
    l.local_addr().unwrap().port()
}
fn free_udp_port() -> u16 {
    let l = std::net::UdpSocket::bind("127.0.0.1:0").unwrap();
    l.local_addr().unwrap().port()
}

struct Tunnel {
    server: tokio::task::JoinHandle<()>,
    client: tokio::task::JoinHandle<Result<(), rusty_penguin_lib::client::Error>>,
}
impl Drop for Tunnel {
    fn drop(&mut self) {
        self.server.abort();
        self.client.abort();
    }
}

async fn start_tunnel(remotes: &[String]) -> Tunnel {
    rusty_penguin_lib::tls::init_crypto_provider();
    {
        use tracing_subscriber::{EnvFilter, layer::SubscriberExt, util::SubscriberInitExt};
        tracing_subscriber::registry()
            .with(tracing_subscriber::fmt::layer())
            .with(EnvFilter::from_default_env())
            .try_init()
            .ok();
    }
    let listener = TcpListener::bind("127.0.0.1:0").await.unwrap();
    let sport = listener.local_addr().unwrap().port();
    let state = State::new().await.unwrap();
    let server = tokio::spawn(run_listener(listener, None, state));
    let args: &'static ClientArgs = Box::leak(Box::new(ClientArgs {
        server: ServerUrl::from_str(&format!("ws://127.0.0.1:{sport}/ws")).unwrap(),
        remote: remotes
            .iter()
            .map(|r| Remote::from_str(r).unwrap())
            .collect(),
        keepalive: penguin_mux_opt_none(),
        max_retry_count: 3,
        max_retry_interval: 100,
        channel_timeout: Duration::from_secs(10).into(),
        handshake_timeout: Duration::from_secs(10).into(),
        ..Default::default()
    }));
    let (hr, scrx, drx) = HandlerResources::create();
    let hr: &'static HandlerResources = Box::leak(Box::new(hr));
    let client = tokio::spawn(client_main_inner(args, hr, scrx, drx));
    Tunnel { server, client }
}

fn penguin_mux_opt_none() -> penguin_mux::timing::OptionalDuration {
    penguin_mux::timing::OptionalDuration::NONE
}

async fn connect_retry(addr: &str) -> TcpStream {
    for _ in 0..100 {
        if let Ok(s) = TcpStream::connect(addr).await {
            return s;
        }
        sleep(Duration::from_millis(50)).await;
    }
    panic!("cannot connect to {addr}");
}

/// Open a SOCKS5 UDP association; returns (control connection, relay address)
async fn socks5_udp_assoc(socks_addr: &str) -> (TcpStream, SocketAddr) {
    let mut sock = connect_retry(socks_addr).await;
    sock.write_all(b"\x05\x01\x00").await.unwrap();
    let mut buf = [0u8; 2];
    sock.read_exact(&mut buf).await.unwrap();
    assert_eq!(&buf, b"\x05\x00");
    sock.write_all(b"\x05\x03\x00\x01\x00\x00\x00\x00\x00\x00")
        .await
        .unwrap();
    let mut rep = [0u8; 10];
    sock.read_exact(&mut rep).await.unwrap();
    assert_eq!(&rep[..4], b"\x05\x00\x00\x01");
    let ip = Ipv4Addr::new(rep[4], rep[5], rep[6], rep[7]);
    let port = u16::from_be_bytes([rep[8], rep[9]]);
    (sock, (ip, port).into())
}

fn socks5_udp_v4(dst: SocketAddr, payload: &[u8]) -> Vec<u8> {
    let SocketAddr::V4(d) = dst else { panic!() };
    let mut v = vec![0, 0, 0, 1];
    v.extend(d.ip().octets());
    v.extend(d.port().to_be_bytes());
    v.extend(payload);
    v
}
fn socks5_udp_name(name: &[u8], port: u16, payload: &[u8]) -> Vec<u8> {
    let mut v = vec![0, 0, 0, 3, name.len() as u8];
    v.extend(name);
    v.extend(port.to_be_bytes());
    v.extend(payload);
    v
}

/// strip a reply header, return payload
fn strip_socks5_udp(buf: &[u8]) -> &[u8] {
    assert_eq!(&buf[..3], &[0, 0, 0]);
    match buf[3] {
        1 => &buf[10..],
        4 => &buf[22..],
        3 => &buf[7 + buf[4] as usize..],
        _ => panic!("bad atyp"),
    }
}

async fn bad_destination_case(name: &str, bad: Vec<u8>) {
    let socks_port = free_tcp_port();
    let _t = start_tunnel(&[format!("127.0.0.1:{socks_port}:socks")]).await;
    // Target A answers each datagram 700 ms later
    let target = UdpSocket::bind("127.0.0.1:0").await.unwrap();
    let target_addr = target.local_addr().unwrap();
    let (seen_tx, mut seen_rx) = tokio::sync::mpsc::unbounded_channel();
    tokio::spawn(async move {
        let mut buf = vec![0u8; 2048];
        loop {
            let (n, src) = target.recv_from(&mut buf).await.unwrap();
            seen_tx.send(src).ok();
            sleep(Duration::from_millis(700)).await;
            target.send_to(&buf[..n], src).await.unwrap();
        }
    });
    let (_ctl, relay) = socks5_udp_assoc(&format!("127.0.0.1:{socks_port}")).await;
    let local = UdpSocket::bind("127.0.0.1:0").await.unwrap();
    local
        .send_to(&socks5_udp_v4(target_addr, b"question-1"), relay)
        .await
        .unwrap();
    let src1 = timeout(Duration::from_secs(5), seen_rx.recv())
        .await
        .expect("target never saw datagram 1")
        .unwrap();
    // While the answer is outstanding, the same local client sends one datagram to a
    // destination that cannot be reached
    local.send_to(&bad, relay).await.unwrap();
    let mut buf = vec![0u8; 2048];
    let r = timeout(Duration::from_secs(5), local.recv_from(&mut buf)).await;
    match r {
        Ok(Ok((n, from))) => {
            assert_eq!(from, relay);
            assert_eq!(strip_socks5_udp(&buf[..n]), b"question-1");
            println!("[{name}] answer 1 delivered");
        }
        _ => panic!("[{name}] the answer of target A to datagram 1 never arrived"),
    }
    // Next exchange with A: same source port at the target, like a real UDP socket?
    local
        .send_to(&socks5_udp_v4(target_addr, b"question-2"), relay)
        .await
        .unwrap();
    let src2 = timeout(Duration::from_secs(5), seen_rx.recv())
        .await
        .expect("target never saw datagram 2")
        .unwrap();
    assert_eq!(src1, src2, "[{name}] source address changed at the target");
}

#[tokio::test(flavor = "multi_thread", worker_threads = 4)]
async fn udp_control_good_second_destination() {
    let other = UdpSocket::bind("127.0.0.1:0").await.unwrap();
    bad_destination_case(
        "control",
        socks5_udp_v4(other.local_addr().unwrap(), b"x"),
    )
    .await;
}

#[tokio::test(flavor = "multi_thread", worker_threads = 4)]
async fn udp_bad_destination_unresolvable_name() {
    bad_destination_case(
        "unresolvable",
        socks5_udp_name(b"no-such-host.invalid", 9, b"x"),
    )
    .await;
}

#[tokio::test(flavor = "multi_thread", worker_threads = 4)]
async fn udp_bad_destination_port_zero() {
    bad_destination_case(
        "port0",
        socks5_udp_v4("127.0.0.1:0".parse().unwrap(), b"x"),
    )
    .await;
}

#[tokio::test(flavor = "multi_thread", worker_threads = 4)]
async fn udp_bad_destination_broadcast() {
    bad_destination_case(
        "broadcast",
        socks5_udp_v4("255.255.255.255:9".parse().unwrap(), b"x"),
    )
    .await;
}

#[tokio::test(flavor = "multi_thread", worker_threads = 4)]
async fn udp_bad_destination_non_utf8_name() {
    bad_destination_case("nonutf8", socks5_udp_name(b"\xff\xfe.example", 9, b"x")).await;
}

/// N local clients, one datagram each, at the same time
#[tokio::test(flavor = "multi_thread", worker_threads = 4)]
async fn udp_many_clients_burst() {
    let lport = free_udp_port();
    let target = UdpSocket::bind("127.0.0.1:0").await.unwrap();
    let tport = target.local_addr().unwrap().port();
    tokio::spawn(async move {
        let mut buf = vec![0u8; 2048];
        loop {
            let (n, src) = target.recv_from(&mut buf).await.unwrap();
            target.send_to(&buf[..n], src).await.unwrap();
        }
    });
    let _t = start_tunnel(&[format!("127.0.0.1:{lport}:127.0.0.1:{tport}/udp")]).await;
    sleep(Duration::from_millis(500)).await;
    for n in [50usize, 100, 200, 400] {
        let mut socks = Vec::new();
        for _ in 0..n {
            socks.push(UdpSocket::bind("127.0.0.1:0").await.unwrap());
        }
        for (i, s) in socks.iter().enumerate() {
            s.send_to(format!("hello {i}").as_bytes(), ("127.0.0.1", lport))
                .await
                .unwrap();
        }
        let mut got = 0;
        for (i, s) in socks.iter().enumerate() {
            let mut buf = [0u8; 64];
            if let Ok(Ok((k, _))) = timeout(Duration::from_millis(1500), s.recv_from(&mut buf)).await
            {
                assert_eq!(&buf[..k], format!("hello {i}").as_bytes());
                got += 1;
            }
        }
        println!("n={n} got={got}");
    }
}

// ---------------------------------------------------------------- TCP exploration

#[derive(Clone, Copy, Debug, PartialEq)]
enum Entry {
    Tcp,
    Uds,
    Socks4,
    Socks4a,
    Socks5,
    Socks5Name,
    Http,
}

enum Local {
    T(TcpStream),
    U(tokio::net::UnixStream),
}
impl Local {
    async fn write_all(&mut self, b: &[u8]) -> std::io::Result<()> {
        match self {
            Local::T(s) => s.write_all(b).await,
            Local::U(s) => s.write_all(b).await,
        }
    }
    async fn read(&mut self, b: &mut [u8]) -> std::io::Result<usize> {
        match self {
            Local::T(s) => s.read(b).await,
            Local::U(s) => s.read(b).await,
        }
    }
    async fn read_exact(&mut self, b: &mut [u8]) -> std::io::Result<usize> {
        match self {
            Local::T(s) => s.read_exact(b).await,
            Local::U(s) => s.read_exact(b).await,
        }
    }
    async fn read_to_end(&mut self, b: &mut Vec<u8>) -> std::io::Result<usize> {
        match self {
            Local::T(s) => s.read_to_end(b).await,
            Local::U(s) => s.read_to_end(b).await,
        }
    }
    async fn shutdown(&mut self) -> std::io::Result<()> {
        match self {
            Local::T(s) => s.shutdown().await,
            Local::U(s) => s.shutdown().await,
        }
    }
}

struct Setup {
    _t: Tunnel,
    entry: Entry,
    addr: String,
    _dir: Option<tempfile::TempDir>,
}

async fn setup(entry: Entry, target: SocketAddr) -> Setup {
    let lport = free_tcp_port();
    let mut dir = None;
    let (remote, addr) = match entry {
        Entry::Tcp => (
            format!("127.0.0.1:{lport}:127.0.0.1:{}", target.port()),
            format!("127.0.0.1:{lport}"),
        ),
        Entry::Uds => {
            let d = tempfile::tempdir().unwrap();
            let p = d.path().join("s.sock");
            dir = Some(d);
            (
                format!("[unix:{}]:127.0.0.1:{}", p.display(), target.port()),
                p.display().to_string(),
            )
        }
        Entry::Socks4 | Entry::Socks4a | Entry::Socks5 | Entry::Socks5Name => (
            format!("127.0.0.1:{lport}:socks"),
            format!("127.0.0.1:{lport}"),
        ),
        Entry::Http => (
            format!("127.0.0.1:{lport}:http"),
            format!("127.0.0.1:{lport}"),
        ),
    };
    let t = start_tunnel(&[remote]).await;
    Setup {
        _t: t,
        entry,
        addr,
        _dir: dir,
    }
}

fn handshake_bytes(entry: Entry, target: SocketAddr) -> Vec<u8> {
    let port = target.port().to_be_bytes();
    match entry {
        Entry::Tcp | Entry::Uds => vec![],
        Entry::Socks4 => {
            let mut v = vec![4, 1, port[0], port[1], 127, 0, 0, 1];
            v.extend(b"user\0");
            v
        }
        Entry::Socks4a => {
            let mut v = vec![4, 1, port[0], port[1], 0, 0, 0, 1];
            v.extend(b"user\0localhost\0");
            v
        }
        Entry::Socks5 => {
            let mut v = vec![5, 1, 0, 5, 1, 0, 1, 127, 0, 0, 1];
            v.extend(port);
            v
        }
        Entry::Socks5Name => {
            let mut v = vec![5, 1, 0, 5, 1, 0, 3, 9];
            v.extend(b"127.0.0.1");
            v.extend(port);
            v
        }
        Entry::Http => format!(
            "CONNECT 127.0.0.1:{p} HTTP/1.1\r\nHost: 127.0.0.1:{p}\r\n\r\n",
            p = target.port()
        )
        .into_bytes(),
    }
}

/// read the handshake reply
async fn read_handshake_reply(entry: Entry, s: &mut Local) {
    match entry {
        Entry::Tcp | Entry::Uds => {}
        Entry::Socks4 | Entry::Socks4a => {
            let mut b = [0u8; 8];
            s.read_exact(&mut b).await.unwrap();
            assert_eq!(b[1], 0x5a);
        }
        Entry::Socks5 | Entry::Socks5Name => {
            let mut b = [0u8; 12];
            s.read_exact(&mut b).await.unwrap();
            assert_eq!(&b[..2], &[5, 0]);
            assert_eq!(&b[2..5], &[5, 0, 0]);
        }
        Entry::Http => {
            let mut v = Vec::new();
            let mut b = [0u8; 1];
            while !v.ends_with(b"\r\n\r\n") {
                let n = s.read(&mut b).await.unwrap();
                assert!(n == 1, "EOF in HTTP reply: {:?}", String::from_utf8_lossy(&v));
                v.push(b[0]);
            }
            let text = String::from_utf8_lossy(&v).to_string();
            assert!(text.starts_with("HTTP/1.1 200"), "{text}");
        }
    }
}

async fn open_local(su: &Setup) -> Local {
    match su.entry {
        Entry::Uds => {
            for _ in 0..100 {
                if let Ok(s) = tokio::net::UnixStream::connect(&su.addr).await {
                    return Local::U(s);
                }
                sleep(Duration::from_millis(50)).await;
            }
            panic!()
        }
        _ => Local::T(connect_retry(&su.addr).await),
    }
}

fn payload(n: usize, seed: u8) -> Vec<u8> {
    (0..n)
        .map(|i| (i as u32).wrapping_mul(2654435761).to_le_bytes()[1] ^ seed)
        .collect()
}

const ALL: [Entry; 7] = [
    Entry::Tcp,
    Entry::Uds,
    Entry::Socks4,
    Entry::Socks4a,
    Entry::Socks5,
    Entry::Socks5Name,
    Entry::Http,
];

/// Everything the local client has to say is written in ONE write together with the proxy
/// handshake, followed at once by a half-close; then the reply is read to EOF.
#[tokio::test(flavor = "multi_thread", worker_threads = 4)]
async fn tcp_pipelined_then_half_close() {
    for entry in ALL {
        for size in [0usize, 1, 5000, 300_000] {
            let tl = TcpListener::bind("127.0.0.1:0").await.unwrap();
            let taddr = tl.local_addr().unwrap();
            let su = setup(entry, taddr).await;
            let x = payload(size, 1);
            let y = payload(100_000, 2);
            let y2 = y.clone();
            let target = tokio::spawn(async move {
                let (mut s, _) = tl.accept().await.unwrap();
                let mut got = Vec::new();
                s.read_to_end(&mut got).await.unwrap();
                s.write_all(&y2).await.unwrap();
                s.shutdown().await.unwrap();
                got
            });
            let mut l = open_local(&su).await;
            let mut first = handshake_bytes(entry, taddr);
            first.extend(&x);
            l.write_all(&first).await.unwrap();
            l.shutdown().await.unwrap();
            let r = timeout(Duration::from_secs(10), async {
                read_handshake_reply(entry, &mut l).await;
                let mut got = Vec::new();
                l.read_to_end(&mut got).await.map(|_| got)
            })
            .await;
            let tgot = timeout(Duration::from_secs(5), target).await;
            let ok_l = matches!(&r, Ok(Ok(g)) if *g == y);
            let ok_t = matches!(&tgot, Ok(Ok(g)) if *g == x);
            println!(
                "pipelined+halfclose {entry:?} size={size}: local_ok={ok_l} target_ok={ok_t} {}",
                match &r {
                    Ok(Ok(g)) => format!("local got {} bytes", g.len()),
                    Ok(Err(e)) => format!("local err {e}"),
                    Err(_) => "local TIMEOUT".into(),
                }
            );
        }
    }
}

/// Handshake + payload pipelined in one write (no half-close), echo target
#[tokio::test(flavor = "multi_thread", worker_threads = 4)]
async fn tcp_pipelined_echo() {
    for entry in ALL {
        let tl = TcpListener::bind("127.0.0.1:0").await.unwrap();
        let taddr = tl.local_addr().unwrap();
        let su = setup(entry, taddr).await;
        let x = payload(70_000, 1);
        tokio::spawn(async move {
            let (mut s, _) = tl.accept().await.unwrap();
            let (mut r, mut w) = s.split();
            tokio::io::copy(&mut r, &mut w).await.ok();
            w.shutdown().await.ok();
        });
        let mut l = open_local(&su).await;
        let mut first = handshake_bytes(entry, taddr);
        first.extend(&x);
        l.write_all(&first).await.unwrap();
        let r = timeout(Duration::from_secs(10), async {
            read_handshake_reply(entry, &mut l).await;
            let mut got = vec![0u8; x.len()];
            l.read_exact(&mut got).await.map(|_| got)
        })
        .await;
        println!(
            "pipelined echo {entry:?}: {}",
            match &r {
                Ok(Ok(g)) => format!("ok={}", *g == x),
                Ok(Err(e)) => format!("local err {e}"),
                Err(_) => "local TIMEOUT".into(),
            }
        );
    }
}

/// Target refuses / closes at once / resets
#[tokio::test(flavor = "multi_thread", worker_threads = 4)]
async fn tcp_target_goes_away() {
    for entry in ALL {
        for mode in ["refuse", "close", "reset", "close-after-data"] {
            let tl = TcpListener::bind("127.0.0.1:0").await.unwrap();
            let taddr = tl.local_addr().unwrap();
            let su = setup(entry, taddr).await;
            match mode {
                "refuse" => drop(tl),
                _ => {
                    let mode = mode.to_string();
                    tokio::spawn(async move {
                        let (mut s, _) = tl.accept().await.unwrap();
                        match mode.as_str() {
                            "close" => drop(s),
                            "reset" => {
                                s.set_linger(Some(Duration::ZERO)).unwrap();
                                drop(s)
                            }
                            _ => {
                                s.write_all(b"bye").await.unwrap();
                                drop(s)
                            }
                        }
                    });
                }
            }
            let mut l = open_local(&su).await;
            let hs = handshake_bytes(entry, taddr);
            l.write_all(&hs).await.unwrap();
            let r = timeout(Duration::from_secs(6), async {
                // the proxy may answer or not
                let mut got = Vec::new();
                l.read_to_end(&mut got).await.map(|_| got)
            })
            .await;
            println!(
                "target {mode} {entry:?}: {}",
                match &r {
                    Ok(Ok(g)) => format!("EOF after {} bytes", g.len()),
                    Ok(Err(e)) => format!("local err {e}"),
                    Err(_) => "local HANGS".into(),
                }
            );
        }
    }
}

/// handshake, wait for the reply, then scenario
#[tokio::test(flavor = "multi_thread", worker_threads = 4)]
async fn tcp_half_close_orders() {
    for entry in ALL {
        for order in ["client-first", "target-first", "simultaneous"] {
            let tl = TcpListener::bind("127.0.0.1:0").await.unwrap();
            let taddr = tl.local_addr().unwrap();
            let su = setup(entry, taddr).await;
            let x = payload(3_000_000, 1);
            let y = payload(2_500_000, 2);
            let (x2, y2) = (x.clone(), y.clone());
            let order2 = order.to_string();
            let target = tokio::spawn(async move {
                let (mut s, _) = tl.accept().await.unwrap();
                let mut got = Vec::new();
                match order2.as_str() {
                    "client-first" => {
                        s.read_to_end(&mut got).await.unwrap();
                        for c in y2.chunks(7919) {
                            s.write_all(c).await.unwrap();
                        }
                        s.shutdown().await.unwrap();
                    }
                    "target-first" => {
                        for c in y2.chunks(7919) {
                            s.write_all(c).await.unwrap();
                        }
                        s.shutdown().await.unwrap();
                        sleep(Duration::from_millis(300)).await;
                        s.read_to_end(&mut got).await.unwrap();
                    }
                    _ => {
                        let (mut r, mut w) = s.split();
                        let a = async {
                            for c in y2.chunks(100_003) {
                                w.write_all(c).await.unwrap();
                            }
                            w.shutdown().await.unwrap();
                        };
                        let b = async {
                            r.read_to_end(&mut got).await.unwrap();
                        };
                        tokio::join!(a, b);
                    }
                }
                got == x2
            });
            let mut l = open_local(&su).await;
            l.write_all(&handshake_bytes(entry, taddr)).await.unwrap();
            read_handshake_reply(entry, &mut l).await;
            let r = timeout(Duration::from_secs(30), async {
                let mut got = Vec::new();
                match order {
                    "client-first" => {
                        for c in x.chunks(65_537) {
                            l.write_all(c).await.unwrap();
                        }
                        l.shutdown().await.unwrap();
                        l.read_to_end(&mut got).await.unwrap();
                    }
                    "target-first" => {
                        l.read_to_end(&mut got).await.unwrap();
                        sleep(Duration::from_millis(300)).await;
                        for c in x.chunks(65_537) {
                            l.write_all(c).await.unwrap();
                        }
                        l.shutdown().await.unwrap();
                    }
                    _ => match &mut l {
                        Local::T(s) => {
                            let (mut r, mut w) = s.split();
                            let a = async {
                                for c in x.chunks(1) .take(2000) {
                                    w.write_all(c).await.unwrap();
                                }
                                w.write_all(&x[2000..]).await.unwrap();
                                w.shutdown().await.unwrap();
                            };
                            let b = async {
                                r.read_to_end(&mut got).await.unwrap();
                            };
                            tokio::join!(a, b);
                        }
                        Local::U(s) => {
                            let (mut r, mut w) = s.split();
                            let a = async {
                                w.write_all(&x).await.unwrap();
                                w.shutdown().await.unwrap();
                            };
                            let b = async {
                                r.read_to_end(&mut got).await.unwrap();
                            };
                            tokio::join!(a, b);
                        }
                    },
                }
                got == y
            })
            .await;
            let t = timeout(Duration::from_secs(10), target).await;
            println!("half-close {order} {entry:?}: local={r:?} target={t:?}");
        }
    }
}

#[tokio::test(flavor = "multi_thread", worker_threads = 4)]
async fn udp_sizes() {
    let lport = free_udp_port();
    let socks_port = free_tcp_port();
    let target = UdpSocket::bind("127.0.0.1:0").await.unwrap();
    let taddr = target.local_addr().unwrap();
    tokio::spawn(async move {
        let mut buf = vec![0u8; 70000];
        loop {
            let (n, src) = target.recv_from(&mut buf).await.unwrap();
            target.send_to(&buf[..n], src).await.unwrap();
        }
    });
    let _t = start_tunnel(&[
        format!("127.0.0.1:{lport}:127.0.0.1:{}/udp", taddr.port()),
        format!("127.0.0.1:{socks_port}:socks"),
    ])
    .await;
    sleep(Duration::from_millis(500)).await;
    let local = UdpSocket::bind("127.0.0.1:0").await.unwrap();
    let mut buf = vec![0u8; 70000];
    for size in [0usize, 1, 3, 4, 1472, 9000, 65506, 65507] {
        let p = payload(size, 7);
        local.send_to(&p, ("127.0.0.1", lport)).await.unwrap();
        let r = timeout(Duration::from_secs(2), local.recv_from(&mut buf)).await;
        println!(
            "udp remote size={size}: {}",
            match r {
                Ok(Ok((n, from))) => format!("ok={} from={from}", buf[..n] == p[..]),
                other => format!("{other:?}"),
            }
        );
    }
    let (_ctl, relay) = socks5_udp_assoc(&format!("127.0.0.1:{socks_port}")).await;
    for size in [0usize, 1, 3, 4, 1472, 9000, 65496, 65497] {
        let p = payload(size, 9);
        local
            .send_to(&socks5_udp_v4(taddr, &p), relay)
            .await
            .unwrap();
        let r = timeout(Duration::from_secs(2), local.recv_from(&mut buf)).await;
        println!(
            "socks5 udp size={size}: {}",
            match r {
                Ok(Ok((n, from))) =>
                    format!("ok={} from={from} relay={relay}", strip_socks5_udp(&buf[..n]) == &p[..]),
                other => format!("{other:?}"),
            }
        );
    }
}

#[tokio::test(flavor = "multi_thread", worker_threads = 4)]
async fn tcp_abrupt_close_mid_burst() {
    for entry in [Entry::Tcp, Entry::Uds, Entry::Socks5, Entry::Http] {
        // (1) upload, target closes after 1 MiB
        {
            let tl = TcpListener::bind("127.0.0.1:0").await.unwrap();
            let taddr = tl.local_addr().unwrap();
            let su = setup(entry, taddr).await;
            tokio::spawn(async move {
                let (mut s, _) = tl.accept().await.unwrap();
                let mut b = vec![0u8; 1 << 20];
                s.read_exact(&mut b).await.unwrap();
                drop(s);
            });
            let mut l = open_local(&su).await;
            l.write_all(&handshake_bytes(entry, taddr)).await.unwrap();
            read_handshake_reply(entry, &mut l).await;
            let chunk = vec![7u8; 1 << 16];
            let r = timeout(Duration::from_secs(15), async {
                let mut total = 0usize;
                loop {
                    if let Err(e) = l.write_all(&chunk).await {
                        return (total, e.to_string());
                    }
                    total += chunk.len();
                    if total > 2_000_000_000 {
                        return (total, "never failed".into());
                    }
                }
            })
            .await;
            println!("upload, target closes {entry:?}: {r:?}");
        }
        // (2) download, local closes after 1 MiB
        {
            let tl = TcpListener::bind("127.0.0.1:0").await.unwrap();
            let taddr = tl.local_addr().unwrap();
            let su = setup(entry, taddr).await;
            let t = tokio::spawn(async move {
                let (mut s, _) = tl.accept().await.unwrap();
                let chunk = vec![7u8; 1 << 16];
                let mut total = 0usize;
                loop {
                    if let Err(e) = s.write_all(&chunk).await {
                        return (total, e.to_string());
                    }
                    total += chunk.len();
                }
            });
            let mut l = open_local(&su).await;
            l.write_all(&handshake_bytes(entry, taddr)).await.unwrap();
            read_handshake_reply(entry, &mut l).await;
            let mut b = vec![0u8; 1 << 20];
            l.read_exact(&mut b).await.unwrap();
            drop(l);
            let r = timeout(Duration::from_secs(15), t).await;
            println!("download, local closes {entry:?}: {r:?}");
        }
        // (3) local half-closes without sending, target sends a lot and closes
        // (4) idle both ways then target closes: local must see EOF
        {
            let tl = TcpListener::bind("127.0.0.1:0").await.unwrap();
            let taddr = tl.local_addr().unwrap();
            let su = setup(entry, taddr).await;
            tokio::spawn(async move {
                let (s, _) = tl.accept().await.unwrap();
                sleep(Duration::from_millis(500)).await;
                drop(s);
            });
            let mut l = open_local(&su).await;
            l.write_all(&handshake_bytes(entry, taddr)).await.unwrap();
            read_handshake_reply(entry, &mut l).await;
            let mut b = vec![];
            let r = timeout(Duration::from_secs(5), l.read_to_end(&mut b)).await;
            println!("idle, target closes {entry:?}: {r:?}");
            // and now the local side writes: must fail eventually (not hang)
            let chunk = vec![7u8; 1 << 16];
            let r = timeout(Duration::from_secs(10), async {
                for _ in 0..100000 {
                    if let Err(e) = l.write_all(&chunk).await {
                        return e.to_string();
                    }
                }
                "never failed".into()
            })
            .await;
            println!("   then local writes {entry:?}: {r:?}");
        }
    }
}

#[tokio::test(flavor = "multi_thread", worker_threads = 4)]
async fn tcp_independence_with_stalled_peers() {
    let tl = TcpListener::bind("127.0.0.1:0").await.unwrap();
    let taddr = tl.local_addr().unwrap();
    let su = setup(Entry::Tcp, taddr).await;
    // target: first byte tells the behaviour: 'S' = never read any more, 'B' = blast and never read, 'E' = echo
    tokio::spawn(async move {
        loop {
            let (mut s, _) = tl.accept().await.unwrap();
            tokio::spawn(async move {
                let mut b = [0u8; 1];
                s.read_exact(&mut b).await.unwrap();
                match b[0] {
                    b'S' => {
                        sleep(Duration::from_secs(3600)).await;
                    }
                    b'B' => {
                        let chunk = vec![1u8; 1 << 16];
                        while s.write_all(&chunk).await.is_ok() {}
                    }
                    _ => {
                        let (mut r, mut w) = s.split();
                        tokio::io::copy(&mut r, &mut w).await.ok();
                        w.shutdown().await.ok();
                    }
                }
            });
        }
    });
    // 5 stalled uploads, 5 stalled downloads
    let mut keep = Vec::new();
    for i in 0..10 {
        let mut l = open_local(&su).await;
        if i % 2 == 0 {
            l.write_all(b"S").await.unwrap();
            let h = tokio::spawn(async move {
                let chunk = vec![1u8; 1 << 16];
                loop {
                    if l.write_all(&chunk).await.is_err() {
                        break;
                    }
                }
            });
            keep.push(h);
        } else {
            l.write_all(b"B").await.unwrap();
            let h = tokio::spawn(async move {
                sleep(Duration::from_secs(3600)).await;
                drop(l);
            });
            keep.push(h);
        }
    }
    sleep(Duration::from_secs(2)).await;
    // now a normal echo connection
    let mut l = open_local(&su).await;
    let x = payload(5_000_000, 3);
    let Local::T(s) = &mut l else { panic!() };
    let (mut r, mut w) = s.split();
    let res = timeout(Duration::from_secs(20), async {
        let a = async {
            w.write_all(b"E").await.unwrap();
            w.write_all(&x).await.unwrap();
            w.shutdown().await.unwrap();
        };
        let mut got = Vec::new();
        let b = async {
            r.read_to_end(&mut got).await.unwrap();
        };
        tokio::join!(a, b);
        got == x
    })
    .await;
    println!("echo next to 10 stalled connections: {res:?}");
    assert_eq!(res, Ok(true));
}

#[tokio::test(flavor = "multi_thread", worker_threads = 4)]
async fn tcp_many_concurrent_short() {
    for entry in [Entry::Tcp, Entry::Socks5, Entry::Http] {
        let tl = TcpListener::bind("127.0.0.1:0").await.unwrap();
        let taddr = tl.local_addr().unwrap();
        let su = std::sync::Arc::new(setup(entry, taddr).await);
        tokio::spawn(async move {
            loop {
                let (mut s, _) = tl.accept().await.unwrap();
                tokio::spawn(async move {
                    let (mut r, mut w) = s.split();
                    tokio::io::copy(&mut r, &mut w).await.ok();
                    w.shutdown().await.ok();
                });
            }
        });
        let mut hs = Vec::new();
        for i in 0..400usize {
            let su = su.clone();
            hs.push(tokio::spawn(async move {
                let mut l = open_local(&su).await;
                l.write_all(&handshake_bytes(su.entry, taddr)).await.unwrap();
                read_handshake_reply(su.entry, &mut l).await;
                let x = payload(1 + (i * 7919) % 200_000, i as u8);
                let Local::T(s) = &mut l else { panic!() };
                let (mut r, mut w) = s.split();
                let mut got = Vec::new();
                let a = async {
                    w.write_all(&x).await.unwrap();
                    w.shutdown().await.unwrap();
                };
                let b = async {
                    r.read_to_end(&mut got).await.unwrap();
                };
                tokio::join!(a, b);
                got == x
            }));
        }
        let mut ok = 0;
        let mut bad = 0;
        let mut hung = 0;
        for h in hs {
            match timeout(Duration::from_secs(60), h).await {
                Ok(Ok(true)) => ok += 1,
                Ok(_) => bad += 1,
                Err(_) => hung += 1,
            }
        }
        println!("many concurrent {entry:?}: ok={ok} bad={bad} hung={hung}");
    }
}
