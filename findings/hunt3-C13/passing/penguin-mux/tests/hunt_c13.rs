//! Hand-polled model check: two real multiplexors over an in-memory link, a
//! copy-bidirectional bridge on both ends against scripted local byte streams.
#![allow(clippy::all, clippy::pedantic, clippy::nursery, missing_docs, unused)]

use penguin_mux::config::Options;
use penguin_mux::ws::{Message, WebSocket};
use penguin_mux::{Multiplexor, MuxStream};
use rand::SeedableRng;
use rand::rngs::SmallRng;
use std::collections::VecDeque;
use std::future::Future;
use std::io;
use std::pin::Pin;
use std::sync::atomic::{AtomicBool, Ordering};
use std::sync::{Arc, Mutex};
use std::task::{Context, Poll, Wake, Waker};
use tokio::io::{AsyncBufRead, AsyncRead, AsyncWrite, ReadBuf};

// ---------- tiny rng ----------
#[derive(Clone)]
pub struct Xs(u64);
impl Xs {
    pub fn new(seed: u64) -> Self {
        Self(seed.wrapping_mul(0x9E37_79B9_7F4A_7C15) ^ 0xD1B5_4A32_D192_ED03)
    }
    pub fn next(&mut self) -> u64 {
        let mut x = self.0;
        x ^= x << 13;
        x ^= x >> 7;
        x ^= x << 17;
        self.0 = x;
        x
    }
    pub fn below(&mut self, n: usize) -> usize {
        (self.next() % (n as u64)) as usize
    }
    pub fn chance(&mut self, num: usize, den: usize) -> bool {
        self.below(den) < num
    }
}

// ---------- link ----------
#[derive(Default)]
pub struct Dir {
    q: VecDeque<Message>,
    deliverable: usize,
    rx_waker: Option<Waker>,
    close_seen: bool,
    fail: bool,
}
pub struct End {
    tx: Arc<Mutex<Dir>>,
    rx: Arc<Mutex<Dir>>,
}
impl WebSocket for End {
    fn poll_ready_unpin(&mut self, _cx: &mut Context<'_>) -> Poll<Result<(), penguin_mux::Error>> {
        Poll::Ready(Ok(()))
    }
    fn start_send_unpin(&mut self, item: Message) -> Result<(), penguin_mux::Error> {
        self.tx.lock().unwrap().q.push_back(item);
        Ok(())
    }
    fn poll_flush_unpin(&mut self, _cx: &mut Context<'_>) -> Poll<Result<(), penguin_mux::Error>> {
        Poll::Ready(Ok(()))
    }
    fn poll_close_unpin(&mut self, _cx: &mut Context<'_>) -> Poll<Result<(), penguin_mux::Error>> {
        self.tx.lock().unwrap().q.push_back(Message::Close);
        Poll::Ready(Ok(()))
    }
    fn poll_next_unpin(
        &mut self,
        cx: &mut Context<'_>,
    ) -> Poll<Option<Result<Message, penguin_mux::Error>>> {
        let mut d = self.rx.lock().unwrap();
        if d.close_seen {
            return Poll::Ready(None);
        }
        if d.fail {
            d.close_seen = true;
            return Poll::Ready(Some(Err(penguin_mux::Error::Closed)));
        }
        if d.deliverable > 0 {
            d.deliverable -= 1;
            let m = d.q.pop_front().unwrap();
            if matches!(m, Message::Close) {
                d.close_seen = true;
            }
            return Poll::Ready(Some(Ok(m)));
        }
        d.rx_waker = Some(cx.waker().clone());
        Poll::Pending
    }
}

// ---------- scripted local side ----------
#[derive(Clone, Debug)]
pub enum Src {
    Chunk(Vec<u8>),
    Eof,
    Err,
}
#[derive(Default)]
pub struct Local {
    pub name: &'static str,
    // source
    pub src: VecDeque<Src>,
    pub gate: usize,
    pub src_waker: Option<Waker>,
    pub eof_returned: bool,
    pub read_err_returned: bool,
    pub consumed: usize,
    pub released_bytes: usize,
    pub total_src: Vec<u8>,
    // sink
    pub sink: Vec<u8>,
    pub budget: usize,
    pub max_per_write: usize,
    pub write_waker: Option<Waker>,
    pub write_err_at: Option<usize>,
    pub write_err_returned: bool,
    pub unflushed: usize,
    pub flush_blocked: bool,
    pub flush_waker: Option<Waker>,
    pub flush_calls: usize,
    pub flush_err_at: Option<usize>,
    pub flush_err_returned: bool,
    pub shutdown_blocked: bool,
    pub shutdown_waker: Option<Waker>,
    pub shutdown_called: bool,
    pub shutdown_done: bool,
    pub shutdown_err: bool,
    pub shutdown_err_returned: bool,
    pub violations: Vec<String>,
    pub rng: u64,
}
pub struct Handle {
    st: Arc<Mutex<Local>>,
    cur: Vec<u8>,
    pos: usize,
}
impl AsyncRead for Handle {
    fn poll_read(
        mut self: Pin<&mut Self>,
        cx: &mut Context<'_>,
        buf: &mut ReadBuf<'_>,
    ) -> Poll<io::Result<()>> {
        let me = &mut *self;
        let got = match Pin::new(&mut *me).poll_fill_buf(cx) {
            Poll::Ready(Ok(b)) => b.to_vec(),
            Poll::Ready(Err(e)) => return Poll::Ready(Err(e)),
            Poll::Pending => return Poll::Pending,
        };
        let n = got.len().min(buf.remaining());
        buf.put_slice(&got[..n]);
        Pin::new(&mut *me).consume(n);
        Poll::Ready(Ok(()))
    }
}
impl AsyncBufRead for Handle {
    fn poll_fill_buf(self: Pin<&mut Self>, cx: &mut Context<'_>) -> Poll<io::Result<&[u8]>> {
        let me = self.get_mut();
        if me.pos < me.cur.len() {
            return Poll::Ready(Ok(&me.cur[me.pos..]));
        }
        let mut st = me.st.lock().unwrap();
        if st.eof_returned {
            st.violations.push("poll_fill_buf after EOF".into());
            return Poll::Ready(Ok(&[]));
        }
        if st.gate > 0 {
            match st.src.front().cloned() {
                Some(Src::Chunk(v)) => {
                    st.src.pop_front();
                    st.gate -= 1;
                    drop(st);
                    me.cur = v;
                    me.pos = 0;
                    return Poll::Ready(Ok(&me.cur[..]));
                }
                Some(Src::Eof) => {
                    st.eof_returned = true;
                    return Poll::Ready(Ok(&[]));
                }
                Some(Src::Err) => {
                    st.src.pop_front();
                    st.gate -= 1;
                    st.read_err_returned = true;
                    return Poll::Ready(Err(io::Error::new(io::ErrorKind::ConnectionReset, "rd")));
                }
                None => {}
            }
        }
        st.src_waker = Some(cx.waker().clone());
        Poll::Pending
    }
    fn consume(self: Pin<&mut Self>, amt: usize) {
        let me = self.get_mut();
        assert!(me.pos + amt <= me.cur.len(), "consume past the buffer");
        me.pos += amt;
        me.st.lock().unwrap().consumed += amt;
    }
}
impl AsyncWrite for Handle {
    fn poll_write(self: Pin<&mut Self>, cx: &mut Context<'_>, buf: &[u8]) -> Poll<io::Result<usize>> {
        let mut st = self.st.lock().unwrap();
        if st.shutdown_called {
            st.violations.push("poll_write after poll_shutdown".into());
        }
        if buf.is_empty() {
            st.violations.push("poll_write with an empty buffer".into());
            return Poll::Ready(Ok(0));
        }
        if let Some(p) = st.write_err_at {
            if st.sink.len() >= p {
                st.write_err_returned = true;
                return Poll::Ready(Err(io::Error::new(io::ErrorKind::ConnectionAborted, "wr")));
            }
        }
        if st.budget == 0 {
            st.write_waker = Some(cx.waker().clone());
            return Poll::Pending;
        }
        st.rng = st.rng.wrapping_mul(6364136223846793005).wrapping_add(1442695040888963407);
        let cap = 1 + ((st.rng >> 33) as usize % st.max_per_write.max(1));
        let mut n = buf.len().min(st.budget).min(cap);
        if let Some(p) = st.write_err_at {
            n = n.min(p - st.sink.len());
        }
        st.sink.extend_from_slice(&buf[..n]);
        if st.budget != usize::MAX {
            st.budget -= n;
        }
        st.unflushed += n;
        Poll::Ready(Ok(n))
    }
    fn poll_flush(self: Pin<&mut Self>, cx: &mut Context<'_>) -> Poll<io::Result<()>> {
        let mut st = self.st.lock().unwrap();
        st.flush_calls += 1;
        if st.flush_err_at == Some(st.flush_calls) {
            st.flush_err_returned = true;
            return Poll::Ready(Err(io::Error::new(io::ErrorKind::TimedOut, "fl")));
        }
        if st.flush_blocked {
            st.flush_waker = Some(cx.waker().clone());
            return Poll::Pending;
        }
        st.unflushed = 0;
        Poll::Ready(Ok(()))
    }
    fn poll_shutdown(self: Pin<&mut Self>, cx: &mut Context<'_>) -> Poll<io::Result<()>> {
        let mut st = self.st.lock().unwrap();
        st.shutdown_called = true;
        if st.shutdown_err {
            st.shutdown_err_returned = true;
            return Poll::Ready(Err(io::Error::new(io::ErrorKind::NotConnected, "sd")));
        }
        if st.shutdown_blocked || st.flush_blocked {
            st.shutdown_waker = Some(cx.waker().clone());
            return Poll::Pending;
        }
        st.unflushed = 0;
        st.shutdown_done = true;
        Poll::Ready(Ok(()))
    }
}

// ---------- executor ----------
pub struct Flag(pub AtomicBool);
impl Wake for Flag {
    fn wake(self: Arc<Self>) {
        self.0.store(true, Ordering::SeqCst);
    }
}
pub struct Task<'a> {
    pub name: &'static str,
    pub fut: Option<Pin<Box<dyn Future<Output = ()> + 'a>>>,
    pub flag: Arc<Flag>,
}
impl<'a> Task<'a> {
    pub fn new(name: &'static str, f: impl Future<Output = ()> + 'a) -> Self {
        Self {
            name,
            fut: Some(Box::pin(f)),
            flag: Arc::new(Flag(AtomicBool::new(true))),
        }
    }
    pub fn runnable(&self) -> bool {
        self.fut.is_some() && self.flag.0.load(Ordering::SeqCst)
    }
    pub fn poll(&mut self) {
        if let Some(f) = self.fut.as_mut() {
            if std::env::var_os("HUNT_FRESH_WAKERS").is_some() {
                // wakers handed out by earlier polls are dead from now on
                self.flag = Arc::new(Flag(AtomicBool::new(false)));
            }
            self.flag.0.store(false, Ordering::SeqCst);
            let w = Waker::from(self.flag.clone());
            let mut cx = Context::from_waker(&w);
            if f.as_mut().poll(&mut cx).is_ready() {
                self.fut = None;
            }
        }
    }
}

#[derive(Clone, Debug)]
pub enum Env {
    Release(usize, usize), // side, count
    Grant(usize, usize),   // side, bytes (usize::MAX = unlimited)
    FlushBlock(usize, bool),
    ShutBlock(usize, bool),
    DropBridge(usize),
    DropMux(usize),
    LinkErr(usize),
}

#[derive(Clone, Debug, Default)]
pub struct Fault {
    pub side: usize,
    pub kind: u8, // 0 none, 1 read, 2 write, 3 flush, 4 shutdown
    pub at: usize,
}

pub struct Outcome {
    pub log: Vec<String>,
    pub failures: Vec<String>,
}

fn mk_local(name: &'static str, r: &mut Xs, base: u8, fault: &Fault, side: usize) -> Local {
    let nchunks = r.below(6);
    let mut src = VecDeque::new();
    let mut total = Vec::new();
    let mut b = base;
    for _ in 0..nchunks {
        let len = 1 + r.below(5);
        let mut v = Vec::new();
        for _ in 0..len {
            v.push(b);
            b = b.wrapping_add(1);
        }
        total.extend_from_slice(&v);
        src.push_back(Src::Chunk(v));
    }
    if fault.kind == 1 && fault.side == side {
        let at = fault.at % (src.len() + 1);
        src.insert(at, Src::Err);
        // what follows the error is never read
    }
    src.push_back(Src::Eof);
    let mut l = Local {
        name,
        src,
        total_src: total,
        max_per_write: 1 + r.below(6),
        rng: r.next(),
        ..Local::default()
    };
    if fault.side == side {
        match fault.kind {
            2 => l.write_err_at = Some(fault.at % 12),
            3 => l.flush_err_at = Some(1 + fault.at % 8),
            4 => l.shutdown_err = true,
            _ => {}
        }
    }
    l
}

pub fn run_case(seed: u64, with_fault: bool, with_drop: u8, verbose: bool) -> Outcome {
    let mut r = Xs::new(seed);
    let mut log: Vec<String> = Vec::new();
    let mut failures: Vec<String> = Vec::new();
    let ab = Arc::new(Mutex::new(Dir::default()));
    let ba = Arc::new(Mutex::new(Dir::default()));
    let end_a = End { tx: ab.clone(), rx: ba.clone() };
    let end_b = End { tx: ba.clone(), rx: ab.clone() };
    let rw_a = 1 + r.below(4) as u32;
    let rw_b = 1 + r.below(4) as u32;
    let th_a = 1 + r.below(5) as u32;
    let th_b = 1 + r.below(5) as u32;
    let oa = Options::new().rwnd(rw_a).default_rwnd_threshold(th_a);
    let ob = Options::new().rwnd(rw_b).default_rwnd_threshold(th_b);
    let (mux_a, td_a) =
        Multiplexor::new_detailed::<_, std::time::Instant>(end_a, oa, SmallRng::seed_from_u64(seed));
    let (mux_b, td_b) =
        Multiplexor::new_detailed::<_, std::time::Instant>(end_b, ob, SmallRng::seed_from_u64(!seed));
    let mut muxes = [Some(Arc::new(mux_a)), Some(Arc::new(mux_b))];
    log.push(format!("rwnd a={rw_a} b={rw_b} thr a={th_a} b={th_b}"));

    let fault = if with_fault {
        Fault { side: r.below(2), kind: 1 + r.below(4) as u8, at: r.below(64) }
    } else {
        Fault::default()
    };
    log.push(format!("fault {fault:?}"));
    let locals = [
        Arc::new(Mutex::new(mk_local("A", &mut r, 1, &fault, 0))),
        Arc::new(Mutex::new(mk_local("B", &mut r, 101, &fault, 1))),
    ];
    for l in &locals {
        let l = l.lock().unwrap();
        log.push(format!("local {} src={:?} maxw={}", l.name, l.src, l.max_per_write));
    }

    let streams: [Arc<Mutex<Option<MuxStream>>>; 2] =
        [Arc::new(Mutex::new(None)), Arc::new(Mutex::new(None))];
    let results: [Arc<Mutex<Option<io::Result<(usize, usize)>>>>; 2] =
        [Arc::new(Mutex::new(None)), Arc::new(Mutex::new(None))];
    let task_res: [Arc<Mutex<Option<String>>>; 2] =
        [Arc::new(Mutex::new(None)), Arc::new(Mutex::new(None))];

    let mut tasks: Vec<Task<'_>> = Vec::new();
    {
        let tr = task_res[0].clone();
        tasks.push(Task::new("taskA", async move {
            let r = td_a.into_task().await;
            *tr.lock().unwrap() = Some(format!("{r:?}"));
        }));
        let tr = task_res[1].clone();
        tasks.push(Task::new("taskB", async move {
            let r = td_b.into_task().await;
            *tr.lock().unwrap() = Some(format!("{r:?}"));
        }));
        let s = streams[0].clone();
        let m = muxes[0].clone().unwrap();
        tasks.push(Task::new("open", async move {
            let st = m.new_stream_channel(b"h", 1).await.expect("open");
            *s.lock().unwrap() = Some(st);
        }));
        let s = streams[1].clone();
        let m = muxes[1].clone().unwrap();
        tasks.push(Task::new("accept", async move {
            let st = m.accept_stream_channel().await.expect("accept");
            *s.lock().unwrap() = Some(st);
        }));
    }
    // Phase 1: handshake, run everything to quiescence
    let dirs = [ab.clone(), ba.clone()];
    let mut steps = 0usize;
    loop {
        steps += 1;
        assert!(steps < 100_000, "handshake does not settle");
        let mut opts: Vec<(u8, usize)> = Vec::new();
        for (i, t) in tasks.iter().enumerate() {
            if t.runnable() {
                opts.push((0, i));
            }
        }
        for (i, d) in dirs.iter().enumerate() {
            let d = d.lock().unwrap();
            if d.deliverable < d.q.len() {
                opts.push((1, i));
            }
        }
        if opts.is_empty() {
            break;
        }
        let (k, i) = opts[r.below(opts.len())];
        if k == 0 {
            tasks[i].poll();
        } else {
            let mut d = dirs[i].lock().unwrap();
            d.deliverable += 1;
            if let Some(w) = d.rx_waker.take() {
                w.wake();
            }
        }
    }
    let sa = streams[0].lock().unwrap().take().expect("stream A");
    let sb = streams[1].lock().unwrap().take().expect("stream B");
    // Phase 2: bridges
    let bridge_idx = [tasks.len(), tasks.len() + 1];
    for (i, s) in [sa, sb].into_iter().enumerate() {
        let h = Handle { st: locals[i].clone(), cur: Vec::new(), pos: 0 };
        let res = results[i].clone();
        tasks.push(Task::new(if i == 0 { "bridgeA" } else { "bridgeB" }, async move {
            let r = s.into_copy_bidirectional_with_buf(h).await;
            *res.lock().unwrap() = Some(r);
        }));
    }
    // Environment script
    let mut env: Vec<Env> = Vec::new();
    for side in 0..2 {
        let n = locals[side].lock().unwrap().src.len();
        let mut left = n;
        while left > 0 {
            let k = 1 + r.below(left.min(3));
            env.push(Env::Release(side, k));
            left -= k;
        }
        let ngr = r.below(5);
        for _ in 0..ngr {
            env.push(Env::Grant(side, 1 + r.below(7)));
        }
        if r.chance(1, 3) {
            env.push(Env::FlushBlock(side, true));
            env.push(Env::FlushBlock(side, false));
        }
        if r.chance(1, 4) {
            env.push(Env::ShutBlock(side, true));
            env.push(Env::ShutBlock(side, false));
        }
    }
    // shuffle keeping the relative order of each side's Release and of block/unblock pairs
    {
        // simple random merge: assign random keys but keep per-(side,kind) order by sorting keys within class
        let mut keyed: Vec<(usize, Env)> = env.into_iter().map(|e| (r.below(1000), e)).collect();
        // enforce order for block/unblock pairs: unblock key >= block key
        let mut last_block: [[usize; 2]; 2] = [[0; 2]; 2];
        for (k, e) in keyed.iter_mut() {
            match e {
                Env::FlushBlock(s, true) => last_block[*s][0] = *k,
                Env::FlushBlock(s, false) => *k = (*k).max(last_block[*s][0] + 1),
                Env::ShutBlock(s, true) => last_block[*s][1] = *k,
                Env::ShutBlock(s, false) => *k = (*k).max(last_block[*s][1] + 1),
                _ => {}
            }
        }
        keyed.sort_by_key(|(k, _)| *k);
        env = keyed.into_iter().map(|(_, e)| e).collect();
    }
    let drop_side = if with_drop == 1 { Some(r.below(2)) } else { None };
    if let Some(s) = drop_side {
        let at = r.below(env.len() + 1);
        env.insert(at, Env::DropBridge(s));
    }
    if with_drop == 2 {
        let at = r.below(env.len() + 1);
        let s = r.below(2);
        env.insert(at, if r.chance(1, 2) { Env::DropMux(s) } else { Env::LinkErr(s) });
    }
    // final: everything opens up
    for side in 0..2 {
        env.push(Env::FlushBlock(side, false));
        env.push(Env::ShutBlock(side, false));
        env.push(Env::Grant(side, usize::MAX));
    }
    log.push(format!("env {env:?}"));
    let mut env: VecDeque<Env> = env.into();
    let p_env = r.below(4); // out of 8: interleave environment steps with internal work
    let spurious = r.chance(1, 4);
    let mut dropped = [false, false];
    let mut conn_ended = false;
    let mut fault_seen_step: Option<usize> = None;
    let mut steps = 0usize;
    let mut quiescences = 0usize;
    loop {
        steps += 1;
        if steps > 200_000 {
            failures.push("livelock: more than 200000 steps".into());
            break;
        }
        let mut opts: Vec<(u8, usize)> = Vec::new();
        for (i, t) in tasks.iter().enumerate() {
            if t.runnable() {
                opts.push((0, i));
            }
        }
        for (i, d) in dirs.iter().enumerate() {
            let d = d.lock().unwrap();
            if d.deliverable < d.q.len() {
                opts.push((1, i));
            }
        }
        let quiescent = opts.is_empty();
        if quiescent {
            quiescences += 1;
            check_quiescent(&locals, &results, &dropped, conn_ended, &fault, &mut failures, &mut log, env.is_empty(), &tasks, &bridge_idx);
            if !failures.is_empty() {
                break;
            }
            if env.is_empty() {
                break;
            }
        }
        let do_env = !env.is_empty() && (quiescent || r.below(8) < p_env);
        if do_env {
            let e = env.pop_front().unwrap();
            if verbose {
                log.push(format!("[{steps}] env {e:?}"));
            }
            match e {
                Env::Release(s, k) => {
                    let mut l = locals[s].lock().unwrap();
                    for it in l.src.iter().skip(l.gate).take(k).cloned().collect::<Vec<_>>() {
                        if let Src::Chunk(v) = it {
                            l.released_bytes += v.len();
                        }
                    }
                    l.gate += k;
                    if let Some(w) = l.src_waker.take() {
                        w.wake();
                    }
                }
                Env::Grant(s, n) => {
                    let mut l = locals[s].lock().unwrap();
                    l.budget = if n == usize::MAX || l.budget == usize::MAX {
                        usize::MAX
                    } else {
                        l.budget + n
                    };
                    if let Some(w) = l.write_waker.take() {
                        w.wake();
                    }
                }
                Env::FlushBlock(s, b) => {
                    let mut l = locals[s].lock().unwrap();
                    l.flush_blocked = b;
                    if !b {
                        if let Some(w) = l.flush_waker.take() {
                            w.wake();
                        }
                        if !l.shutdown_blocked {
                            if let Some(w) = l.shutdown_waker.take() {
                                w.wake();
                            }
                        }
                    }
                }
                Env::ShutBlock(s, b) => {
                    let mut l = locals[s].lock().unwrap();
                    l.shutdown_blocked = b;
                    if !b && !l.flush_blocked {
                        if let Some(w) = l.shutdown_waker.take() {
                            w.wake();
                        }
                    }
                }
                Env::DropBridge(s) => {
                    tasks[bridge_idx[s]].fut = None;
                    dropped[s] = true;
                }
                Env::DropMux(s) => {
                    muxes[s] = None;
                    conn_ended = true;
                }
                Env::LinkErr(s) => {
                    // the receiving side of end `s` fails
                    let mut d = dirs[1 - s].lock().unwrap();
                    d.fail = true;
                    if let Some(w) = d.rx_waker.take() {
                        w.wake();
                    }
                    conn_ended = true;
                }
            }
            continue;
        }
        if quiescent {
            continue;
        }
        if spurious && r.chance(1, 10) {
            // a spurious poll of a bridge
            let i = bridge_idx[r.below(2)];
            tasks[i].poll();
            continue;
        }
        let (k, i) = opts[r.below(opts.len())];
        if k == 0 {
            if verbose {
                log.push(format!("[{steps}] poll {}", tasks[i].name));
            }
            tasks[i].poll();
        } else {
            let mut d = dirs[i].lock().unwrap();
            if verbose {
                log.push(format!("[{steps}] deliver {} {:?}", if i == 0 { "a->b" } else { "b->a" }, d.q.get(d.deliverable)));
            }
            d.deliverable += 1;
            if let Some(w) = d.rx_waker.take() {
                w.wake();
            }
        }
    }
    for (i, l) in locals.iter().enumerate() {
        let l = l.lock().unwrap();
        log.push(format!(
            "final {}: sink={:?} consumed={} released={} eof_ret={} shut_called={} shut_done={} unflushed={} budget={} result={:?} dropped={} viol={:?}",
            l.name, l.sink, l.consumed, l.released_bytes, l.eof_returned, l.shutdown_called, l.shutdown_done, l.unflushed, l.budget,
            results[i].lock().unwrap(), dropped[i], l.violations
        ));
    }
    log.push(format!("steps={steps} quiescences={quiescences}"));
    drop(tasks);
    drop(muxes);
    Outcome { log, failures }
}

#[allow(clippy::too_many_arguments)]
fn check_quiescent(
    locals: &[Arc<Mutex<Local>>; 2],
    results: &[Arc<Mutex<Option<io::Result<(usize, usize)>>>>; 2],
    dropped: &[bool; 2],
    conn_ended: bool,
    fault: &Fault,
    failures: &mut Vec<String>,
    log: &mut Vec<String>,
    last: bool,
    tasks: &[Task<'_>],
    bridge_idx: &[usize; 2],
) {
    let l = [locals[0].lock().unwrap(), locals[1].lock().unwrap()];
    let res: [Option<Result<(usize, usize), io::ErrorKind>>; 2] = [
        results[0].lock().unwrap().as_ref().map(|r| r.as_ref().map(|x| *x).map_err(|e| e.kind())),
        results[1].lock().unwrap().as_ref().map(|r| r.as_ref().map(|x| *x).map_err(|e| e.kind())),
    ];
    let any_abnormal = conn_ended || dropped[0] || dropped[1] || res.iter().any(|r| matches!(r, Some(Err(_))));
    for x in 0..2 {
        let y = 1 - x;
        for v in &l[x].violations {
            failures.push(format!("{}: contract violation by the bridge: {v}", l[x].name));
        }
        // safety: what Y received is a prefix of what X produced
        if !l[x].total_src.starts_with(&l[y].sink) {
            failures.push(format!("{}: sink is not a prefix of the peer's source", l[y].name));
        }
        if l[y].sink.len() > l[x].consumed {
            failures.push(format!("{}: more bytes than the peer consumed", l[y].name));
        }
        if l[y].shutdown_called && !any_abnormal {
            if !l[x].eof_returned {
                failures.push(format!("{}: local shut down before the peer's EOF", l[y].name));
            }
            if l[y].sink.len() != l[x].consumed {
                failures.push(format!("{}: local shut down before all data was written", l[y].name));
            }
        }
        // a fault that fired must have ended the bridge
        let fired = l[x].read_err_returned || l[x].write_err_returned || l[x].flush_err_returned || l[x].shutdown_err_returned;
        if fired && !dropped[x] {
            let want = if l[x].read_err_returned {
                io::ErrorKind::ConnectionReset
            } else if l[x].write_err_returned {
                io::ErrorKind::ConnectionAborted
            } else if l[x].flush_err_returned {
                io::ErrorKind::TimedOut
            } else {
                io::ErrorKind::NotConnected
            };
            match &res[x] {
                Some(Err(k)) if *k == want => {}
                other => failures.push(format!("{}: local operation failed with {want:?} but the bridge says {other:?}", l[x].name)),
            }
        }
        if !any_abnormal {
            // liveness while the other end takes data
            if l[y].budget > 0 {
                if l[x].consumed != l[x].released_bytes {
                    failures.push(format!("{}: released {} bytes, bridge consumed {} although the peer's local side is writable", l[x].name, l[x].released_bytes, l[x].consumed));
                }
                if l[y].sink.len() != l[x].consumed {
                    failures.push(format!("{}: {} bytes consumed by the peer, {} written although writable", l[y].name, l[x].consumed, l[y].sink.len()));
                }
                let eof_released = l[x].gate > 0 && matches!(l[x].src.front(), Some(Src::Eof));
                if eof_released && !l[x].eof_returned {
                    failures.push(format!("{}: EOF released but not read", l[x].name));
                }
                if l[x].eof_returned && !l[y].shutdown_called {
                    failures.push(format!("{}: peer EOF but local side not shut down", l[y].name));
                }
                if l[x].eof_returned && !l[y].shutdown_blocked && !l[y].flush_blocked && !l[y].shutdown_done {
                    failures.push(format!("{}: shutdown not completed", l[y].name));
                }
            }
            if !l[y].flush_blocked && l[y].budget > 0 && !l[y].shutdown_called && l[y].unflushed != 0 {
                failures.push(format!("{}: {} bytes written but not flushed at quiescence", l[y].name, l[y].unflushed));
            }
        }
    }
    if !any_abnormal {
        let all_done = l[0].shutdown_done && l[1].shutdown_done && l[0].eof_returned && l[1].eof_returned;
        if all_done {
            for x in 0..2 {
                let y = 1 - x;
                match &res[x] {
                    Some(Ok((rd, wr))) => {
                        if *rd != l[y].total_src.len() || *wr != l[x].total_src.len() {
                            failures.push(format!("{}: wrong counts {:?}", l[x].name, res[x]));
                        }
                    }
                    other => failures.push(format!("{}: both directions ended but result is {other:?}", l[x].name)),
                }
            }
        } else if last {
            failures.push("last quiescence without faults but not everything is done".into());
        }
    } else if last {
        // after an abnormal end of one bridge the other must not linger once its own source is exhausted
        for x in 0..2 {
            if dropped[x] || res[x].is_some() {
                continue;
            }
            // x is still running at the very end
            let y = 1 - x;
            let peer_abnormal = !conn_ended && (dropped[y] || matches!(res[y], Some(Err(_))));
            // Known (C05-1 / C04-5): the peer sent Finish, then let go of the stream without a
            // Reset, while we wait for credit with data in hand
            let known = peer_abnormal && l[y].eof_returned && l[x].consumed < l[x].released_bytes;
            log.push(format!("NOTE {}: still running at the end after the peer ended abnormally (known={known})", l[x].name));
            if !known {
                failures.push(format!("{}: still running at the end (peer ended abnormally)", l[x].name));
            }
        }
    }
}

fn report(seed: u64, o: &Outcome) -> String {
    let mut s = format!("seed {seed}\n");
    for l in &o.log {
        s.push_str(l);
        s.push('\n');
    }
    for f in &o.failures {
        s.push_str("FAIL: ");
        s.push_str(f);
        s.push('\n');
    }
    s
}

fn sweep(name: &str, from: u64, n: u64, fault: bool, drop_: u8) {
    if std::env::var_os("HUNT_TRACE").is_some() {
        let _ = tracing_subscriber::fmt()
            .with_max_level(tracing::Level::TRACE)
            .with_span_events(tracing_subscriber::fmt::format::FmtSpan::FULL)
            .with_writer(std::io::sink)
            .try_init();
    }
    let mut bad = 0;
    for seed in from..from + n {
        let o = run_case(seed, fault, drop_, false);
        if !o.failures.is_empty() {
            bad += 1;
            if bad <= 5 {
                let o = run_case(seed, fault, drop_, true);
                eprintln!("==== {name}\n{}", report(seed, &o));
            }
        }
    }
    assert_eq!(bad, 0, "{name}: {bad} failing seeds");
}

fn count() -> u64 {
    std::env::var("HUNT_N").ok().and_then(|s| s.parse().ok()).unwrap_or(2000)
}
fn from() -> u64 {
    std::env::var("HUNT_FROM").ok().and_then(|s| s.parse().ok()).unwrap_or(0)
}

#[test]
fn hunt_plain() {
    sweep("plain", from(), count(), false, 0);
}
#[test]
fn hunt_fault() {
    sweep("fault", from(), count(), true, 0);
}
#[test]
fn hunt_drop() {
    sweep("drop", from(), count(), false, 1);
}

#[test]
fn hunt_connend() {
    sweep("connend", from(), count(), false, 2);
}
#[test]
fn hunt_connend_fault() {
    sweep("connend_fault", from(), count(), true, 2);
}

// ---------- real runtime, real TCP sockets as the local side ----------
mod real {
    use penguin_mux::Multiplexor;
    use penguin_mux::config::Options;
    use std::time::Duration;
    use tokio::io::{AsyncReadExt, AsyncWriteExt};
    use tokio::net::{TcpListener, TcpStream};
    use tokio_tungstenite::{WebSocketStream, tungstenite::protocol::Role};

    async fn tcp_pair() -> (TcpStream, TcpStream) {
        let l = TcpListener::bind("127.0.0.1:0").await.unwrap();
        let a = l.local_addr().unwrap();
        let (c, s) = tokio::join!(TcpStream::connect(a), l.accept());
        (c.unwrap(), s.unwrap().0)
    }

    fn pattern(n: usize, seed: u8) -> Vec<u8> {
        (0..n).map(|i| (i as u8).wrapping_mul(31).wrapping_add(seed)).collect()
    }

    /// scenario: 0 = client half-closes after sending, server answers after EOF
    ///           1 = both send concurrently, then close
    ///           2 = client resets (linger 0) in the middle of the server's answer
    ///           3 = server app closes without reading while the client still sends
    async fn one(rwnd: u32, link: usize, up: usize, down: usize, scenario: u8) {
        let (ca, cb) = tokio::io::duplex(link);
        let wa = WebSocketStream::from_raw_socket(ca, Role::Client, None).await;
        let wb = WebSocketStream::from_raw_socket(cb, Role::Server, None).await;
        let opt = Options::new().rwnd(rwnd).default_rwnd_threshold(rwnd.div_ceil(2));
        let ma = Multiplexor::new_with_opt(wa, opt, None);
        let mb = Multiplexor::new_with_opt(wb, opt, None);
        let (sa, sb) = tokio::join!(ma.new_stream_channel(b"x", 1), mb.accept_stream_channel());
        let (sa, sb) = (sa.unwrap(), sb.unwrap());
        let (mut app_a, loc_a) = tcp_pair().await;
        let (mut app_b, loc_b) = tcp_pair().await;
        let ja = tokio::spawn(sa.into_copy_bidirectional(loc_a));
        let jb = tokio::spawn(sb.into_copy_bidirectional(loc_b));
        let up_data = pattern(up, 7);
        let down_data = pattern(down, 99);
        let ud = up_data.clone();
        let dd = down_data.clone();
        let client = tokio::spawn(async move {
            match scenario {
                0 => {
                    app_a.write_all(&ud).await.unwrap();
                    app_a.shutdown().await.unwrap();
                    let mut got = Vec::new();
                    app_a.read_to_end(&mut got).await.unwrap();
                    assert_eq!(got, dd, "client received");
                }
                1 => {
                    let (mut r, mut w) = app_a.split();
                    let wr = async {
                        w.write_all(&ud).await.unwrap();
                        w.shutdown().await.unwrap();
                    };
                    let rd = async {
                        let mut got = Vec::new();
                        r.read_to_end(&mut got).await.unwrap();
                        assert_eq!(got, dd, "client received");
                    };
                    tokio::join!(wr, rd);
                }
                2 => {
                    app_a.write_all(&ud).await.unwrap();
                    let mut buf = vec![0u8; 1000];
                    let _ = app_a.read(&mut buf).await;
                    app_a.set_zero_linger().ok();
                    drop(app_a);
                }
                _ => {
                    // keeps sending until it fails or is done
                    let _ = app_a.write_all(&ud).await;
                    let _ = app_a.shutdown().await;
                    let mut got = Vec::new();
                    let _ = app_a.read_to_end(&mut got).await;
                }
            }
        });
        let ud = up_data.clone();
        let dd = down_data.clone();
        let server = tokio::spawn(async move {
            match scenario {
                0 => {
                    let mut got = Vec::new();
                    app_b.read_to_end(&mut got).await.unwrap();
                    assert_eq!(got, ud, "server received");
                    app_b.write_all(&dd).await.unwrap();
                    app_b.shutdown().await.unwrap();
                }
                1 => {
                    let (mut r, mut w) = app_b.split();
                    let wr = async {
                        w.write_all(&dd).await.unwrap();
                        w.shutdown().await.unwrap();
                    };
                    let rd = async {
                        let mut got = Vec::new();
                        r.read_to_end(&mut got).await.unwrap();
                        assert_eq!(got, ud, "server received");
                    };
                    tokio::join!(wr, rd);
                }
                2 => {
                    let mut got = vec![0u8; ud.len()];
                    app_b.read_exact(&mut got).await.unwrap();
                    assert_eq!(got, ud);
                    let _ = app_b.write_all(&dd).await;
                    let _ = app_b.shutdown().await;
                    let mut rest = Vec::new();
                    let _ = app_b.read_to_end(&mut rest).await;
                }
                _ => {
                    drop(app_b);
                }
            }
        });
        let all = async {
            client.await.unwrap();
            server.await.unwrap();
            let ra = ja.await.unwrap();
            let rb = jb.await.unwrap();
            (ra, rb)
        };
        let (ra, rb) = tokio::time::timeout(Duration::from_secs(20), all)
            .await
            .unwrap_or_else(|_| panic!("hang: rwnd={rwnd} link={link} up={up} down={down} scenario={scenario}"));
        if scenario <= 1 {
            assert_eq!(ra.unwrap(), (down, up));
            assert_eq!(rb.unwrap(), (up, down));
        }
        drop(ma);
        drop(mb);
    }

    #[tokio::test(flavor = "multi_thread", worker_threads = 4)]
    async fn real_tcp_matrix() {
        for &rwnd in &[1u32, 2, 7, 512] {
            for &link in &[64usize, 4096, 1 << 20] {
                for &(up, down) in &[(0usize, 0usize), (1, 300_000), (300_000, 1), (200_000, 200_000), (3_000_000, 10)] {
                    for scenario in 0..4u8 {
                        one(rwnd, link, up, down, scenario).await;
                    }
                }
            }
        }
    }
}
