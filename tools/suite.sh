#!/bin/bash
# Run the repository's own test suite on /repo's working tree (offline, own network namespace with loopback up) and
# print one summary line: "SUITE passed=<n> failed=<names>"; the two tests that need the network fail offline.
OUT=${1:-/tmp/suite-last.txt}
cd /repo || exit 2
unshare -n bash -c "ip link set lo up; timeout 1800 cargo test --workspace --no-fail-fast --offline -j 8" > "$OUT.log" 2>&1
p=$(grep -E "^test result" "$OUT.log" | sed -E 's/.* ([0-9]+) passed.*/\1/' | paste -sd+ | bc)
f=$(grep -E "^test [^ ]+ \.\.\. FAILED" "$OUT.log" | awk '{print $2}' | sort | paste -sd,)
echo "SUITE head=$(git rev-parse --short HEAD) passed=$p failed=$f" | tee "$OUT"
