//! C14 — the server opens a tunnel only for fully valid, authenticated upgrade requests.
//!
//! Bounded-exhaustive enumeration. Subject: `rusty_penguin_lib::server::State` called
//! in-process as a hyper `Service` (pass `inproc`, pass `backend`), and the public
//! `server::serve_connection` over a loopback TCP connection with literal HTTP/1.1 bytes
//! (pass `wire`), and `server::server_main` started from real `ServerArgs` on a loopback port
//! (pass `config-path`: the translation of the options into the gate). The oracle is a reference predicate written from the property statement
//! plus a differential requirement: every non-valid request to `/ws` (and, with obfuscation,
//! to `/health` and `/version`) must receive exactly the response the same request receives
//! on an unknown path of the same length.

use crate::Args;
use crate::report::Report;
use bytes::Bytes;
use http::{HeaderName, HeaderValue, Method, Request};
use http_body_util::BodyExt;
use hyper::service::Service;
use rusty_penguin_lib::arg::BackendUrl;
use rusty_penguin_lib::http::body::IncomingOrFullBody;
use rusty_penguin_lib::server::State;
use serde_json::{Value, json};
use std::collections::HashSet;
use std::net::SocketAddr;
use std::panic::AssertUnwindSafe;
use std::str::FromStr;
use std::sync::Mutex;
use std::sync::atomic::{AtomicU64, Ordering};
use std::time::Duration;

// ---------------------------------------------------------------------------------------
// The harness's own SHA-1 / base64 (RFC 3174 / RFC 4648) — never the subject's
// ---------------------------------------------------------------------------------------

fn sha1(data: &[u8]) -> [u8; 20] {
    let mut h: [u32; 5] = [0x6745_2301, 0xEFCD_AB89, 0x98BA_DCFE, 0x1032_5476, 0xC3D2_E1F0];
    let mut msg = data.to_vec();
    let bit_len = (data.len() as u64).wrapping_mul(8);
    msg.push(0x80);
    while msg.len() % 64 != 56 {
        msg.push(0);
    }
    msg.extend_from_slice(&bit_len.to_be_bytes());
    for chunk in msg.chunks_exact(64) {
        let mut w = [0u32; 80];
        for i in 0..16 {
            w[i] = u32::from_be_bytes([chunk[4 * i], chunk[4 * i + 1], chunk[4 * i + 2], chunk[4 * i + 3]]);
        }
        for i in 16..80 {
            w[i] = (w[i - 3] ^ w[i - 8] ^ w[i - 14] ^ w[i - 16]).rotate_left(1);
        }
        let [mut a, mut b, mut c, mut d, mut e] = h;
        for (i, wi) in w.iter().enumerate() {
            let (f, k) = match i {
                0..=19 => ((b & c) | (!b & d), 0x5A82_7999u32),
                20..=39 => (b ^ c ^ d, 0x6ED9_EBA1),
                40..=59 => ((b & c) | (b & d) | (c & d), 0x8F1B_BCDC),
                _ => (b ^ c ^ d, 0xCA62_C1D6),
            };
            let t = a.rotate_left(5).wrapping_add(f).wrapping_add(e).wrapping_add(k).wrapping_add(*wi);
            e = d;
            d = c;
            c = b.rotate_left(30);
            b = a;
            a = t;
        }
        h[0] = h[0].wrapping_add(a);
        h[1] = h[1].wrapping_add(b);
        h[2] = h[2].wrapping_add(c);
        h[3] = h[3].wrapping_add(d);
        h[4] = h[4].wrapping_add(e);
    }
    let mut out = [0u8; 20];
    for (i, x) in h.iter().enumerate() {
        out[4 * i..4 * i + 4].copy_from_slice(&x.to_be_bytes());
    }
    out
}

fn base64(data: &[u8]) -> String {
    const T: &[u8; 64] = b"ABCDEFGHIJKLMNOPQRSTUVWXYZabcdefghijklmnopqrstuvwxyz0123456789+/";
    let mut s = String::new();
    for c in data.chunks(3) {
        let n = (u32::from(c[0]) << 16) | (u32::from(*c.get(1).unwrap_or(&0)) << 8) | u32::from(*c.get(2).unwrap_or(&0));
        s.push(T[(n >> 18) as usize & 63] as char);
        s.push(T[(n >> 12) as usize & 63] as char);
        s.push(if c.len() > 1 { T[(n >> 6) as usize & 63] as char } else { '=' });
        s.push(if c.len() > 2 { T[n as usize & 63] as char } else { '=' });
    }
    s
}

/// RFC 6455 section 4.2.2: base64(SHA-1(key ++ GUID)).
fn accept_hash(key: &[u8]) -> String {
    let mut v = key.to_vec();
    v.extend_from_slice(b"258EAFA5-E914-47DA-95CA-C5AB0DC85B11");
    base64(&sha1(&v))
}

/// Is the value a well-formed Sec-WebSocket-Key (base64 of 16 bytes)?
fn key_well_formed(k: &str) -> bool {
    let b = k.as_bytes();
    b.len() == 24 && b[22] == b'=' && b[23] == b'=' && b[..22].iter().all(|c| c.is_ascii_alphanumeric() || *c == b'+' || *c == b'/')
}

// ---------------------------------------------------------------------------------------
// Literal requests / configurations
// ---------------------------------------------------------------------------------------

const PSK: &str = "Correct-Psk_1";
const NOT_FOUND_BODY: &str = "verif: configured not-found body";
const KEY_SAMPLE: &str = "dGhlIHNhbXBsZSBub25jZQ==";
const KEY_OTHER: &str = "7S3qp57psT3kwWF29CFJNg==";
const WANT_PROTOCOL: &str = "penguin-v7";

#[derive(Clone, Debug, PartialEq, Eq, Hash)]
struct Cfg {
    psk: Option<String>,
    obfs: bool,
    /// "none" | "echo" | "down"
    backend: String,
    forwarding_headers: bool,
}

impl Cfg {
    fn to_json(&self) -> Value {
        json!({"psk": self.psk, "obfs": self.obfs, "backend": self.backend, "forwarding_headers": self.forwarding_headers, "not_found_body": NOT_FOUND_BODY})
    }
    fn from_json(v: &Value) -> Self {
        Self {
            psk: v["psk"].as_str().map(str::to_string),
            obfs: v["obfs"].as_bool().expect("replay: obfs"),
            backend: v["backend"].as_str().expect("replay: backend").to_string(),
            forwarding_headers: v["forwarding_headers"].as_bool().unwrap_or(false),
        }
    }
}

#[derive(Clone, Debug, PartialEq, Eq, Hash)]
struct ReqLit {
    method: String,
    uri: String,
    headers: Vec<(String, String)>,
    on_upgrade: bool,
}

impl ReqLit {
    fn to_json(&self) -> Value {
        json!({"method": self.method, "uri": self.uri, "headers": self.headers.iter().map(|(n, v)| json!([n, v])).collect::<Vec<_>>(), "on_upgrade_extension": self.on_upgrade})
    }
    fn from_json(v: &Value) -> Self {
        Self {
            method: v["method"].as_str().expect("replay: method").into(),
            uri: v["uri"].as_str().expect("replay: uri").into(),
            headers: v["headers"].as_array().expect("replay: headers").iter().map(|p| (p[0].as_str().expect("name").to_string(), p[1].as_str().expect("value").to_string())).collect(),
            on_upgrade: v["on_upgrade_extension"].as_bool().unwrap_or(true),
        }
    }
    fn values(&self, name: &str) -> Vec<&str> {
        self.headers.iter().filter(|(n, _)| n.eq_ignore_ascii_case(name)).map(|(_, v)| v.as_str()).collect()
    }
    /// (prefix up to and including the authority, path, query with '?')
    fn split_uri(&self) -> (&str, &str, &str) {
        let u = self.uri.as_str();
        let (pre, rest) = match u.find("://") {
            Some(i) => {
                let after = &u[i + 3..];
                let j = after.find('/').unwrap_or(after.len());
                u.split_at(i + 3 + j)
            }
            None => ("", u),
        };
        let q = rest.find('?').unwrap_or(rest.len());
        (pre, &rest[..q], &rest[q..])
    }
    fn path(&self) -> &str {
        self.split_uri().1
    }
    /// The same request on an unknown path of the same length (so that length-dependent
    /// parts of a backend's answer cannot differ).
    fn twin(&self) -> Self {
        let (pre, path, q) = self.split_uri();
        let unknown: String = std::iter::once('/').chain(std::iter::repeat_n('z', path.len().saturating_sub(1))).collect();
        Self { uri: format!("{pre}{unknown}{q}"), ..self.clone() }
    }
}

// ---------------------------------------------------------------------------------------
// Reference predicate (from the statement)
// ---------------------------------------------------------------------------------------

#[derive(Clone, Debug, PartialEq, Eq)]
enum Class {
    /// every condition of the statement holds
    Valid,
    /// at least one condition certainly fails; the label names the first failing condition
    Invalid(String),
    /// no condition certainly fails, but the statement does not decide (label says why)
    Silent(String),
}

/// How a presented value relates to the wanted one (coarse, for violation keys).
fn relation(v: &str, want: &str, case_insensitive: bool) -> &'static str {
    let (a, b) = if case_insensitive { (v.to_ascii_lowercase(), want.to_ascii_lowercase()) } else { (v.to_string(), want.to_string()) };
    if a == b {
        "equal"
    } else if v.is_empty() {
        "empty"
    } else if !case_insensitive && v.eq_ignore_ascii_case(want) {
        "case-variant"
    } else if b.starts_with(&a) {
        "proper-prefix"
    } else if a.starts_with(&b) {
        "extended"
    } else if a.contains(&b) {
        "contains-wanted"
    } else {
        "other-value"
    }
}

fn classify(cfg: &Cfg, r: &ReqLit) -> Class {
    classify2(cfg, r).0
}

/// The reference class and the *first anomaly*: the dimension (method, path, query, psk, key,
/// connection, ...) of the first condition, in the statement's order, that is not cleanly
/// fulfilled. The anomaly is only used to group violations under stable keys.
fn classify2(cfg: &Cfg, r: &ReqLit) -> (Class, String) {
    fn note(silent: &mut Option<String>, s: String) {
        if silent.is_none() {
            *silent = Some(s);
        }
    }
    fn dim(label: &str) -> String {
        label.split('=').next().unwrap_or(label).to_string()
    }
    let mut silent: Option<String> = None;
    let invalid = |silent: &Option<String>, why: String| -> (Class, String) {
        let anomaly = dim(silent.as_deref().unwrap_or(&why));
        (Class::Invalid(why), anomaly)
    };
    if r.method != "GET" {
        return invalid(&silent, format!("method={}", if r.method.eq_ignore_ascii_case("GET") { "get-other-case" } else { "not-GET" }));
    }
    let (_, path, query) = r.split_uri();
    if path != "/ws" {
        return invalid(&silent, "path".into());
    }
    // PSK: byte-for-byte
    if let Some(psk) = &cfg.psk {
        let vals = r.values("x-penguin-psk");
        let eq = vals.iter().filter(|v| **v == psk).count();
        if eq == 0 {
            let why = vals.first().map_or("absent", |v| relation(v, psk, false));
            return invalid(&silent, format!("psk={why}"));
        }
        if eq != vals.len() {
            note(&mut silent, "psk=duplicate-mixed".into());
        }
    }
    // key: present
    let keys = r.values("sec-websocket-key");
    if keys.is_empty() {
        return invalid(&silent, "key=absent".into());
    }
    if keys.len() > 1 {
        note(&mut silent, "key=duplicate".into());
    } else if keys[0].is_empty() {
        // (a header line without a value: whether that is "a Sec-WebSocket-Key" the statement does not say)
        note(&mut silent, "key=empty".into());
    }
    // a key that is present and not the base64 of 16 octets is still "a Sec-WebSocket-Key": the statement asks for its
    // presence, not for its shape (and the accept hash is defined over its octets whatever they are)
    let _ = key_well_formed;
    // the four compared headers: case-insensitive equality
    for (name, want) in [("connection", "upgrade"), ("upgrade", "websocket"), ("sec-websocket-version", "13"), ("sec-websocket-protocol", WANT_PROTOCOL)] {
        let vals = r.values(name);
        let eq = vals.iter().filter(|v| v.eq_ignore_ascii_case(want)).count();
        if eq == 0 {
            let why = vals.first().map_or("absent", |v| relation(v, want, true));
            return invalid(&silent, format!("{name}={why}"));
        }
        if eq != vals.len() {
            note(&mut silent, format!("{name}=duplicate-mixed"));
        }
    }
    if !r.on_upgrade {
        note(&mut silent, "no-OnUpgrade-extension".into());
    }
    if !query.is_empty() {
        note(&mut silent, "query-string".into());
    }
    match silent {
        Some(s) => {
            let d = dim(&s);
            (Class::Silent(s), d)
        }
        None => (Class::Valid, "none".into()),
    }
}

/// The plainest fully valid upgrade request under `cfg`.
fn plain_valid_request(cfg: &Cfg) -> ReqLit {
    let mut headers: Vec<(String, String)> = [("connection", "upgrade"), ("upgrade", "websocket"), ("sec-websocket-version", "13"), ("sec-websocket-protocol", WANT_PROTOCOL), ("sec-websocket-key", KEY_SAMPLE)]
        .iter()
        .map(|(n, v)| ((*n).to_string(), (*v).to_string()))
        .collect();
    if let Some(p) = &cfg.psk {
        headers.push(("x-penguin-psk".into(), p.clone()));
    }
    ReqLit { method: "GET".into(), uri: "/ws".into(), headers, on_upgrade: true }
}

/// What differs between two observations (for keys).
fn diff_signature(a: &Out, b: &Out) -> String {
    match (a, b) {
        (Out::Resp { status: sa, headers: ha, .. }, Out::Resp { status: sb, headers: hb, .. }) => {
            if sa != sb {
                format!("status-{sa}-instead-of-{sb}")
            } else if ha != hb {
                "headers".into()
            } else {
                "body".into()
            }
        }
        (Out::Err(_), Out::Resp { .. }) => "service-error-instead-of-response".into(),
        (Out::Resp { .. }, Out::Err(_)) => "response-instead-of-service-error".into(),
        _ => "other".into(),
    }
}

/// The first way a *valid* request deviates from the plainest valid one (for keys).
fn valid_flavour(cfg: &Cfg, r: &ReqLit) -> String {
    if r.uri != "/ws" {
        return "uri-form".into();
    }
    for (name, want) in [("connection", "upgrade"), ("upgrade", "websocket"), ("sec-websocket-version", "13"), ("sec-websocket-protocol", WANT_PROTOCOL)] {
        let v = r.values(name);
        if v.len() > 1 {
            return format!("{name}=duplicate-valid");
        }
        if v[0] != want {
            return format!("{name}=case-changed");
        }
    }
    if r.values("sec-websocket-key") != [KEY_SAMPLE] {
        return "key=other".into();
    }
    let p = r.values("x-penguin-psk");
    if cfg.psk.is_none() && !p.is_empty() {
        return "psk-header-sent-but-none-configured".into();
    }
    "plain".into()
}

// ---------------------------------------------------------------------------------------
// Observations
// ---------------------------------------------------------------------------------------

#[derive(Clone, Debug, PartialEq, Eq)]
enum Out {
    Resp { status: u16, headers: Vec<(String, Vec<u8>)>, body: Vec<u8> },
    Err(String),
    Panic(String),
    Hang,
}

impl Out {
    fn status(&self) -> Option<u16> {
        match self {
            Out::Resp { status, .. } => Some(*status),
            _ => None,
        }
    }
    fn to_json(&self) -> Value {
        match self {
            Out::Resp { status, headers, body } => json!({"status": status,
                "headers": headers.iter().map(|(n, v)| json!([n, String::from_utf8_lossy(v)])).collect::<Vec<_>>(),
                "body": String::from_utf8_lossy(&body[..body.len().min(400)])}),
            Out::Err(e) => json!({"service_error": e}),
            Out::Panic(p) => json!({"panic": p}),
            Out::Hang => json!("no response within the time limit"),
        }
    }
    fn brief(&self) -> String {
        let s = self.to_json().to_string();
        if s.len() > 300 { format!("{}...", &s[..300]) } else { s }
    }
}

/// Is `o` a correct 101 for one of the presented keys? `Err(what)` names what is wrong.
fn check_101(o: &Out, keys: &[&str]) -> Result<(), String> {
    let Out::Resp { status, headers, .. } = o else { return Err("no-response".into()) };
    if *status != 101 {
        return Err(format!("status-{status}"));
    }
    let get = |n: &str| headers.iter().filter(|(k, _)| k == n).map(|(_, v)| v.as_slice()).collect::<Vec<_>>();
    for (n, want) in [("connection", "upgrade"), ("upgrade", "websocket"), ("sec-websocket-protocol", WANT_PROTOCOL)] {
        let v = get(n);
        if v.is_empty() || !v.iter().all(|x| x.eq_ignore_ascii_case(want.as_bytes())) {
            return Err(format!("header-{n}"));
        }
    }
    let acc = get("sec-websocket-accept");
    if acc.len() != 1 || !keys.iter().any(|k| accept_hash(k.as_bytes()).as_bytes() == acc[0]) {
        return Err("accept-hash".into());
    }
    Ok(())
}

// ---------------------------------------------------------------------------------------
// Running the subject in-process
// ---------------------------------------------------------------------------------------

fn panic_text(e: &(dyn std::any::Any + Send)) -> String {
    if let Some(s) = e.downcast_ref::<String>() {
        s.clone()
    } else if let Some(s) = e.downcast_ref::<&str>() {
        (*s).to_string()
    } else {
        "panic".into()
    }
}

async fn catch<F: Future>(f: F) -> Result<F::Output, String> {
    use std::pin::pin;
    use std::task::Poll;
    let mut f = pin!(f);
    std::future::poll_fn(move |cx| match std::panic::catch_unwind(AssertUnwindSafe(|| f.as_mut().poll(cx))) {
        Ok(Poll::Ready(v)) => Poll::Ready(Ok(v)),
        Ok(Poll::Pending) => Poll::Pending,
        Err(e) => Poll::Ready(Err(panic_text(&*e))),
    })
    .await
}

fn build_request(r: &ReqLit) -> Request<IncomingOrFullBody> {
    let mut b = Request::builder().method(Method::from_bytes(r.method.as_bytes()).expect("harness: method token")).uri(r.uri.as_str());
    for (n, v) in &r.headers {
        b = b.header(HeaderName::from_bytes(n.as_bytes()).expect("harness: header name"), HeaderValue::from_bytes(v.as_bytes()).expect("harness: header value"));
    }
    if r.on_upgrade {
        // exactly what the crate's own positive unit test attaches
        b = b.extension(hyper::upgrade::on(Request::new(())));
    }
    b.body(IncomingOrFullBody::new_full(Bytes::new())).expect("harness: request")
}

async fn call_subject(state: &State, r: &ReqLit) -> Out {
    let fut = async {
        let req = build_request(r);
        match Service::call(state, req).await {
            Err(e) => Out::Err(e.to_string()),
            Ok(resp) => {
                let (parts, body) = resp.into_parts();
                let body = match body.collect().await {
                    Ok(b) => b.to_bytes().to_vec(),
                    Err(e) => return Out::Err(format!("body: {e}")),
                };
                let mut headers: Vec<(String, Vec<u8>)> = parts.headers.iter().map(|(n, v)| (n.as_str().to_string(), v.as_bytes().to_vec())).collect();
                headers.sort();
                Out::Resp { status: parts.status.as_u16(), headers, body }
            }
        }
    };
    match tokio::time::timeout(Duration::from_secs(60), catch(fut)).await {
        Err(_) => Out::Hang,
        Ok(Err(p)) => Out::Panic(p),
        Ok(Ok(o)) => o,
    }
}

struct Backends {
    echo: SocketAddr,
    down: SocketAddr,
}

fn leak<T>(x: T) -> &'static T {
    Box::leak(Box::new(x))
}

async fn make_state(cfg: &Cfg, backends: Option<&Backends>) -> State {
    let mut st = State::new().await.expect("State::new").with_not_found_resp(NOT_FOUND_BODY).obfs(cfg.obfs);
    if let Some(p) = &cfg.psk {
        st = st.with_ws_psk(Some(leak(HeaderValue::from_str(p).expect("psk value"))));
    }
    match cfg.backend.as_str() {
        "none" => st = st.with_backend_http2_support(false),
        which => {
            let b = backends.expect("backend needed");
            let addr = if which == "echo" { b.echo } else { b.down };
            let url = BackendUrl::from_str(&format!("http://{addr}")).expect("backend url");
            st = st.with_backend(Some(leak(url))).backend_add_forwarding_headers(cfg.forwarding_headers).with_client_addr(Some(SocketAddr::from(([192, 0, 2, 7], 4711))));
        }
    }
    st
}

// ---------------------------------------------------------------------------------------
// The echo backend (harness side): reflects method, path, headers, body length
// ---------------------------------------------------------------------------------------

fn fnv(s: &str) -> u64 {
    s.bytes().fold(0xcbf2_9ce4_8422_2325u64, |h, b| (h ^ u64::from(b)).wrapping_mul(0x0100_0000_01b3))
}

async fn echo_service(req: Request<hyper::body::Incoming>) -> Result<http::Response<http_body_util::Full<Bytes>>, std::convert::Infallible> {
    let (parts, body) = req.into_parts();
    let blen = body.collect().await.map(|b| b.to_bytes().len()).unwrap_or(usize::MAX);
    let mut hs: Vec<String> = parts.headers.iter().map(|(n, v)| format!("H {}: {}", n.as_str(), String::from_utf8_lossy(v.as_bytes()))).collect();
    hs.sort();
    let rest = format!("M {}\nV {:?}\nB {blen}\n{}\n", parts.method, parts.version, hs.join("\n"));
    let path = parts.uri.path_and_query().map_or("", |p| p.as_str()).to_string();
    let text = format!("P {path}\n{rest}");
    Ok(http::Response::builder()
        .status(207)
        .header("x-verif-echo-digest", format!("{:016x}", fnv(&rest)))
        .header("x-verif-echo-path", path)
        .body(http_body_util::Full::new(Bytes::from(text)))
        .expect("echo response"))
}

fn start_backends() -> Backends {
    let (tx, rx) = std::sync::mpsc::channel();
    std::thread::spawn(move || {
        let rt = tokio::runtime::Builder::new_multi_thread().worker_threads(2).enable_all().build().expect("backend runtime");
        rt.block_on(async move {
            let l = tokio::net::TcpListener::bind("127.0.0.1:0").await.expect("bind backend");
            // the "down" backend: accepts and hangs up at once (a port that is merely closed could
            // be taken by another process while the run lasts)
            let broken = tokio::net::TcpListener::bind("127.0.0.1:0").await.expect("bind broken backend");
            tx.send((l.local_addr().expect("addr"), broken.local_addr().expect("addr"))).expect("send addr");
            tokio::spawn(async move {
                loop {
                    if let Ok((s, _)) = broken.accept().await {
                        drop(s);
                    }
                }
            });
            loop {
                let Ok((s, _)) = l.accept().await else { continue };
                tokio::spawn(async move {
                    let mut b = hyper::server::conn::http1::Builder::new();
                    b.auto_date_header(false);
                    let _ = b.serve_connection(hyper_util::rt::TokioIo::new(s), hyper::service::service_fn(echo_service)).await;
                });
            }
        });
    });
    let (echo, down) = rx.recv_timeout(Duration::from_secs(10)).expect("backend did not start");
    Backends { echo, down }
}

/// Make two answers of the echo backend comparable: the reflected path is the one thing that
/// legitimately differs between a request and its twin; replace it (only if it is exactly the
/// expected one) by a placeholder.
fn normalise(o: &Out, own_path_and_query: &str) -> Out {
    let Out::Resp { status, headers, body } = o else { return o.clone() };
    let mut headers = headers.clone();
    for (n, v) in &mut headers {
        if n == "x-verif-echo-path" && v == own_path_and_query.as_bytes() {
            *v = b"<own path>".to_vec();
        }
    }
    let mut body = body.clone();
    let line = format!("P {own_path_and_query}\n");
    if body.starts_with(line.as_bytes()) {
        let mut nb = format!("P {}\n", "#".repeat(own_path_and_query.len())).into_bytes();
        nb.extend_from_slice(&body[line.len()..]);
        body = nb;
    }
    Out::Resp { status: *status, headers, body }
}

// ---------------------------------------------------------------------------------------
// Judging one case
// ---------------------------------------------------------------------------------------

#[derive(Default)]
struct Tally {
    evaluations: AtomicU64,
    cases: AtomicU64,
    ref_valid: AtomicU64,
    ref_invalid: AtomicU64,
    ref_silent: AtomicU64,
    seen_101: AtomicU64,
    seen_fallback_equal: AtomicU64,
    silent_101: AtomicU64,
    silent_fallback: AtomicU64,
    backend_reached: AtomicU64,
    flaky_retries: AtomicU64,
}

struct Sink<'a> {
    rep: &'a Mutex<Report>,
    tally: &'a Tally,
}

impl Sink<'_> {
    fn viol(&self, key: String, desc: String, replay: Value) {
        self.rep.lock().unwrap().violation(key, desc, replay);
    }
}

fn replay_json(transport: &str, cfg: &Cfg, r: &ReqLit) -> Value {
    json!({"kind": "request", "transport": transport, "cfg": cfg.to_json(), "request": r.to_json()})
}

fn path_class(p: &str) -> &'static str {
    match p {
        "/ws" => "ws",
        "/health" => "health",
        "/version" => "version",
        _ if p.eq_ignore_ascii_case("/ws") => "ws-other-case",
        _ if p.starts_with("/ws") => "ws-prefixed",
        _ if p.ends_with("/ws") => "ws-suffixed",
        _ if p.eq_ignore_ascii_case("/health") || p.eq_ignore_ascii_case("/version") || p.starts_with("/health") || p.starts_with("/version") => "health-version-like",
        _ => "other",
    }
}

/// Run one (configuration, request) case in-process and compare with the reference.
/// Returns the observation (for replay / samples).
async fn judge_inproc(state: &State, cfg: &Cfg, r: &ReqLit, sink: &Sink<'_>, transport: &str) -> Out {
    let t = sink.tally;
    t.cases.fetch_add(1, Ordering::Relaxed);
    let (class, anomaly) = classify2(cfg, r);
    let path = r.path().to_string();
    let pq = {
        let (_, p, q) = r.split_uri();
        format!("{p}{q}")
    };
    let out = call_subject(state, r).await;
    t.evaluations.fetch_add(1, Ordering::Relaxed);
    let rj = || replay_json(transport, cfg, r);
    let cfgs = format!("psk {}, obfs {}, backend {}", if cfg.psk.is_some() { "configured" } else { "not configured" }, cfg.obfs, cfg.backend);
    match &out {
        Out::Panic(p) => {
            sink.viol(format!("panic.{}", path_class(&path)), format!("the service panicked: {p} [{cfgs}] {}", r.to_json()), rj());
            return out;
        }
        Out::Hang => {
            sink.viol(format!("hang.{}", path_class(&path)), format!("no response within 60 s [{cfgs}] {}", r.to_json()), rj());
            return out;
        }
        _ => {}
    }
    if out.status() == Some(101) {
        t.seen_101.fetch_add(1, Ordering::Relaxed);
        // let the task spawned by the upgrade path run to its end
        tokio::task::yield_now().await;
    }
    if cfg.backend == "echo" && out.status() == Some(207) {
        t.backend_reached.fetch_add(1, Ordering::Relaxed);
    }
    let keys = r.values("sec-websocket-key");
    // ---- paths other than /ws never upgrade
    if path != "/ws" {
        t.ref_invalid.fetch_add(1, Ordering::Relaxed);
        if out.status() == Some(101) {
            sink.viol(format!("upgrade-granted.path={}", path_class(&path)), format!("101 for a request whose path is {path:?} [{cfgs}] {}", r.to_json()), rj());
            return out;
        }
        let special = path == "/health" || path == "/version";
        if special && !cfg.obfs {
            return out; // the statement leaves the plain /health, /version answers to other properties
        }
        if special {
            // obfuscation: indistinguishable from an unknown path
            let twin = r.twin();
            let (tp, tq) = (twin.path().to_string(), twin.split_uri().2.to_string());
            let mut same = false;
            let mut last = (out.clone(), out.clone());
            for attempt in 0..3 {
                let a = if attempt == 0 { out.clone() } else { call_subject(state, r).await };
                let b = call_subject(state, &twin).await;
                t.evaluations.fetch_add(if attempt == 0 { 1 } else { 2 }, Ordering::Relaxed);
                let (na, nb) = (normalise(&a, &pq), normalise(&b, &format!("{tp}{tq}")));
                same = na == nb;
                last = (a, b);
                if same || cfg.backend == "none" {
                    break;
                }
                t.flaky_retries.fetch_add(1, Ordering::Relaxed);
            }
            if same {
                t.seen_fallback_equal.fetch_add(1, Ordering::Relaxed);
            } else {
                sink.viol(
                    format!("obfs.{}-distinguishable", path_class(&path)),
                    format!("with obfuscation on, {path} answers {} but the unknown path {tp} answers {} [{cfgs}] {}", last.0.brief(), last.1.brief(), r.to_json()),
                    rj(),
                );
            }
            return out;
        }
        // genuinely unknown path: "backend or configured 404"
        if cfg.backend != "echo" {
            let ok = matches!(&out, Out::Resp { status: 404, body, .. } if body == NOT_FOUND_BODY.as_bytes());
            if !ok {
                sink.viol(format!("unknown-path.not-the-configured-404.{}", path_class(&path)), format!("unknown path {path:?} answers {} instead of 404 with the configured body [{cfgs}] {}", out.brief(), r.to_json()), rj());
            }
        }
        return out;
    }
    // ---- /ws
    match &class {
        Class::Valid => {
            t.ref_valid.fetch_add(1, Ordering::Relaxed);
            if let Err(what) = check_101(&out, &keys) {
                let mut fl = valid_flavour(cfg, r);
                if out.status() != Some(101) && fl != "plain" {
                    // group under "plain" when even the plainest valid request is refused
                    let plain = plain_valid_request(cfg);
                    let po = call_subject(state, &plain).await;
                    t.evaluations.fetch_add(1, Ordering::Relaxed);
                    if check_101(&po, &[KEY_SAMPLE]).is_err() {
                        fl = "plain".into();
                    }
                }
                if out.status() == Some(101) {
                    sink.viol(format!("101-malformed.{what}"), format!("the 101 response is wrong ({what}): {} [{cfgs}] {}", out.brief(), r.to_json()), rj());
                } else {
                    sink.viol(
                        format!("valid-upgrade-refused.psk-{}.{fl}", if cfg.psk.is_some() { "configured" } else { "none" }),
                        format!("a fully valid upgrade request ({fl}) is answered with {} [{cfgs}] {}", out.brief(), r.to_json()),
                        rj(),
                    );
                }
            }
        }
        Class::Invalid(why) | Class::Silent(why) => {
            let invalid = matches!(class, Class::Invalid(_));
            if invalid {
                t.ref_invalid.fetch_add(1, Ordering::Relaxed);
            } else {
                t.ref_silent.fetch_add(1, Ordering::Relaxed);
            }
            if out.status() == Some(101) {
                if invalid {
                    sink.viol(
                        format!("upgrade-granted.{why}"),
                        format!("101 although the request is not valid ({why}) [{cfgs}] {}", r.to_json()),
                        rj(),
                    );
                } else if let Err(what) = check_101(&out, &keys) {
                    sink.viol(format!("101-malformed.{what}"), format!("the 101 response is wrong ({what}): {} [{cfgs}] {}", out.brief(), r.to_json()), rj());
                } else {
                    t.silent_101.fetch_add(1, Ordering::Relaxed);
                }
                return out;
            }
            // must be exactly what the unknown path answers
            let twin = r.twin();
            let (tp, tq) = (twin.path().to_string(), twin.split_uri().2.to_string());
            let mut same = false;
            let mut last = (out.clone(), out.clone());
            let mut sig = String::new();
            for attempt in 0..3 {
                let a = if attempt == 0 { out.clone() } else { call_subject(state, r).await };
                let b = call_subject(state, &twin).await;
                t.evaluations.fetch_add(if attempt == 0 { 1 } else { 2 }, Ordering::Relaxed);
                let (na, nb) = (normalise(&a, &pq), normalise(&b, &format!("{tp}{tq}")));
                same = na == nb;
                sig = diff_signature(&na, &nb);
                last = (a, b);
                if same || cfg.backend == "none" {
                    break;
                }
                t.flaky_retries.fetch_add(1, Ordering::Relaxed);
            }
            if same {
                t.seen_fallback_equal.fetch_add(1, Ordering::Relaxed);
                if !invalid {
                    t.silent_fallback.fetch_add(1, Ordering::Relaxed);
                }
            } else {
                sink.viol(
                    format!("ws-fallback-differs.{sig}.{anomaly}"),
                    format!("a non-upgradable request to /ws ({why}) answers {} but the same request on the unknown path {tp} answers {} [{cfgs}] {}", last.0.brief(), last.1.brief(), r.to_json()),
                    rj(),
                );
            }
        }
    }
    out
}

// ---------------------------------------------------------------------------------------
// The domain
// ---------------------------------------------------------------------------------------

struct Variant {
    label: &'static str,
    /// header values (for header dimensions) or the single literal (method / uri)
    values: &'static [&'static str],
    /// member of the design's core product
    core: bool,
}

const fn v(label: &'static str, values: &'static [&'static str], core: bool) -> Variant {
    Variant { label, values, core }
}

struct Dim {
    name: &'static str,
    /// header name, or "" for method / uri / on_upgrade
    header: &'static str,
    variants: Vec<Variant>,
}

fn compared_header(name: &'static str, header: &'static str, want: &'static [&'static str; 6], more: &'static [(&'static str, &'static str, bool)]) -> Dim {
    // want = [exact, case-changed, near-miss, proper prefix, extended, other value]
    let l = |xs: Vec<&'static str>| -> &'static [&'static str] { Box::leak(xs.into_boxed_slice()) };
    Dim {
        name,
        header,
        variants: vec![
            v("exact", l(vec![want[0]]), true),
            v("absent", &[], true),
            v("case-changed", l(vec![want[1]]), true),
            v("near-miss", l(vec![want[2]]), true),
            v("empty", &[""], true),
            v("dup-valid-valid", l(vec![want[0], want[1]]), true),
            v("dup-valid-invalid", l(vec![want[0], want[2]]), true),
            v("dup-invalid-valid", l(vec![want[2], want[0]]), false),
            v("proper-prefix", l(vec![want[3]]), false),
            v("extended", l(vec![want[4]]), false),
            v("other-value", l(vec![want[5]]), false),
        ]
        .into_iter()
        .chain(more.iter().map(|(n, val, core)| v(n, l(vec![*val]), *core)))
        .collect(),
    }
}

fn dims() -> Vec<Dim> {
    vec![
        Dim { name: "method", header: "", variants: vec![v("GET", &["GET"], true), v("POST", &["POST"], true), v("HEAD", &["HEAD"], true), v("PUT", &["PUT"], true), v("get", &["get"], false), v("DELETE", &["DELETE"], false), v("OPTIONS", &["OPTIONS"], false)] },
        Dim {
            name: "uri",
            header: "",
            variants: vec![
                v("/ws", &["/ws"], true),
                v("/ws/", &["/ws/"], true),
                v("/WS", &["/WS"], true),
                v("/x", &["/x"], true),
                v("/health", &["/health"], true),
                v("/version", &["/version"], true),
                v("absolute-/ws", &["http://h.test/ws"], false),
                v("/ws?query", &["/ws?x=1"], false),
                v("/wsx", &["/wsx"], false),
                v("/w", &["/w"], false),
                v("//ws", &["//ws"], false),
                v("/x/ws", &["/x/ws"], false),
                v("/", &["/"], false),
                v("/Health", &["/Health"], false),
                v("/health/", &["/health/"], false),
                v("absolute-/health", &["http://h.test/health"], false),
                v("/version?query", &["/version?v=1"], false),
            ],
        },
        compared_header("connection", "connection", &["upgrade", "UpGrAdE", "keep-alive, upgrade", "upgrad", "upgrade2", "close"], &[]),
        compared_header("upgrade", "upgrade", &["websocket", "WEBSOCKET", "websocket2", "websocke", "websocket/13", "h2c"], &[]),
        // values that are the number 13 without being the string "13"
        compared_header("version", "sec-websocket-version", &["13", "13", "12", "1", "130", "8"], &[("numeric-013", "013", true), ("numeric-plus13", "+13", false), ("numeric-0013", "0013", false), ("numeric-13.0", "13.0", false), ("list-13-8", "13, 8", false)]),
        compared_header("protocol", "sec-websocket-protocol", &["penguin-v7", "Penguin-V7", "penguin-v6", "penguin-v", "penguin-v70", "chat"], &[("list-with-valid", "chat, penguin-v7", false)]),
        Dim {
            name: "key",
            header: "sec-websocket-key",
            variants: vec![
                v("rfc-sample", &[KEY_SAMPLE], true),
                v("absent", &[], true),
                v("other", &[KEY_OTHER], true),
                v("empty", &[""], false),
                v("malformed", &["not a key"], false),
                v("short-base64", &["c2hvcnQ="], true),
                v("opaque-token", &["x"], false),
                // octets outside visible ASCII (obs-text) are legal in a header value; the accept hash is over the octets
                v("non-ascii", &["dGhlIHNhbXBsZSBub25jZQ=\u{e9}"], false),
                v("duplicate", &[KEY_SAMPLE, KEY_OTHER], false),
            ],
        },
        Dim {
            name: "psk-header",
            header: "x-penguin-psk",
            variants: vec![
                v("equal", &[PSK], true),
                v("absent", &[], true),
                v("proper-prefix", &["Correct-Psk_"], true),
                v("case-variant", &["correct-psk_1"], true),
                v("padded", &["Correct-Psk_1 "], true),
                v("extended", &["Correct-Psk_1x"], false),
                v("non-ascii", &["Correct-Psk_\u{e9}"], false),
                v("empty", &[""], false),
                v("lead-padded", &[" Correct-Psk_1"], false),
                v("other-value", &["hunter2"], false),
                v("dup-equal-wrong", &[PSK, "hunter2"], false),
                v("dup-wrong-equal", &["hunter2", PSK], false),
            ],
        },
        Dim { name: "on-upgrade", header: "", variants: vec![v("present", &["1"], true), v("absent", &["0"], true)] },
    ]
}

/// `sec-websocket-version` has no case: its "case-changed" variant equals "exact"; the literal
/// would repeat. Remove literal duplicates inside each dimension so that distinct index
/// vectors are distinct requests.
fn dedup_dims(mut ds: Vec<Dim>) -> Vec<Dim> {
    for d in &mut ds {
        let mut seen: HashSet<Vec<&str>> = HashSet::new();
        d.variants.retain(|x| seen.insert(x.values.to_vec()));
    }
    ds
}

fn literal(ds: &[Dim], idx: &[usize]) -> ReqLit {
    let mut r = ReqLit { method: String::new(), uri: String::new(), headers: Vec::with_capacity(10), on_upgrade: true };
    for (d, &i) in ds.iter().zip(idx) {
        let var = &d.variants[i];
        match d.name {
            "method" => r.method = var.values[0].to_string(),
            "uri" => r.uri = var.values[0].to_string(),
            "on-upgrade" => r.on_upgrade = var.values[0] == "1",
            _ => {
                for val in var.values {
                    r.headers.push((d.header.to_string(), (*val).to_string()));
                }
            }
        }
    }
    r
}

fn describe(ds: &[Dim], idx: &[usize]) -> String {
    ds.iter().zip(idx).filter(|(_, i)| **i != 0).map(|(d, &i)| format!("{}={}", d.name, d.variants[i].label)).collect::<Vec<_>>().join(",")
}

/// All index vectors with at most `k` non-base entries; `allowed[d]` lists the usable variants.
fn deviations(allowed: &[Vec<usize>], k: usize) -> Vec<Vec<usize>> {
    fn rec(allowed: &[Vec<usize>], d: usize, left: usize, cur: &mut Vec<usize>, out: &mut Vec<Vec<usize>>) {
        if d == allowed.len() {
            out.push(cur.clone());
            return;
        }
        cur.push(0);
        rec(allowed, d + 1, left, cur, out);
        cur.pop();
        if left > 0 {
            for &i in &allowed[d] {
                if i != 0 {
                    cur.push(i);
                    rec(allowed, d + 1, left - 1, cur, out);
                    cur.pop();
                }
            }
        }
    }
    let mut out = Vec::new();
    rec(allowed, 0, k, &mut Vec::new(), &mut out);
    out
}

fn inproc_cfgs(backend: &str, fwd: &[bool]) -> Vec<Cfg> {
    let mut v = Vec::new();
    for psk in [None, Some(PSK.to_string())] {
        for obfs in [false, true] {
            for f in fwd {
                v.push(Cfg { psk: psk.clone(), obfs, backend: backend.into(), forwarding_headers: *f });
            }
        }
    }
    v
}

fn runtime() -> tokio::runtime::Runtime {
    tokio::runtime::Builder::new_current_thread().enable_all().build().expect("tokio runtime")
}

/// Run `work(i)` for every i in 0..n on `threads` workers; each worker owns a runtime and its
/// own `State` per configuration.
fn run_parallel(threads: usize, cfgs: &[Cfg], backends: Option<&Backends>, n: u64, sink: &Sink<'_>, ds: &[Dim], decode: &(dyn Fn(u64) -> Vec<usize> + Sync), transport: &str, samples: &Mutex<Vec<Value>>, sample_every: u64) {
    let next = AtomicU64::new(0);
    const CHUNK: u64 = 256;
    std::thread::scope(|s| {
        for _ in 0..threads {
            s.spawn(|| {
                let rt = runtime();
                let states: Vec<State> = cfgs.iter().map(|c| rt.block_on(make_state(c, backends))).collect();
                loop {
                    let lo = next.fetch_add(CHUNK, Ordering::Relaxed);
                    if lo >= n {
                        break;
                    }
                    let hi = (lo + CHUNK).min(n);
                    rt.block_on(async {
                        for i in lo..hi {
                            let idx = decode(i);
                            let r = literal(ds, &idx);
                            for (cfg, st) in cfgs.iter().zip(&states) {
                                let out = judge_inproc(st, cfg, &r, sink, transport).await;
                                if sample_every > 0 && i % sample_every == sample_every / 2 && cfg.psk.is_some() && !cfg.obfs {
                                    samples.lock().unwrap().push(json!({"transport": transport, "deviations": describe(ds, &idx), "cfg": cfg.to_json(), "request": r.to_json(), "reference": format!("{:?}", classify(cfg, &r)), "observed": out.to_json()}));
                                }
                            }
                        }
                    });
                }
            });
        }
    });
}

// ---------------------------------------------------------------------------------------
// Wire pass: literal HTTP/1.1 bytes through the public `serve_connection`
// ---------------------------------------------------------------------------------------

fn wire_bytes(r: &ReqLit) -> Vec<u8> {
    let mut s = format!("{} {} HTTP/1.1\r\nhost: verif.test\r\n", r.method, r.uri);
    for (n, v) in &r.headers {
        s.push_str(&format!("{n}: {v}\r\n"));
    }
    s.push_str("\r\n");
    s.into_bytes()
}

#[derive(Clone, Debug, PartialEq, Eq)]
struct WireOut {
    out: Out,
    /// after a 101: did a WebSocket endpoint answer our Ping with the matching Pong?
    tunnel_alive: Option<bool>,
}

/// Write the literal request on a connected stream and read the response (head, then the body
/// announced by content-length; after a 101 a masked Ping is sent and the Pong awaited).
async fn wire_exchange(c: &mut tokio::net::TcpStream, r: &ReqLit) -> WireOut {
    use tokio::io::{AsyncReadExt, AsyncWriteExt};
    {
        if let Err(e) = c.write_all(&wire_bytes(r)).await {
            return WireOut { out: Out::Err(format!("cannot write the request: {e}")), tunnel_alive: None };
        }
        // read the head
        let mut buf = Vec::new();
        let mut tmp = [0u8; 2048];
        let head_end = loop {
            if let Some(p) = buf.windows(4).position(|w| w == b"\r\n\r\n") {
                break Some(p + 4);
            }
            match c.read(&mut tmp).await {
                Ok(0) | Err(_) => break None,
                Ok(n) => buf.extend_from_slice(&tmp[..n]),
            }
        };
        let Some(head_end) = head_end else {
            return WireOut { out: Out::Err(format!("connection closed without a response head ({} bytes)", buf.len())), tunnel_alive: None };
        };
        let head = String::from_utf8_lossy(&buf[..head_end]).to_string();
        let mut lines = head.split("\r\n");
        let status_line = lines.next().unwrap_or("");
        let status: u16 = status_line.split(' ').nth(1).and_then(|x| x.parse().ok()).unwrap_or(0);
        let mut headers: Vec<(String, Vec<u8>)> = Vec::new();
        let mut clen = 0usize;
        for l in lines {
            if let Some((n, v)) = l.split_once(':') {
                let n = n.to_ascii_lowercase();
                let v = v.trim();
                if n == "content-length" {
                    clen = v.parse().unwrap_or(0);
                }
                if n != "date" {
                    headers.push((n, v.as_bytes().to_vec()));
                }
            }
        }
        headers.sort();
        headers.push(("<status-line>".into(), status_line.as_bytes().to_vec()));
        let mut body = buf[head_end..].to_vec();
        let mut tunnel_alive = None;
        if status == 101 {
            // masked Ping "verif" -> expect Pong "verif"
            let mask = [0x11u8, 0x22, 0x33, 0x44];
            let mut f = vec![0x89, 0x80 | 5];
            f.extend_from_slice(&mask);
            f.extend(b"verif".iter().enumerate().map(|(i, b)| b ^ mask[i % 4]));
            let _ = c.write_all(&f).await;
            let want = [0x8Au8, 0x05, b'v', b'e', b'r', b'i', b'f'];
            let got = tokio::time::timeout(Duration::from_secs(20), async {
                while body.len() < want.len() {
                    match c.read(&mut tmp).await {
                        Ok(0) | Err(_) => break,
                        Ok(n) => body.extend_from_slice(&tmp[..n]),
                    }
                }
            })
            .await;
            tunnel_alive = Some(got.is_ok() && body.starts_with(&want));
            body.clear();
        } else if r.method != "HEAD" {
            while body.len() < clen {
                match c.read(&mut tmp).await {
                    Ok(0) | Err(_) => break,
                    Ok(n) => body.extend_from_slice(&tmp[..n]),
                }
            }
        }
        WireOut { out: Out::Resp { status, headers, body }, tunnel_alive }
    }
}

async fn wire_call(state: &State, r: &ReqLit) -> WireOut {
    let fut = async {
        let l = tokio::net::TcpListener::bind("127.0.0.1:0").await.expect("bind");
        let addr = l.local_addr().expect("addr");
        let (c, s) = tokio::join!(tokio::net::TcpStream::connect(addr), l.accept());
        let mut c = c.expect("connect");
        let (s, peer) = s.expect("accept");
        let st = state.clone().with_client_addr(Some(peer));
        let server = tokio::spawn(async move {
            let _ = catch(rusty_penguin_lib::server::serve_connection(rusty_penguin_lib::tls::MaybeTlsStream::Plain(s), st)).await;
        });
        let w = wire_exchange(&mut c, r).await;
        drop(c);
        server.abort();
        w
    };
    match tokio::time::timeout(Duration::from_secs(60), catch(fut)).await {
        Err(_) => WireOut { out: Out::Hang, tunnel_alive: None },
        Ok(Err(p)) => WireOut { out: Out::Panic(p), tunnel_alive: None },
        Ok(Ok(o)) => o,
    }
}

async fn judge_wire(state: &State, cfg: &Cfg, r: &ReqLit, sink: &Sink<'_>) -> WireOut {
    let t = sink.tally;
    t.cases.fetch_add(1, Ordering::Relaxed);
    // on the wire the OnUpgrade extension is supplied by hyper itself
    let r = &ReqLit { on_upgrade: true, ..r.clone() };
    // RFC 9110 section 5.5: leading/trailing optional whitespace is not part of a field value,
    // so the reference judges the trimmed values (the bytes sent stay as they are).
    let semantic = ReqLit {
        headers: r.headers.iter().map(|(n, v)| (n.clone(), v.trim_matches(|c| c == ' ' || c == '\t').to_string())).collect(),
        ..r.clone()
    };
    let (class, anomaly) = classify2(cfg, &semantic);
    let path = r.path().to_string();
    let w = wire_call(state, r).await;
    t.evaluations.fetch_add(1, Ordering::Relaxed);
    let rj = || replay_json("wire", cfg, r);
    let cfgs = format!("psk {}, obfs {}", if cfg.psk.is_some() { "configured" } else { "not configured" }, cfg.obfs);
    let keys = semantic.values("sec-websocket-key");
    match &w.out {
        Out::Panic(p) => {
            sink.viol(format!("panic.{}", path_class(&path)), format!("panic: {p} [{cfgs}] {}", r.to_json()), rj());
            return w;
        }
        Out::Hang | Out::Err(_) => {
            sink.viol(format!("wire.no-response.{}", path_class(&path)), format!("{} [{cfgs}] {}", w.out.brief(), r.to_json()), rj());
            return w;
        }
        Out::Resp { .. } => {}
    }
    let is101 = w.out.status() == Some(101);
    if is101 {
        t.seen_101.fetch_add(1, Ordering::Relaxed);
    }
    let must_equal_twin;
    if path != "/ws" {
        t.ref_invalid.fetch_add(1, Ordering::Relaxed);
        if is101 {
            sink.viol(format!("upgrade-granted.path={}", path_class(&path)), format!("101 on path {path:?} [{cfgs}] {}", r.to_json()), rj());
            return w;
        }
        must_equal_twin = cfg.obfs && (path == "/health" || path == "/version");
        if !must_equal_twin && path != "/health" && path != "/version" {
            // (a HEAD response has no body on the wire)
            let ok = matches!(&w.out, Out::Resp { status: 404, body, .. } if body == NOT_FOUND_BODY.as_bytes() || (r.method == "HEAD" && body.is_empty()));
            if !ok {
                sink.viol(format!("unknown-path.not-the-configured-404.{}", path_class(&path)), format!("{} [{cfgs}] {}", w.out.brief(), r.to_json()), rj());
            }
        }
    } else {
        match &class {
            Class::Valid => {
                t.ref_valid.fetch_add(1, Ordering::Relaxed);
                // hyper adds nothing to 101 but the date; check the required parts
                let stripped = match &w.out {
                    Out::Resp { status, headers, body } => Out::Resp { status: *status, headers: headers.iter().filter(|(n, _)| n != "<status-line>").cloned().collect(), body: body.clone() },
                    o => o.clone(),
                };
                if let Err(what) = check_101(&stripped, &keys) {
                    let mut fl = valid_flavour(cfg, &semantic);
                    if !is101 && fl != "plain" {
                        let po = call_subject(state, &plain_valid_request(cfg)).await;
                        t.evaluations.fetch_add(1, Ordering::Relaxed);
                        if check_101(&po, &[KEY_SAMPLE]).is_err() {
                            fl = "plain".into();
                        }
                    }
                    let key = if is101 { format!("101-malformed.{what}") } else { format!("valid-upgrade-refused.psk-{}.{fl}", if cfg.psk.is_some() { "configured" } else { "none" }) };
                    sink.viol(key, format!("valid upgrade request answered with {} [{cfgs}] {}", w.out.brief(), r.to_json()), rj());
                } else if w.tunnel_alive != Some(true) {
                    sink.viol("wire.101-without-tunnel".into(), format!("101 was sent but no WebSocket endpoint answered a Ping on the upgraded connection [{cfgs}] {}", r.to_json()), rj());
                }
                return w;
            }
            Class::Invalid(why) => {
                t.ref_invalid.fetch_add(1, Ordering::Relaxed);
                if is101 {
                    sink.viol(format!("upgrade-granted.{why}"), format!("101 although the request is not valid ({why}) [{cfgs}] {}", r.to_json()), rj());
                    return w;
                }
                must_equal_twin = true;
            }
            Class::Silent(_) => {
                t.ref_silent.fetch_add(1, Ordering::Relaxed);
                if is101 {
                    t.silent_101.fetch_add(1, Ordering::Relaxed);
                    return w;
                }
                must_equal_twin = true;
            }
        }
    }
    if must_equal_twin {
        let twin = r.twin();
        let tw = wire_call(state, &twin).await;
        t.evaluations.fetch_add(1, Ordering::Relaxed);
        if tw.out == w.out {
            t.seen_fallback_equal.fetch_add(1, Ordering::Relaxed);
        } else {
            let key = if path == "/ws" { format!("ws-fallback-differs.{}.{anomaly}", diff_signature(&w.out, &tw.out)) } else { format!("obfs.{}-distinguishable", path_class(&path)) };
            sink.viol(key, format!("{path} answers {} but the unknown path {} answers {} [{cfgs}] {}", w.out.brief(), twin.path(), tw.out.brief(), r.to_json()), rj());
        }
    }
    w
}

// ---------------------------------------------------------------------------------------
// Configuration path: the same gate through `server_main` on loopback
// ---------------------------------------------------------------------------------------
//
// The passes above build `State` with its builder methods. The real server derives that `State`
// from `ServerArgs` inside `server::server_main`; this section starts `server_main` itself on a
// loopback port for a small matrix of `ServerArgs` and sends literal HTTP/1.1 requests, so that
// the translation options -> gate is part of what is observed.

const CP_NOT_FOUND: &str = "verif: config-path not-found body #c14";
const CP_UNKNOWN_PATH: &str = "/zzz-unknown";
const CP_START_ATTEMPTS: usize = 6;
const CP_START_DEADLINE: Duration = Duration::from_secs(5);

#[derive(Clone, Debug, PartialEq, Eq)]
struct CpCfg {
    /// `--ws-psk`: not given / given / given with an empty value
    psk: Option<String>,
    obfs: bool,
}

impl CpCfg {
    fn psk_label(&self) -> &'static str {
        match self.psk.as_deref() {
            None => "psk-none",
            Some("") => "psk-empty",
            Some(_) => "psk-set",
        }
    }
    fn to_json(&self) -> Value {
        json!({"ws_psk": self.psk, "obfs": self.obfs, "not_found_resp": CP_NOT_FOUND, "backend": null, "tls": false})
    }
    fn from_json(v: &Value) -> Self {
        Self { psk: v["ws_psk"].as_str().map(str::to_string), obfs: v["obfs"].as_bool().expect("replay: obfs") }
    }
    fn describe(&self) -> String {
        format!("server_main with ws_psk {:?}, obfs {}", self.psk, self.obfs)
    }
}

fn cp_cfgs() -> Vec<CpCfg> {
    let mut v = Vec::new();
    for psk in [None, Some(PSK.to_string()), Some(String::new())] {
        for obfs in [false, true] {
            v.push(CpCfg { psk: psk.clone(), obfs });
        }
    }
    v
}

/// One deviation from the fully valid upgrade request (the path is varied separately).
#[derive(Clone, Debug, PartialEq, Eq)]
struct CpVariant {
    label: String,
    /// value of the X-Penguin-PSK header; `None`: the header is not sent
    psk_header: Option<String>,
    version: String,
}

impl CpVariant {
    fn to_json(&self) -> Value {
        json!({"label": self.label, "x_penguin_psk": self.psk_header, "sec_websocket_version": self.version})
    }
    fn from_json(v: &Value) -> Self {
        Self { label: v["label"].as_str().expect("replay: label").into(), psk_header: v["x_penguin_psk"].as_str().map(str::to_string), version: v["sec_websocket_version"].as_str().expect("replay: version").into() }
    }
    fn request(&self, path: &str) -> ReqLit {
        let mut headers: Vec<(String, String)> = [("connection", "upgrade"), ("upgrade", "websocket"), ("sec-websocket-version", self.version.as_str()), ("sec-websocket-protocol", WANT_PROTOCOL), ("sec-websocket-key", KEY_SAMPLE)]
            .iter()
            .map(|(n, v)| ((*n).to_string(), (*v).to_string()))
            .collect();
        if let Some(p) = &self.psk_header {
            headers.push(("x-penguin-psk".into(), p.clone()));
        }
        ReqLit { method: "GET".into(), uri: path.into(), headers, on_upgrade: true }
    }
}

/// The header variants under `cfg`, named relative to the configured value (with no PSK
/// configured: relative to the value the other configurations use). Variants that do not exist
/// (a proper prefix of the empty value) or repeat another literal (empty == equal for the empty
/// PSK) are left out, so that every variant is a distinct request.
fn cp_variants(cfg: &CpCfg) -> Vec<CpVariant> {
    let nominal = cfg.psk.clone().unwrap_or_else(|| PSK.to_string());
    let mut cand: Vec<(&str, Option<String>)> = vec![("absent", None), ("equal", Some(nominal.clone())), ("empty", Some(String::new())), ("wrong", Some("hunter2".into()))];
    if !nominal.is_empty() {
        cand.push(("proper-prefix", Some(nominal[..nominal.len() - 1].to_string())));
    }
    cand.push(("extended", Some(format!("{nominal}x"))));
    let mut seen: HashSet<Option<String>> = HashSet::new();
    let mut out: Vec<CpVariant> = cand.into_iter().filter(|(_, h)| seen.insert(h.clone())).map(|(l, h)| CpVariant { label: l.into(), psk_header: h, version: "13".into() }).collect();
    // the gate as a whole is live: everything right (including the PSK) but the version
    let good = if cfg.psk.is_some() { Some(nominal) } else { None };
    out.push(CpVariant { label: "sec-websocket-version=12".into(), psk_header: good, version: "12".into() });
    out
}

fn cp_paths(cfg: &CpCfg) -> Vec<&'static str> {
    // without obfuscation /health and /version are not part of this section
    if cfg.obfs { vec!["/ws", CP_UNKNOWN_PATH, "/health", "/version"] } else { vec!["/ws", CP_UNKNOWN_PATH] }
}

/// Reference for this section, from the statement: 101 iff GET /ws, the four compared headers
/// equal (case-insensitively) to the wanted values, a key, and -- when a PSK is configured, be
/// it empty -- an X-Penguin-PSK header that is present and byte-for-byte equal to it.
fn cp_must_grant(cfg: &CpCfg, r: &ReqLit) -> bool {
    let one = |name: &str| -> Option<&str> {
        let v = r.values(name);
        if v.len() == 1 { Some(v[0]) } else { None }
    };
    let upgrade_headers = one("connection").is_some_and(|v| v.eq_ignore_ascii_case("upgrade"))
        && one("upgrade").is_some_and(|v| v.eq_ignore_ascii_case("websocket"))
        && one("sec-websocket-version").is_some_and(|v| v.eq_ignore_ascii_case("13"))
        && one("sec-websocket-protocol").is_some_and(|v| v.eq_ignore_ascii_case(WANT_PROTOCOL))
        && one("sec-websocket-key").is_some_and(key_well_formed);
    let psk_ok = match &cfg.psk {
        None => true,
        Some(configured) => one("x-penguin-psk").is_some_and(|presented| presented.as_bytes() == configured.as_bytes()),
    };
    r.method == "GET" && r.uri == "/ws" && upgrade_headers && psk_ok
}

fn cp_replay_json(cfg: &CpCfg, var: &CpVariant, r: &ReqLit) -> Value {
    json!({"kind": "config-path", "cfg": cfg.to_json(), "psk_config": cfg.psk_label(), "variant": var.to_json(), "request": r.to_json()})
}

struct CpServer {
    task: tokio::task::JoinHandle<Result<(), rusty_penguin_lib::server::Error>>,
    lease: super::c01_env::PortLease,
}

enum CpStartFail {
    /// `server_main` ended or panicked by itself for a reason that is not a lost port race
    Subject(String),
    /// no port / no listener after all attempts
    Machinery(String),
}

/// Start `server_main` with `ServerArgs` made like the crate's own tests make them, on a port
/// of the harness's pool; retried with another port when the bind race is lost.
async fn cp_start(cfg: &CpCfg) -> Result<CpServer, CpStartFail> {
    use rusty_penguin_lib::arg::ServerArgs;
    use std::time::Instant;
    let mut last_fail = String::new();
    'attempts: for _ in 0..CP_START_ATTEMPTS {
        let lease = super::c01_env::lease_port(false);
        let args: &'static ServerArgs = leak(ServerArgs {
            host: vec!["127.0.0.1".to_string()],
            port: vec![lease.port],
            not_found_resp: CP_NOT_FOUND.to_string(),
            ws_psk: cfg.psk.as_deref().map(|p| HeaderValue::from_str(p).expect("psk value")),
            obfs: cfg.obfs,
            timeout: penguin_mux::timing::OptionalDuration::from_secs(30),
            ..Default::default()
        });
        let task = tokio::spawn(rusty_penguin_lib::server::server_main(args));
        let deadline = Instant::now() + CP_START_DEADLINE;
        loop {
            // let the server task run up to its accept loop / its failure
            tokio::time::sleep(Duration::from_millis(2)).await;
            if task.is_finished() {
                let text = match task.await {
                    Ok(Ok(())) => "server_main returned Ok(())".to_string(),
                    Ok(Err(e)) => format!("server_main returned Err: {e}"),
                    Err(je) if je.is_panic() => return Err(CpStartFail::Subject(format!("server_main panicked while starting: {}", panic_text(&*je.into_panic())))),
                    Err(je) => format!("server_main task: {je}"),
                };
                if text.contains("os error 98") || text.contains("Address already in use") || text.contains("Address in use") {
                    last_fail = text; // lost the race for the port: take another one
                    continue 'attempts;
                }
                return Err(CpStartFail::Subject(text));
            }
            match tokio::net::TcpStream::connect(("127.0.0.1", lease.port)).await {
                Ok(probe) => {
                    drop(probe);
                    tokio::task::yield_now().await;
                    if !task.is_finished() {
                        return Ok(CpServer { task, lease });
                    }
                }
                Err(e) => last_fail = format!("no listener on 127.0.0.1:{} within {CP_START_DEADLINE:?} (last: {e})", lease.port),
            }
            if Instant::now() >= deadline {
                task.abort();
                continue 'attempts;
            }
        }
    }
    Err(CpStartFail::Machinery(format!("config-path: server_main could not be started in {CP_START_ATTEMPTS} attempts: {last_fail}")))
}

async fn cp_call(port: u16, r: &ReqLit) -> WireOut {
    let fut = async {
        match tokio::net::TcpStream::connect(("127.0.0.1", port)).await {
            Ok(mut c) => wire_exchange(&mut c, r).await,
            Err(e) => WireOut { out: Out::Err(format!("cannot connect to the server: {e}")), tunnel_alive: None },
        }
    };
    match tokio::time::timeout(Duration::from_secs(60), fut).await {
        Err(_) => WireOut { out: Out::Hang, tunnel_alive: None },
        Ok(o) => o,
    }
}

/// Send one variant on every path of the section to the running server and judge the answers.
/// Returns (request, observation) per path, `/ws` first.
async fn cp_judge_variant(port: u16, cfg: &CpCfg, var: &CpVariant, sink: &Sink<'_>) -> Vec<(ReqLit, WireOut)> {
    let t = sink.tally;
    let mut obs: Vec<(ReqLit, WireOut)> = Vec::new();
    for path in cp_paths(cfg) {
        let r = var.request(path);
        t.cases.fetch_add(1, Ordering::Relaxed);
        let w = cp_call(port, &r).await;
        t.evaluations.fetch_add(1, Ordering::Relaxed);
        obs.push((r, w));
    }
    let what = cfg.describe();
    let (pl, vl) = (cfg.psk_label(), var.label.as_str());
    let find = |p: &str| obs.iter().find(|(r, _)| r.uri == p).expect("path was sent");
    let (unk_r, unk) = find(CP_UNKNOWN_PATH);
    for (r, w) in &obs {
        let rj = || cp_replay_json(cfg, var, r);
        let path = r.uri.as_str();
        let grant = cp_must_grant(cfg, r);
        if grant {
            t.ref_valid.fetch_add(1, Ordering::Relaxed);
        } else {
            t.ref_invalid.fetch_add(1, Ordering::Relaxed);
        }
        if !matches!(w.out, Out::Resp { .. }) {
            sink.viol(format!("cfgpath.no-response.{}", path_class(path)), format!("{what}: {} for {}", w.out.brief(), r.to_json()), rj());
            continue;
        }
        let is101 = w.out.status() == Some(101);
        if is101 {
            t.seen_101.fetch_add(1, Ordering::Relaxed);
        }
        if grant {
            let stripped = match &w.out {
                Out::Resp { status, headers, body } => Out::Resp { status: *status, headers: headers.iter().filter(|(n, _)| n != "<status-line>").cloned().collect(), body: body.clone() },
                o => o.clone(),
            };
            if !is101 {
                sink.viol(format!("cfgpath.upgrade-refused.{pl}.{vl}"), format!("{what}: a fully valid upgrade request (X-Penguin-PSK {:?}) is answered with {} -- {}", var.psk_header, w.out.brief(), r.to_json()), rj());
            } else if let Err(e) = check_101(&stripped, &[KEY_SAMPLE]) {
                sink.viol(format!("cfgpath.101-malformed.{e}"), format!("{what}: the 101 response is wrong ({e}): {} -- {}", w.out.brief(), r.to_json()), rj());
            } else if w.tunnel_alive != Some(true) {
                sink.viol("cfgpath.101-without-tunnel".into(), format!("{what}: 101 was sent but no WebSocket endpoint answered a Ping on the upgraded connection -- {}", r.to_json()), rj());
            }
            continue;
        }
        if is101 {
            let why = if path == "/ws" { format!("{pl}.{vl}") } else { format!("path={}", path_class(path)) };
            sink.viol(
                format!("cfgpath.upgrade-granted.{why}"),
                format!("{what}: 101 although the request is not a valid upgrade request (path {path}, X-Penguin-PSK header {}, Sec-WebSocket-Version {}) -- {}", var.psk_header.as_ref().map_or("absent".to_string(), |h| format!("{h:?}")), var.version, r.to_json()),
                rj(),
            );
            continue;
        }
        if path == CP_UNKNOWN_PATH {
            // "configured 404": also tells that the answer comes from the server started here
            let ok = matches!(&w.out, Out::Resp { status: 404, body, .. } if body == CP_NOT_FOUND.as_bytes());
            if !ok {
                sink.viol("cfgpath.unknown-path.not-the-configured-404".into(), format!("{what}: the unknown path answers {} instead of 404 with the configured body -- {}", w.out.brief(), r.to_json()), rj());
            }
            continue;
        }
        // a refused /ws (and, with obfuscation, /health and /version): exactly the unknown path's answer
        if w.out == unk.out {
            t.seen_fallback_equal.fetch_add(1, Ordering::Relaxed);
        } else {
            let key = if path == "/ws" { "cfgpath.refusal-distinguishable" } else { "cfgpath.obfs-distinguishable" };
            sink.viol(key.into(), format!("{what}: {path} answers {} but the same request on {} answers {} ({}) -- {}", w.out.brief(), unk_r.uri, unk.out.brief(), diff_signature(&w.out, &unk.out), r.to_json()), rj());
        }
    }
    obs
}

fn cp_stop(srv: CpServer) {
    srv.task.abort();
    drop(srv.lease);
}

/// `server_main` waits for Ctrl-C through tokio, which installs a SIGINT handler for the rest of
/// the process's life; once the servers are gone nobody listens to it any more. Give SIGINT its
/// default action back so that the harness can still be interrupted.
fn cp_restore_sigint() {
    // SAFETY: plain libc call setting the default disposition; no handler of ours is involved.
    unsafe {
        libc::signal(libc::SIGINT, libc::SIG_DFL);
    }
}

struct CpStats {
    servers: u64,
    requests: u64,
    sample: Option<Value>,
    machinery: Option<String>,
}

/// The whole section: every configuration of `cp_cfgs` x its variants x its paths. The servers
/// run inside a runtime of this function; dropping it removes every task they left.
fn run_config_path(sink: &Sink<'_>) -> CpStats {
    let mut st = CpStats { servers: 0, requests: 0, sample: None, machinery: None };
    let rt = runtime();
    rt.block_on(async {
        for cfg in cp_cfgs() {
            let srv = match cp_start(&cfg).await {
                Ok(s) => s,
                Err(CpStartFail::Subject(text)) => {
                    let var = &cp_variants(&cfg)[0];
                    sink.viol("cfgpath.server-did-not-start".into(), format!("{}: {text}", cfg.describe()), cp_replay_json(&cfg, var, &var.request("/ws")));
                    continue;
                }
                Err(CpStartFail::Machinery(text)) => {
                    st.machinery = Some(text);
                    break;
                }
            };
            st.servers += 1;
            let port = srv.lease.port;
            for var in cp_variants(&cfg) {
                let obs = cp_judge_variant(port, &cfg, &var, sink).await;
                st.requests += obs.len() as u64;
                if st.sample.is_none() && cfg.psk.as_deref() == Some("") && cfg.obfs && var.label == "absent" {
                    let (r, w) = &obs[0];
                    st.sample = Some(json!({"transport": "config-path", "cfg": cfg.to_json(), "variant": var.to_json(), "request_bytes": String::from_utf8_lossy(&wire_bytes(r)), "reference_must_grant": cp_must_grant(&cfg, r), "observed": w.out.to_json(),
                        "observed_on_unknown_path": obs.iter().find(|(r, _)| r.uri == CP_UNKNOWN_PATH).map(|(_, w)| w.out.to_json())}));
                }
            }
            if srv.task.is_finished() && st.machinery.is_none() {
                let var = &cp_variants(&cfg)[0];
                let text = match srv.task.await {
                    Err(je) if je.is_panic() => format!("server_main panicked while serving: {}", panic_text(&*je.into_panic())),
                    other => format!("server_main ended while serving: {other:?}"),
                };
                sink.viol("cfgpath.server-ended".into(), format!("{}: {text}", cfg.describe()), cp_replay_json(&cfg, var, &var.request("/ws")));
                continue;
            }
            cp_stop(srv);
        }
    });
    drop(rt);
    cp_restore_sigint();
    st
}

fn replay_config_path(args: &Args, v: &Value, mut rep: Report) -> Report {
    let cfg = CpCfg::from_json(&v["cfg"]);
    let var = CpVariant::from_json(&v["variant"]);
    let tally = Tally::default();
    let rep_m = Mutex::new(Report::new("C14", &args.tier, "enum", "exploration"));
    let sink = Sink { rep: &rep_m, tally: &tally };
    let mut obs = Vec::new();
    for _ in 0..2 {
        // a fresh server (and runtime) per execution
        let rt = runtime();
        let o = rt.block_on(async {
            match cp_start(&cfg).await {
                Ok(srv) => {
                    let got = cp_judge_variant(srv.lease.port, &cfg, &var, &sink).await;
                    cp_stop(srv);
                    Ok(json!(got.iter().map(|(r, w)| json!({"path": r.uri, "response": w.out.to_json(), "tunnel_alive": w.tunnel_alive})).collect::<Vec<_>>()))
                }
                Err(CpStartFail::Subject(text)) => {
                    sink.viol("cfgpath.server-did-not-start".into(), format!("{}: {text}", cfg.describe()), v.clone());
                    Ok(json!({"server_did_not_start": text}))
                }
                Err(CpStartFail::Machinery(text)) => Err(text),
            }
        });
        drop(rt);
        match o {
            Ok(o) => obs.push(o),
            Err(text) => {
                rep.machinery_error = Some(text);
                break;
            }
        }
    }
    cp_restore_sigint();
    let inner = rep_m.into_inner().unwrap();
    for mut vi in inner.violations {
        vi.count = vi.count.div_ceil(2);
        rep.violations.push(vi);
    }
    if obs.len() == 2 && obs[0] != obs[1] {
        rep.machinery_error = Some(format!("replay is not deterministic: {} vs {}", obs[0], obs[1]));
    }
    rep.evaluations = tally.evaluations.load(Ordering::Relaxed);
    rep.distinct_nontrivial = 1;
    rep.rule = "replay of one recorded config-path case: server_main started twice with the recorded ServerArgs on a loopback port, the recorded request variant sent on /ws and on the paths it is compared with; observations must agree".into();
    rep.extra.insert("replayed".into(), v.clone());
    rep.extra.insert("reference_must_grant".into(), json!(cp_must_grant(&cfg, &ReqLit::from_json(&v["request"]))));
    rep.extra.insert("observations".into(), json!(obs));
    rep
}

// ---------------------------------------------------------------------------------------
// Driver
// ---------------------------------------------------------------------------------------

fn self_test() -> Result<(), String> {
    // RFC 3174 / RFC 4648 / RFC 6455 vectors for the harness's own primitives
    let hex = |b: &[u8]| b.iter().map(|x| format!("{x:02x}")).collect::<String>();
    if hex(&sha1(b"abc")) != "a9993e364706816aba3e25717850c26c9cd0d89d" || hex(&sha1(b"")) != "da39a3ee5e6b4b0d3255bfef95601890afd80709" {
        return Err("own SHA-1 fails the RFC 3174 vectors".into());
    }
    if hex(&sha1(b"abcdbcdecdefdefgefghfghighijhijkijkljklmklmnlmnomnopnopq")) != "84983e441c3bd26ebaae4aa1f95129e5e54670f1" {
        return Err("own SHA-1 fails the two-block vector".into());
    }
    if base64(b"") != "" || base64(b"f") != "Zg==" || base64(b"fo") != "Zm8=" || base64(b"foobar") != "Zm9vYmFy" {
        return Err("own base64 fails the RFC 4648 vectors".into());
    }
    if accept_hash(KEY_SAMPLE.as_bytes()) != "s3pPLMBiTxaQ9kYGzzhZRbK+xOo=" {
        return Err("own accept hash fails the RFC 6455 example".into());
    }
    Ok(())
}

fn replay(args: &Args, v: &Value, mut rep: Report) -> Report {
    if v["kind"] == "config-path" {
        return replay_config_path(args, v, rep);
    }
    let cfg = Cfg::from_json(&v["cfg"]);
    let r = ReqLit::from_json(&v["request"]);
    let transport = v["transport"].as_str().unwrap_or("inproc").to_string();
    let backends = (cfg.backend != "none").then(start_backends);
    let tally = Tally::default();
    let rep_m = Mutex::new(Report::new("C14", &args.tier, "enum", "exploration"));
    let sink = Sink { rep: &rep_m, tally: &tally };
    let rt = runtime();
    let mut obs = Vec::new();
    for _ in 0..2 {
        let o = rt.block_on(async {
            let st = make_state(&cfg, backends.as_ref()).await;
            if transport == "wire" {
                let w = judge_wire(&st, &cfg, &r, &sink).await;
                json!({"response": w.out.to_json(), "tunnel_alive": w.tunnel_alive})
            } else {
                judge_inproc(&st, &cfg, &r, &sink, &transport).await.to_json()
            }
        });
        obs.push(o);
    }
    let inner = rep_m.into_inner().unwrap();
    for mut vi in inner.violations {
        vi.count = vi.count.div_ceil(2);
        rep.violations.push(vi);
    }
    if obs[0] != obs[1] {
        rep.machinery_error = Some(format!("replay is not deterministic: {} vs {}", obs[0], obs[1]));
    }
    rep.evaluations = tally.evaluations.load(Ordering::Relaxed);
    rep.distinct_nontrivial = 1;
    rep.rule = "replay of one recorded (configuration, request) case, executed twice on fresh State values; observations must agree".into();
    rep.extra.insert("replayed".into(), v.clone());
    rep.extra.insert("reference_class".into(), json!(format!("{:?}", classify(&cfg, &r))));
    rep.extra.insert("observations".into(), json!(obs));
    rep
}

pub fn run(args: &Args) -> Report {
    let mut rep = Report::new("C14", &args.tier, "enum", "exploration");
    std::panic::set_hook(Box::new(|_| {}));
    rusty_penguin_lib::tls::init_crypto_provider();
    if let Err(e) = self_test() {
        rep.machinery_error = Some(e);
        return rep;
    }
    if let Some(v) = args.replay_json() {
        return replay(args, &v, rep);
    }
    let thorough = args.thorough();
    let threads = args.threads.clamp(1, 32);
    let ds = dedup_dims(dims());
    let all: Vec<Vec<usize>> = ds.iter().map(|d| (0..d.variants.len()).collect()).collect();
    let core: Vec<Vec<usize>> = ds.iter().map(|d| (0..d.variants.len()).filter(|&i| d.variants[i].core).collect()).collect();
    let tally = Tally::default();
    let rep_m = Mutex::new(rep);
    let sink = Sink { rep: &rep_m, tally: &tally };
    let samples: Mutex<Vec<Value>> = Mutex::new(Vec::new());
    let mut distinct: u64 = 0;

    // ---- pass 1: in-process, no backend
    let cfgs = inproc_cfgs("none", &[false]);
    let k_ext = if thorough { 5 } else { 4 };
    let mut dev = deviations(&all, k_ext);
    if !thorough {
        // quick also covers three simultaneous deviations over the core variants
        let extra = deviations(&core, 3);
        let have: HashSet<Vec<usize>> = dev.iter().cloned().collect();
        dev.extend(extra.into_iter().filter(|x| !have.contains(x)));
    }
    let is_core = |idx: &[usize]| idx.iter().zip(&ds).all(|(&i, d)| d.variants[i].core);
    if thorough {
        dev.retain(|x| !is_core(x)); // the complete core product below contains them
    }
    {
        // literal distinctness of the enumerated requests (measured, not assumed)
        let lits: HashSet<ReqLit> = dev.iter().map(|i| literal(&ds, i)).collect();
        if lits.len() != dev.len() {
            let mut rep = rep_m.into_inner().unwrap();
            rep.machinery_error = Some("the deviation domain contains literal duplicates".into());
            return rep;
        }
    }
    let dev_n = dev.len() as u64;
    run_parallel(threads, &cfgs, None, dev_n, &sink, &ds, &|i| dev[i as usize].clone(), "inproc", &samples, (dev_n / 3).max(1));
    distinct += dev_n * cfgs.len() as u64;
    let mut core_n = 0u64;
    if thorough {
        core_n = core.iter().map(|c| c.len() as u64).product();
        let decode = |mut i: u64| -> Vec<usize> {
            core.iter()
                .map(|c| {
                    let k = c[(i % c.len() as u64) as usize];
                    i /= c.len() as u64;
                    k
                })
                .collect()
        };
        run_parallel(threads, &cfgs, None, core_n, &sink, &ds, &decode, "inproc", &samples, 0);
        distinct += core_n * cfgs.len() as u64;
    }
    let inproc_cases = tally.cases.load(Ordering::Relaxed);

    // ---- pass 2: a backend is configured (echo: reachable; down: hangs up without answering)
    let backends = start_backends();
    let bdev = deviations(&all, if thorough { 3 } else { 2 });
    let bdev_core = deviations(&core, 2);
    let mut bset: Vec<Vec<usize>> = bdev.clone();
    let have: HashSet<Vec<usize>> = bset.iter().cloned().collect();
    bset.extend(bdev_core.into_iter().filter(|x| !have.contains(x)));
    let echo_cfgs = inproc_cfgs("echo", if thorough { &[false, true] } else { &[false] });
    let bthreads = threads.min(8);
    run_parallel(bthreads, &echo_cfgs, Some(&backends), bset.len() as u64, &sink, &ds, &|i| bset[i as usize].clone(), "backend", &samples, (bset.len() as u64 / 2).max(1));
    distinct += (bset.len() * echo_cfgs.len()) as u64;
    let down_cfgs = inproc_cfgs("down", &[false]);
    let dset = deviations(&all, 1);
    run_parallel(bthreads, &down_cfgs, Some(&backends), dset.len() as u64, &sink, &ds, &|i| dset[i as usize].clone(), "backend-down", &samples, 0);
    distinct += (dset.len() * down_cfgs.len()) as u64;
    // sanity of the harness's own backend: a plain unknown path must reach it
    {
        let rt = runtime();
        let cfg = &echo_cfgs[0];
        let probe = ReqLit { method: "GET".into(), uri: "/zz".into(), headers: vec![("x-probe".into(), "1".into())], on_upgrade: false };
        let o = rt.block_on(async { call_subject(&make_state(cfg, Some(&backends)).await, &probe).await });
        let ok = matches!(&o, Out::Resp { status: 207, body, .. } if body.starts_with(b"P /zz\nM GET\n") && String::from_utf8_lossy(body).contains("H x-probe: 1"));
        if !ok {
            let mut rep = rep_m.into_inner().unwrap();
            rep.machinery_error = Some(format!("the harness's echo backend is not reached / does not reflect: {}", o.brief()));
            return rep;
        }
    }

    // ---- pass 3: literal bytes over loopback TCP through serve_connection
    let wcfgs = inproc_cfgs("none", &[false]);
    // the on-upgrade dimension does not exist on the wire
    let wire_allowed: Vec<Vec<usize>> = all.iter().zip(&ds).map(|(a, d)| if d.name == "on-upgrade" { vec![0] } else { a.clone() }).collect();
    let wset = deviations(&wire_allowed, if thorough { 2 } else { 1 });
    {
        let next = AtomicU64::new(0);
        let wthreads = threads.min(8);
        std::thread::scope(|s| {
            for _ in 0..wthreads {
                s.spawn(|| {
                    let rt = tokio::runtime::Builder::new_current_thread().enable_all().build().expect("rt");
                    let states: Vec<State> = wcfgs.iter().map(|c| rt.block_on(make_state(c, None))).collect();
                    loop {
                        let i = next.fetch_add(1, Ordering::Relaxed) as usize;
                        let Some(idx) = wset.get(i) else { break };
                        let r = literal(&ds, idx);
                        for (cfg, st) in wcfgs.iter().zip(&states) {
                            let w = rt.block_on(judge_wire(st, cfg, &r, &sink));
                            if i == 0 && cfg.psk.is_some() && !cfg.obfs {
                                samples.lock().unwrap().push(json!({"transport": "wire", "cfg": cfg.to_json(), "request_bytes": String::from_utf8_lossy(&wire_bytes(&r)), "observed": w.out.to_json(), "tunnel_alive": w.tunnel_alive}));
                            }
                        }
                    }
                });
            }
        });
    }
    distinct += (wset.len() * wcfgs.len()) as u64;

    // ---- pass 4: configuration path: the same gate through server_main on loopback
    let cp_t0 = std::time::Instant::now();
    let cp = run_config_path(&sink);
    let cp_wall = cp_t0.elapsed().as_secs_f64();
    distinct += cp.requests;

    let mut rep = rep_m.into_inner().unwrap();
    rep.evaluations = tally.evaluations.load(Ordering::Relaxed);
    rep.distinct_nontrivial = distinct;
    if tally.cases.load(Ordering::Relaxed) != distinct {
        rep.machinery_error = Some(format!("executed {} cases but the domain has {distinct}", tally.cases.load(Ordering::Relaxed)));
    }
    rep.exhaustive = true;
    rep.rule = format!(
        "pass inproc: every request with at most {k_ext} simultaneous deviations from the fully valid upgrade request over the extended variant tables{} x 4 configurations (PSK configured or not x obfs on/off); pass backend: same construction (smaller bound) with a reachable reflecting backend and with a backend that hangs up without answering; pass wire: literal HTTP/1.1 bytes over loopback TCP through serve_connection; pass config-path: server::server_main itself started on a loopback port from real ServerArgs (ws_psk not given / given / given but empty x obfs on/off, fixed not_found_resp, no backend, no TLS), literal HTTP/1.1 requests over TCP: the fully valid upgrade request with the X-Penguin-PSK header absent / equal to the configured value / empty / wrong / a proper prefix / extended, and one request with a wrong Sec-WebSocket-Version, each on /ws and /zzz-unknown (with obfs also /health and /version); 101 iff the reference grants, every other answer identical (status, headers but date, body) to the unknown path's. A case is one distinct (configuration, literal request) pair.",
        if thorough { " plus the complete product of the core variants (method 4 x path 6 x 7 variants of each compared header (6 for the version) x key 3 x PSK header 5 x OnUpgrade 2)" } else { " plus at most 3 deviations over the core variants" }
    );
    rep.bounds.insert("dimensions".into(), json!(ds.iter().map(|d| json!({"name": d.name, "variants": d.variants.iter().map(|x| json!({"label": x.label, "literal": x.values, "core": x.core})).collect::<Vec<_>>()})).collect::<Vec<_>>()));
    rep.bounds.insert("inproc_deviation_requests".into(), json!(dev_n));
    rep.bounds.insert("inproc_max_deviations_extended".into(), json!(k_ext));
    rep.bounds.insert("inproc_core_product_requests".into(), json!(core_n));
    rep.bounds.insert("inproc_cases(cfg x request)".into(), json!(inproc_cases));
    rep.bounds.insert("backend_echo_requests".into(), json!(bset.len()));
    rep.bounds.insert("backend_echo_configurations".into(), json!(echo_cfgs.len()));
    rep.bounds.insert("backend_down_requests".into(), json!(dset.len()));
    rep.bounds.insert("wire_requests".into(), json!(wset.len()));
    rep.bounds.insert("config_path_servers".into(), json!(cp.servers));
    rep.bounds.insert("config_path_requests".into(), json!(cp.requests));
    rep.bounds.insert("config_path_configurations".into(), json!(cp_cfgs().iter().map(|c| json!({"cfg": c.to_json(), "psk_config": c.psk_label(), "paths": cp_paths(c), "variants": cp_variants(c).iter().map(CpVariant::to_json).collect::<Vec<_>>()})).collect::<Vec<_>>()));
    rep.bounds.insert("configurations".into(), json!(cfgs.iter().map(Cfg::to_json).collect::<Vec<_>>()));
    let g = |a: &AtomicU64| a.load(Ordering::Relaxed);
    rep.extra.insert("reference_valid_cases".into(), json!(g(&tally.ref_valid)));
    rep.extra.insert("reference_invalid_cases".into(), json!(g(&tally.ref_invalid)));
    rep.extra.insert("reference_undecided_cases".into(), json!(g(&tally.ref_silent)));
    rep.extra.insert("observed_101".into(), json!(g(&tally.seen_101)));
    rep.extra.insert("observed_fallback_equal_to_unknown_path".into(), json!(g(&tally.seen_fallback_equal)));
    rep.extra.insert("undecided_answered_101".into(), json!(g(&tally.silent_101)));
    rep.extra.insert("undecided_answered_fallback".into(), json!(g(&tally.silent_fallback)));
    rep.extra.insert("backend_answers_seen".into(), json!(g(&tally.backend_reached)));
    rep.extra.insert("backend_flaky_retries".into(), json!(g(&tally.flaky_retries)));
    rep.extra.insert("config_path_wall_s".into(), json!(cp_wall));
    rep.extra.insert("build_profile".into(), json!(if cfg!(debug_assertions) { "checked" } else { "release" }));
    for s in samples.into_inner().unwrap() {
        rep.sample(s);
    }
    if let Some(s) = cp.sample {
        rep.samples.push(s); // (beyond the cap of `Report::sample`: one sample of this pass is always kept)
    }
    rep.assumptions.push("where the statement is silent (duplicate header with one valid and one invalid value, duplicate / empty / malformed Sec-WebSocket-Key, query string on /ws, missing OnUpgrade extension) only totality is demanded: a correct 101 or exactly the unknown-path response".into());
    rep.assumptions.push("the unknown path a request is compared with has the same length as the original path (/zz for /ws), so that length-dependent parts of a backend's answer cannot differ".into());
    rep.assumptions.push("header values are those listed in bounds.dimensions; arbitrary other byte strings are not enumerated (the gate only compares for equality)".into());
    rep.assumptions.push("in-process requests carry an OnUpgrade made by hyper::upgrade::on(Request::new(())) as in the crate's own positive test; 'starts a tunnel' is observed only in the wire pass (a Ping on the upgraded connection is answered by a Pong)".into());
    rep.assumptions.push("requests are HTTP/1.1 with an empty body; HTTP/2 (extended CONNECT) is out of scope of the statement".into());
    // vacuity guard: the domain must contain valid and invalid requests and the backend must have been exercised
    if g(&tally.ref_valid) == 0 || g(&tally.ref_invalid) == 0 || g(&tally.ref_silent) == 0 {
        rep.machinery_error = Some("degenerate domain (no valid, no invalid or no undecided requests)".into());
    }
    if let Some(e) = cp.machinery {
        rep.machinery_error = Some(e);
    } else if rep.violations.is_empty() && (cp.servers != cp_cfgs().len() as u64 || cp.requests == 0) {
        rep.machinery_error = Some(format!("degenerate config-path pass: {} servers, {} requests", cp.servers, cp.requests));
    }
    if rep.violations.is_empty() && (g(&tally.seen_101) == 0 || g(&tally.seen_fallback_equal) == 0 || g(&tally.backend_reached) == 0) {
        rep.machinery_error = Some("degenerate run: no 101, no fallback or no backend answer was observed".into());
    }
    rep
}
