//! C17 demo 3 (`tls-native` build only): `--tls-ca` does not *replace* the trusted
//! roots, it only adds to them, and only the first certificate of the bundle is added.
//!
//! Run with
//! `cargo test -p rusty-penguin --offline --no-default-features \
//!    --features tls-native,penguin-binary,ring --test c17_native_tls_roots`
//!
//! * `system_roots_are_not_trusted_when_a_ca_is_given`: the client is given root R
//!   only. The server presents a certificate issued by some *other* CA that happens to
//!   be in the operating system's store (simulated with `SSL_CERT_FILE`). The property
//!   (and the `tls-rustls` build) say the handshake must fail; it succeeds.
//! * `every_root_of_the_bundle_is_trusted`: the client is given a bundle [R1, R2]; a
//!   certificate issued by R2 must be accepted; it is refused.
#![cfg(feature = "tls-native")]
#![allow(clippy::pedantic, clippy::unwrap_used, missing_debug_implementations)]

use rcgen::{
    BasicConstraints, CertificateParams, DnType, IsCa, Issuer, KeyPair, KeyUsagePurpose,
};
use rusty_penguin_lib::tls::{make_tls_identity, tls_connect};
use std::path::Path;
use std::sync::OnceLock;
use std::time::Duration;
use tokio::io::{AsyncReadExt, AsyncWriteExt};

struct Ca {
    params: CertificateParams,
    key: KeyPair,
    pem: String,
}

fn make_ca(cn: &str) -> Ca {
    let mut params = CertificateParams::new(Vec::<String>::new()).unwrap();
    params.distinguished_name.push(DnType::CommonName, cn);
    params.is_ca = IsCa::Ca(BasicConstraints::Unconstrained);
    params.key_usages = vec![KeyUsagePurpose::KeyCertSign, KeyUsagePurpose::CrlSign];
    let key = KeyPair::generate().unwrap();
    let pem = params.self_signed(&key).unwrap().pem();
    Ca { params, key, pem }
}

fn write(dir: &Path, name: &str, content: &str) -> String {
    let p = dir.join(name);
    std::fs::write(&p, content).unwrap();
    p.to_str().unwrap().to_string()
}

/// The "operating system" trust store of this test process: exactly one CA.
/// Has to be in place before the first TLS connector is built.
fn system_ca() -> &'static Ca {
    static SYSTEM: OnceLock<Ca> = OnceLock::new();
    SYSTEM.get_or_init(|| {
        let ca = make_ca("A CA of the system store");
        let dir = Box::leak(Box::new(tempfile::tempdir().unwrap()));
        let path = write(dir.path(), "system-roots.pem", &ca.pem);
        // SAFETY: runs once, before anything in this process reads the environment
        // for TLS purposes (every test starts by calling this function)
        unsafe {
            std::env::set_var("SSL_CERT_FILE", path);
            std::env::set_var("SSL_CERT_DIR", dir.path().join("empty"));
        }
        ca
    })
}

/// Server with a certificate for `server.test` issued by `issuer`; client given `tls_ca`,
/// verification on.
async fn handshake(issuer: &Ca, tls_ca: &str) -> Result<(), String> {
    let dir = tempfile::tempdir().unwrap();
    let key = KeyPair::generate().unwrap();
    let cert = CertificateParams::new(vec!["server.test".to_string()])
        .unwrap()
        .signed_by(&key, &Issuer::from_params(&issuer.params, &issuer.key))
        .unwrap();
    let cert_path = write(dir.path(), "cert.pem", &cert.pem());
    let key_path = write(dir.path(), "key.pem", &key.serialize_pem());
    let ca_path = write(dir.path(), "ca.pem", tls_ca);
    let acceptor = make_tls_identity(&cert_path, &key_path, None)
        .await
        .unwrap()
        .load_full();
    let (c_io, s_io) = tokio::io::duplex(1 << 16);
    let server = tokio::spawn(async move {
        let mut s = acceptor.accept(s_io).await.map_err(|e| e.to_string())?;
        s.write_all(b"S").await.map_err(|e| e.to_string())?;
        s.flush().await.map_err(|e| e.to_string())?;
        let mut b = [0u8; 1];
        s.read_exact(&mut b).await.map_err(|e| e.to_string())?;
        Ok::<(), String>(())
    });
    let client = async {
        let mut c = tls_connect(c_io, "server.test", None, None, Some(&ca_path), false)
            .await
            .map_err(|e| format!("client: {e}"))?;
        let mut b = [0u8; 1];
        c.read_exact(&mut b).await.map_err(|e| format!("client: {e}"))?;
        c.write_all(b"C").await.map_err(|e| format!("client: {e}"))?;
        c.flush().await.map_err(|e| format!("client: {e}"))?;
        Ok::<(), String>(())
    };
    let c_res = tokio::time::timeout(Duration::from_secs(10), client)
        .await
        .unwrap_or_else(|_| Err("client timed out".into()));
    let s_res = tokio::time::timeout(Duration::from_secs(10), server)
        .await
        .map(|r| r.unwrap().map_err(|e| format!("server: {e}")))
        .unwrap_or_else(|_| Err("server timed out".into()));
    c_res.and(s_res)
}

/// Control: a certificate issued by the given root is accepted, one issued by an
/// unrelated CA is refused.
#[tokio::test]
async fn control() {
    system_ca();
    let given = make_ca("The root the client was given");
    let unrelated = make_ca("Some unrelated CA");
    handshake(&given, &given.pem).await.unwrap();
    handshake(&unrelated, &given.pem).await.unwrap_err();
}

#[tokio::test]
async fn system_roots_are_not_trusted_when_a_ca_is_given() {
    let system = system_ca();
    let given = make_ca("The root the client was given");
    let result = handshake(system, &given.pem).await;
    assert!(
        result.is_err(),
        "the server's certificate does not chain to the root the client was given, \
         yet the client connected"
    );
}

#[tokio::test]
async fn every_root_of_the_bundle_is_trusted() {
    system_ca();
    let first = make_ca("First root of the bundle");
    let second = make_ca("Second root of the bundle");
    let bundle = format!("{}{}", first.pem, second.pem);
    handshake(&first, &bundle).await.unwrap();
    handshake(&second, &bundle)
        .await
        .expect("a certificate issued by the second root of the bundle must be accepted");
}
