#!/usr/bin/env python3
"""tools/seedprompts/benigngen.py <ID> -> /tmp/seedprompts/<ID>-benign.txt ; worktree /tmp/wtb-<ID>
Prompt for a sub-agent that writes property-PRESERVING changes (false-alarm test of the checks)."""
import json, sys, os
pid = sys.argv[1]
here = os.path.dirname(os.path.abspath(__file__))
t = open(os.path.join(here, 'BENIGN_TEMPLATE.txt')).read()
props = {json.loads(l)['id']: json.loads(l) for l in open('/verif/properties.jsonl')}
wt = f'/tmp/wtb-{pid}'
p = t.replace('@@PROPERTY_JSON@@', json.dumps(props[pid], indent=1)).replace('@@WT@@', wt).replace('@@ID@@', pid)
os.makedirs('/tmp/seedprompts', exist_ok=True)
open(f'/tmp/seedprompts/{pid}-benign.txt', 'w').write(p)
print(wt)
