//! In-memory implementation of `penguin_mux::ws::WebSocket` whose message
//! delivery, back-pressure and failures are explicit, explorer-owned steps.
//!
//! Semantics mirror tokio-tungstenite as used by penguin:
//! * `start_send` puts a message *in flight*; one `deliver` step moves the
//!   head of a direction into the receiver's *ready* queue;
//! * `poll_ready` is `Pending` while `in flight + ready >= capacity`;
//! * `poll_close` sends `Close`; a reader that takes a `Close` out of its
//!   source answers with `Close` automatically (as tungstenite does) and its
//!   source then ends (`None`);
//! * dropping an endpoint ends the peer's source after what was in flight;
//! * a *cut* of a direction discards what is in flight on it, makes the
//!   sender's sink calls fail and the receiver's source yield one error and
//!   then end (a reset connection).

use penguin_mux::Error;
use penguin_mux::ws::{Message, WebSocket};
use std::collections::VecDeque;
use std::sync::{Arc, Mutex};
use std::task::{Context, Poll, Waker};

pub const A: usize = 0; // "client" side; sends on direction 0
pub const B: usize = 1; // "server" side; sends on direction 1

#[derive(Clone, Debug, PartialEq, Eq)]
pub enum Item {
    Msg(Message),
    Eof,
}

#[derive(Debug)]
pub struct TransportError;
impl std::fmt::Display for TransportError {
    fn fmt(&self, f: &mut std::fmt::Formatter<'_>) -> std::fmt::Result {
        write!(f, "injected transport failure")
    }
}
impl std::error::Error for TransportError {}

fn ws_err() -> Error {
    Error::WebSocket(Box::new(TransportError))
}

#[derive(Debug, Default)]
pub struct DirState {
    pub inflight: VecDeque<Item>,
    pub ready: VecDeque<Item>,
    pub reader_waker: Option<Waker>,
    pub writer_waker: Option<Waker>,
    pub cap: usize,
    /// transport failed in this direction
    pub cut: bool,
    /// the receiver still has to be told about the failure
    pub err_pending: bool,
    /// the sender sent Close (explicitly or as the automatic reply) or went away
    pub sink_closed: bool,
    /// the receiver's source has ended
    pub src_ended: bool,
    /// silently discard everything sent (dead peer / blackhole)
    pub blackhole: bool,
    /// total messages that entered this direction
    pub sent: u64,
    /// total messages handed to the reader
    pub consumed: u64,
}

#[derive(Clone, Debug)]
pub struct WireEv {
    pub dir: usize,
    pub msg: Message,
}

#[derive(Debug)]
pub struct LinkState {
    pub dirs: [DirState; 2],
    /// everything that entered the link through `start_send`, in order
    pub wire: Vec<WireEv>,
    /// endpoint was dropped
    pub dropped: [bool; 2],
    /// number of calls, to show the endpoints really run
    pub calls: u64,
    /// the endpoint of this side behaves like a WebSocket in the CLIENT role: after it has taken the peer's `Close`
    /// (and answered it) its source does not end by itself but only once the peer tears the transport down (`Eof`),
    /// as RFC 6455 7.1.1 asks of clients and tungstenite implements. The default (`false`) is the server role: the
    /// source ends right behind the `Close`.
    pub linger_after_close: [bool; 2],
}

#[derive(Clone, Debug)]
pub struct Link(pub Arc<Mutex<LinkState>>);

pub const UNBOUNDED_CAP: usize = usize::MAX / 4;

impl Link {
    pub fn new(cap: usize) -> Self {
        let mk = || DirState {
            cap,
            ..DirState::default()
        };
        Self(Arc::new(Mutex::new(LinkState {
            dirs: [mk(), mk()],
            wire: Vec::new(),
            dropped: [false; 2],
            calls: 0,
            linger_after_close: [false; 2],
        })))
    }

    pub fn endpoint(&self, side: usize) -> MemWs {
        MemWs {
            side,
            link: self.clone(),
        }
    }

    pub fn lock(&self) -> std::sync::MutexGuard<'_, LinkState> {
        self.0.lock().unwrap_or_else(std::sync::PoisonError::into_inner)
    }

    /// Is there something in flight in direction `dir`?
    pub fn can_deliver(&self, dir: usize) -> bool {
        !self.lock().dirs[dir].inflight.is_empty()
    }

    /// Move the head of direction `dir` into the receiver's ready queue.
    pub fn deliver(&self, dir: usize) -> Option<Item> {
        let (item, w) = {
            let mut l = self.lock();
            let d = &mut l.dirs[dir];
            let item = d.inflight.pop_front()?;
            d.ready.push_back(item.clone());
            (item, d.reader_waker.take())
        };
        if let Some(w) = w {
            w.wake();
        }
        Some(item)
    }

    /// Inject a message as if the side sending on `dir` had sent it (raw peer).
    pub fn inject(&self, dir: usize, msg: Message) {
        let mut l = self.lock();
        l.wire.push(WireEv {
            dir,
            msg: msg.clone(),
        });
        let d = &mut l.dirs[dir];
        d.sent += 1;
        if matches!(msg, Message::Close) {
            d.sink_closed = true;
        }
        d.inflight.push_back(Item::Msg(msg));
    }

    /// Raw peer: take everything that was delivered to the reader of `dir`.
    pub fn raw_take(&self, dir: usize) -> Vec<Item> {
        let (items, w) = {
            let mut l = self.lock();
            let d = &mut l.dirs[dir];
            let items: Vec<Item> = d.ready.drain(..).collect();
            d.consumed += items.len() as u64;
            // (room was made only if something was taken out: a wake-up on every call would keep a sender that is
            // waiting for room runnable for ever, and the canonical schedule polls runnable tasks before it delivers)
            let w = if items.is_empty() { None } else { d.writer_waker.take() };
            (items, w)
        };
        if let Some(w) = w {
            w.wake();
        }
        items
    }

    /// The transport fails in direction `dir`.
    pub fn cut(&self, dir: usize) {
        let (rw, ww) = {
            let mut l = self.lock();
            let d = &mut l.dirs[dir];
            if d.cut {
                return;
            }
            d.cut = true;
            d.inflight.clear();
            d.err_pending = !d.src_ended;
            (d.reader_waker.take(), d.writer_waker.take())
        };
        if let Some(w) = rw {
            w.wake();
        }
        if let Some(w) = ww {
            w.wake();
        }
    }

    /// From now on everything sent in `dir` vanishes without any error.
    pub fn blackhole(&self, dir: usize) {
        let mut l = self.lock();
        let d = &mut l.dirs[dir];
        d.blackhole = true;
        d.inflight.clear();
    }

    /// Raw peer goes away abruptly (TCP closed): the reader of `dir` sees EOF after what is in flight.
    pub fn raw_hangup(&self, dir: usize) {
        let mut l = self.lock();
        let d = &mut l.dirs[dir];
        if !d.sink_closed || !matches!(d.inflight.back(), Some(Item::Eof)) {
            d.sink_closed = true;
            d.inflight.push_back(Item::Eof);
        }
    }

    pub fn wire_len(&self) -> usize {
        self.lock().wire.len()
    }
}

#[derive(Debug)]
pub struct MemWs {
    side: usize,
    link: Link,
}

impl Drop for MemWs {
    fn drop(&mut self) {
        let w = {
            let mut l = self.link.lock();
            l.dropped[self.side] = true;
            let d = &mut l.dirs[self.side];
            if !d.cut {
                d.sink_closed = true;
                if !d.blackhole {
                    d.inflight.push_back(Item::Eof);
                }
            }
            // nobody will read the other direction any more: never block the peer's sink on us
            let r = &mut l.dirs[1 - self.side];
            r.cap = UNBOUNDED_CAP;
            r.writer_waker.take()
        };
        if let Some(w) = w {
            w.wake();
        }
    }
}

impl WebSocket for MemWs {
    fn poll_ready_unpin(&mut self, cx: &mut Context<'_>) -> Poll<Result<(), Error>> {
        let mut l = self.link.lock();
        l.calls += 1;
        let d = &mut l.dirs[self.side];
        if d.cut {
            return Poll::Ready(Err(ws_err()));
        }
        if d.inflight.len() + d.ready.len() >= d.cap {
            d.writer_waker = Some(cx.waker().clone());
            return Poll::Pending;
        }
        Poll::Ready(Ok(()))
    }

    fn start_send_unpin(&mut self, item: Message) -> Result<(), Error> {
        let mut l = self.link.lock();
        l.calls += 1;
        let side = self.side;
        if l.dirs[side].cut || l.dirs[side].sink_closed {
            // tungstenite: sending after the close handshake started is an error
            return Err(ws_err());
        }
        l.wire.push(WireEv {
            dir: side,
            msg: item.clone(),
        });
        let d = &mut l.dirs[side];
        d.sent += 1;
        if matches!(item, Message::Close) {
            d.sink_closed = true;
        }
        if !d.blackhole {
            d.inflight.push_back(Item::Msg(item));
        }
        Ok(())
    }

    fn poll_flush_unpin(&mut self, _cx: &mut Context<'_>) -> Poll<Result<(), Error>> {
        let mut l = self.link.lock();
        l.calls += 1;
        if l.dirs[self.side].cut {
            return Poll::Ready(Err(ws_err()));
        }
        Poll::Ready(Ok(()))
    }

    fn poll_close_unpin(&mut self, cx: &mut Context<'_>) -> Poll<Result<(), Error>> {
        let mut l = self.link.lock();
        l.calls += 1;
        let side = self.side;
        if l.dirs[side].cut {
            return Poll::Ready(Err(ws_err()));
        }
        // closing means flushing what was sent and putting the Close message behind it: a transport whose send side
        // is backed up (the peer does not read) cannot complete that
        if !l.dirs[side].sink_closed && l.dirs[side].inflight.len() + l.dirs[side].ready.len() >= l.dirs[side].cap {
            l.dirs[side].writer_waker = Some(cx.waker().clone());
            return Poll::Pending;
        }
        if !l.dirs[side].sink_closed {
            l.wire.push(WireEv {
                dir: side,
                msg: Message::Close,
            });
            let d = &mut l.dirs[side];
            d.sink_closed = true;
            d.sent += 1;
            if !d.blackhole {
                d.inflight.push_back(Item::Msg(Message::Close));
            }
        }
        Poll::Ready(Ok(()))
    }

    fn poll_next_unpin(&mut self, cx: &mut Context<'_>) -> Poll<Option<Result<Message, Error>>> {
        let side = self.side;
        let rdir = 1 - side;
        let mut wake = None;
        let res = {
            let mut l = self.link.lock();
            l.calls += 1;
            if l.dirs[rdir].src_ended {
                return Poll::Ready(None);
            }
            match l.dirs[rdir].ready.pop_front() {
                Some(Item::Msg(m)) => {
                    l.dirs[rdir].consumed += 1;
                    wake = l.dirs[rdir].writer_waker.take();
                    if matches!(m, Message::Close) {
                        if !l.linger_after_close[side] {
                            l.dirs[rdir].src_ended = true;
                        }
                        // automatic Close reply
                        if !l.dirs[side].sink_closed && !l.dirs[side].cut {
                            l.wire.push(WireEv {
                                dir: side,
                                msg: Message::Close,
                            });
                            let d = &mut l.dirs[side];
                            d.sink_closed = true;
                            d.sent += 1;
                            if !d.blackhole {
                                d.inflight.push_back(Item::Msg(Message::Close));
                            }
                        }
                    }
                    Poll::Ready(Some(Ok(m)))
                }
                Some(Item::Eof) => {
                    l.dirs[rdir].src_ended = true;
                    Poll::Ready(None)
                }
                None => {
                    if l.dirs[rdir].err_pending {
                        l.dirs[rdir].err_pending = false;
                        l.dirs[rdir].src_ended = true;
                        Poll::Ready(Some(Err(ws_err())))
                    } else {
                        l.dirs[rdir].reader_waker = Some(cx.waker().clone());
                        Poll::Pending
                    }
                }
            }
        };
        if let Some(w) = wake {
            w.wake();
        }
        res
    }
}
