//! Hunt C12: a writer that waits for flow-control credit must be woken whenever
//! credit arrives or the stream is closed.
//!
//! Only the public API of `penguin-mux` is used.
//
// SPDX-License-Identifier: Apache-2.0 OR GPL-3.0-or-later

use core::future::poll_fn;
use core::task::{Context, Poll};
use core::time::Duration;
use penguin_mux::config::Options;
use penguin_mux::ws::{Message, WebSocket};
use penguin_mux::{Multiplexor, MuxStream};
use std::sync::Arc;
use tokio::io::{AsyncReadExt, AsyncWriteExt};
use tokio::sync::mpsc;
use tokio::task::JoinSet;

/// In-memory `WebSocket` (same as the mock in the crate's own tests)
struct MockWebSocket(
    Option<mpsc::UnboundedSender<Message>>,
    mpsc::UnboundedReceiver<Message>,
);

impl WebSocket for MockWebSocket {
    fn poll_ready_unpin(&mut self, _cx: &mut Context<'_>) -> Poll<Result<(), penguin_mux::Error>> {
        if self.0.is_none() {
            Poll::Ready(Err(penguin_mux::Error::Closed))
        } else {
            Poll::Ready(Ok(()))
        }
    }
    fn start_send_unpin(&mut self, item: Message) -> Result<(), penguin_mux::Error> {
        let Some(sender) = &self.0 else {
            return Err(penguin_mux::Error::Closed);
        };
        sender.send(item).or(Err(penguin_mux::Error::Closed))
    }
    fn poll_flush_unpin(&mut self, _cx: &mut Context<'_>) -> Poll<Result<(), penguin_mux::Error>> {
        Poll::Ready(Ok(()))
    }
    fn poll_close_unpin(&mut self, _cx: &mut Context<'_>) -> Poll<Result<(), penguin_mux::Error>> {
        self.0.take();
        Poll::Ready(Ok(()))
    }
    fn poll_next_unpin(
        &mut self,
        cx: &mut Context<'_>,
    ) -> Poll<Option<Result<Message, penguin_mux::Error>>> {
        self.1.poll_recv(cx).map(|x| x.map(Ok))
    }
}

fn ws_pair() -> (MockWebSocket, MockWebSocket) {
    let (tx1, rx1) = mpsc::unbounded_channel();
    let (tx2, rx2) = mpsc::unbounded_channel();
    (MockWebSocket(Some(tx1), rx2), MockWebSocket(Some(tx2), rx1))
}

const RWND: u32 = 2;
const GRACE: Duration = Duration::from_secs(3);

fn options() -> Options {
    Options::new().rwnd(RWND).default_rwnd_threshold(RWND)
}

/// Finding 1.
///
/// The connection task is the only party that ever wakes a writer waiting for credit
/// (`acknowledge` / `disallow_write`). If the task goes away without running
/// `wind_down` (its future is dropped: `JoinSet` dropped or `abort()`ed, which is exactly
/// what `penguin::client::on_connected` does on each of its `return Err(..)` paths), the
/// stream is closed for everybody else (the reader gets EOF, a writer that still has credit
/// gets `BrokenPipe`), but the writer that is waiting for credit is never woken.
#[tokio::test(flavor = "current_thread")]
async fn f1_writer_waiting_for_credit_is_released_when_the_task_is_aborted() {
    let (ws_c, ws_s) = ws_pair();
    let mut client_tasks = JoinSet::new();
    let client = Multiplexor::new_with_opt(ws_c, options(), Some(&mut client_tasks));
    let server = Multiplexor::new_with_opt(ws_s, options(), None);

    let (c_stream, s_stream) = tokio::join!(client.new_stream_channel(b"h", 1), async {
        server.accept_stream_channel().await.unwrap()
    });
    let c_stream = c_stream.unwrap();
    // The server application is slow: it holds its end and does not read.
    let _s_stream = s_stream;

    let (mut c_read, mut c_write) = tokio::io::split(c_stream);
    // Use up the window, then wait for credit.
    let writer = tokio::spawn(async move {
        for _ in 0..RWND {
            c_write.write_all(b"x").await?;
        }
        // This one has to wait for an `Acknowledge`
        c_write.write_all(b"y").await
    });
    tokio::time::sleep(Duration::from_millis(200)).await;
    assert!(!writer.is_finished(), "the writer should be waiting for credit");

    // The connection goes away the way `penguin::client::on_connected` lets it go away
    // on an error return: the `JoinSet` holding the task and the `Multiplexor` are dropped.
    drop(client_tasks);
    drop(client);

    // The stream is closed as far as the reader is concerned ...
    let mut buf = [0u8; 1];
    let n = tokio::time::timeout(GRACE, c_read.read(&mut buf))
        .await
        .expect("reader should see the end of the stream")
        .unwrap();
    assert_eq!(n, 0, "reader sees EOF: the stream is closed");

    // ... so the waiting writer must be woken and fail.
    let res = tokio::time::timeout(GRACE, writer)
        .await
        .expect("LOST WAKE-UP: the stream is closed but the writer waiting for credit still sleeps")
        .unwrap();
    assert_eq!(
        res.unwrap_err().kind(),
        std::io::ErrorKind::BrokenPipe,
        "the writer should fail with `BrokenPipe`"
    );
}

/// Finding 1, as the `penguin` client runs into it: `handle_remote/tcp.rs` does
/// `tokio::spawn(channel.into_copy_bidirectional(tcp_stream))` and `client::on_connected`
/// drops the `JoinSet` with the mux task on every `return Err(..)`. A bridge whose writing
/// direction waits for credit at that moment never finishes, not even when the local
/// application gives up and closes its socket: task and socket are leaked.
#[tokio::test(flavor = "current_thread")]
async fn f1b_bridge_waiting_for_credit_finishes_when_the_task_is_aborted() {
    let (ws_c, ws_s) = ws_pair();
    let mut client_tasks = JoinSet::new();
    let client = Multiplexor::new_with_opt(ws_c, options(), Some(&mut client_tasks));
    let server = Multiplexor::new_with_opt(ws_s, options(), None);
    let (c_stream, s_stream) = tokio::join!(client.new_stream_channel(b"h", 1), async {
        server.accept_stream_channel().await.unwrap()
    });
    let c_stream = c_stream.unwrap();
    let _s_stream = s_stream; // slow remote application

    let (mut local_app, bridge_side) = tokio::io::duplex(64);
    let bridge = tokio::spawn(c_stream.into_copy_bidirectional(bridge_side));
    // One frame per chunk: RWND frames use up the window, the next one waits for credit
    for _ in 0..=RWND {
        local_app.write_all(b"x").await.unwrap();
        tokio::time::sleep(Duration::from_millis(50)).await;
    }
    assert!(!bridge.is_finished());

    drop(client_tasks);
    drop(client);
    tokio::time::sleep(Duration::from_millis(50)).await;
    // The local application sees EOF from the tunnel and closes its side as well
    let mut buf = [0u8; 1];
    let n = tokio::time::timeout(GRACE, local_app.read(&mut buf))
        .await
        .expect("local application should see the end of the stream")
        .unwrap();
    assert_eq!(n, 0);
    drop(local_app);

    let res = tokio::time::timeout(GRACE, bridge)
        .await
        .expect("LOST WAKE-UP: the connection is gone but the bridge still waits for credit")
        .unwrap();
    assert_eq!(res.unwrap_err().kind(), std::io::ErrorKind::BrokenPipe);
}

/// Control for finding 1: the same history, but the connection ends in an orderly way
/// (the `Multiplexor` is dropped and the task winds down). Passes on the unmodified tree.
#[tokio::test(flavor = "current_thread")]
async fn f1_control_writer_is_released_when_the_task_winds_down() {
    let (ws_c, ws_s) = ws_pair();
    let mut client_tasks = JoinSet::new();
    let client = Multiplexor::new_with_opt(ws_c, options(), Some(&mut client_tasks));
    let server = Multiplexor::new_with_opt(ws_s, options(), None);
    let (c_stream, s_stream) = tokio::join!(client.new_stream_channel(b"h", 1), async {
        server.accept_stream_channel().await.unwrap()
    });
    let mut c_stream = c_stream.unwrap();
    let _s_stream = s_stream;
    let writer = tokio::spawn(async move {
        for _ in 0..RWND {
            c_stream.write_all(b"x").await?;
        }
        c_stream.write_all(b"y").await
    });
    tokio::time::sleep(Duration::from_millis(200)).await;
    assert!(!writer.is_finished(), "the writer should be waiting for credit");
    drop(client);
    let res = tokio::time::timeout(GRACE, writer)
        .await
        .expect("writer should be woken by the orderly wind-down")
        .unwrap();
    assert_eq!(res.unwrap_err().kind(), std::io::ErrorKind::BrokenPipe);
}

async fn established_pair() -> (Multiplexor, Multiplexor, MuxStream, MuxStream) {
    let (ws_c, ws_s) = ws_pair();
    let client = Multiplexor::new_with_opt(ws_c, options(), None);
    let server = Multiplexor::new_with_opt(ws_s, options(), None);
    let (c_stream, s_stream) = tokio::join!(client.new_stream_channel(b"h", 1), async {
        server.accept_stream_channel().await.unwrap()
    });
    (client, server, c_stream.unwrap(), s_stream)
}

/// Finding 2.
///
/// `MuxStream::poll_write_push(&self, ..)` is public and takes `&self`, so two tasks may wait
/// for credit on the same stream. The single-slot `AtomicWaker` keeps only the waker of
/// the last poll: when the `Acknowledge` grants two units, only one of the two waiting
/// writers is woken; the other sleeps although credit for it is available.
#[tokio::test(flavor = "current_thread")]
async fn f2_two_writers_waiting_for_credit_are_both_woken_by_an_acknowledge() {
    let (_client, _server, c_stream, mut s_stream) = established_pair().await;
    let c_stream = Arc::new(c_stream);
    // Use up the window
    for _ in 0..RWND {
        poll_fn(|cx| c_stream.poll_write_push(cx, b"x"))
            .await
            .unwrap();
    }
    let spawn_writer = |s: Arc<MuxStream>| {
        tokio::spawn(async move { poll_fn(|cx| s.poll_write_push(cx, b"y")).await })
    };
    let w1 = spawn_writer(c_stream.clone());
    let w2 = spawn_writer(c_stream.clone());
    tokio::time::sleep(Duration::from_millis(200)).await;
    assert!(!w1.is_finished() && !w2.is_finished(), "both wait for credit");

    // The peer reads the two frames, which sends `Acknowledge(2)`: credit for both writers.
    let mut buf = [0u8; 2];
    s_stream.read_exact(&mut buf).await.unwrap();

    let (r1, r2) = tokio::join!(
        tokio::time::timeout(GRACE, w1),
        tokio::time::timeout(GRACE, w2)
    );
    assert!(
        r1.is_ok() && r2.is_ok(),
        "LOST WAKE-UP: two units of credit arrived but a waiting writer still sleeps \
         (writer 1 done: {}, writer 2 done: {})",
        r1.is_ok(),
        r2.is_ok()
    );
}

/// Finding 3.
///
/// `MuxStream::do_shutdown(&self)` sets the finish-sent flag (after which every write must
/// fail with `BrokenPipe`) but does not wake a writer that is waiting for credit.
#[tokio::test(flavor = "current_thread")]
async fn f3_writer_waiting_for_credit_is_woken_by_shutdown() {
    let (_client, _server, c_stream, _s_stream) = established_pair().await;
    let c_stream = Arc::new(c_stream);
    for _ in 0..RWND {
        poll_fn(|cx| c_stream.poll_write_push(cx, b"x"))
            .await
            .unwrap();
    }
    let s = c_stream.clone();
    let w = tokio::spawn(async move { poll_fn(|cx| s.poll_write_push(cx, b"y")).await });
    tokio::time::sleep(Duration::from_millis(200)).await;
    assert!(!w.is_finished(), "the writer waits for credit");

    c_stream.do_shutdown().unwrap();
    // A fresh write attempt fails right away: the write side is closed
    assert!(
        poll_fn(|cx| c_stream.poll_write_push(cx, b"z"))
            .await
            .is_none()
    );
    let r = tokio::time::timeout(GRACE, w)
        .await
        .expect("LOST WAKE-UP: the write side was shut down but the waiting writer still sleeps")
        .unwrap();
    assert!(r.is_none(), "the waiting writer should fail");
}
