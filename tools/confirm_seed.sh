#!/bin/bash
# Confirm a seeded change independently: patch applies to /repo HEAD, workspace compiles, the repository suite
# still passes (149, only the 2 known offline failures), the demonstration fails with the patch and passes without.
#   tools/confirm_seed.sh seeded/<name>      -> writes seeded/<name>/confirm.json
# Runs inside a private network namespace (the suite binds fixed loopback ports).
set -u
SD=$(readlink -f "$1")
SV=${SV:-/tmp/sv}
WT=$SV-wt
TGT=$SV-target
OUT=$SD/confirm.json
git -C /repo worktree remove --force $WT >/dev/null 2>&1; rm -rf $WT
git -C /repo worktree add -q --detach $WT HEAD || exit 2
HEAD=$(git -C /repo rev-parse --short HEAD)
cd $WT
res() { python3 - "$@" <<'PY'
import json,sys
k=sys.argv[1:]
d=dict(zip(k[0::2],k[1::2]))
print(json.dumps(d))
PY
}
if ! git apply --check "$SD/patch.diff" 2>/dev/null; then
  echo "{\"repo_head\":\"$HEAD\",\"patch_applies\":false}" > $OUT; cat $OUT; git -C /repo worktree remove --force $WT; exit 1
fi
apply_demo() {
# ---- demonstration files
DEMO_TESTS=()
if [ -f "$SD/demo_target.txt" ]; then
  # explicit placement: lines "<file under the seed dir> <path in the repository>"
  while read src dst; do [ -n "$src" ] && mkdir -p "$(dirname "$WT/$dst")" && cp "$SD/$src" "$WT/$dst"; done < "$SD/demo_target.txt"
elif [ -f "$SD/demo.diff" ]; then
  git apply "$SD/demo.diff" 2>/dev/null || DEMO_APPLY_FAIL=1
else
  # demo given as files under demo/: copy them keeping the relative path, or guess the crate
  (cd "$SD/demo" && find . -type f -name '*.rs') | while read f; do
    case "$f" in
      ./penguin-mux/*|./penguin/*|./cow-bytes/*|./penguin-socks/*) mkdir -p "$(dirname "$WT/$f")"; cp "$SD/demo/$f" "$WT/$f";;
      *) : ;;
    esac
  done
fi
git status --porcelain | grep -E '^\?\? .*tests/' | sed 's/^?? //' > $SV-newfiles.txt
git status --porcelain | grep -E 'tests/.*\.rs$' | awk '{print $2}' >> $SV-newfiles.txt
sort -u $SV-newfiles.txt -o $SV-newfiles.txt
}
run_demo() { # prints PASS/FAIL per demo test target
  local all=PASS
  while read f; do
    [ -z "$f" ] && continue
    if [ -d "$f" ]; then files=$(find "$f" -name '*.rs'); else files=$f; fi
    for g in $files; do
      crate=$(echo $g | cut -d/ -f1); name=$(basename $g .rs)
      case $crate in penguin) pkg=rusty-penguin;; *) pkg=$crate;; esac
      sel="-p $pkg"; [ -f "$SD/demo_workspace" ] && sel="--workspace"
      extra=""; [ -f "$SD/demo_release" ] && extra="--release"; grep -q "release" "$SD/DEMO.md" 2>/dev/null && [ "$crate" = penguin-mux ] && grep -q "c09" <<<"$name" && extra="--release"
      if ! unshare -n bash -c "ip link set lo up; CARGO_TARGET_DIR=$TGT timeout 900 cargo test $sel --test $name --offline $extra -j 8" >$SV-demo.log 2>&1; then all=FAIL; fi
    done
  done < $SV-newfiles.txt
  echo $all
}
git apply "$SD/patch.diff"
# ---- suite with the patch
unshare -n bash -c "ip link set lo up; CARGO_TARGET_DIR=$TGT timeout 900 cargo test --workspace --no-fail-fast --offline -j 8" > $SV-suite.log 2>&1
PASSED=$(grep -E "^test result" $SV-suite.log | sed -E 's/.* ([0-9]+) passed.*/\1/' | paste -sd+ | bc)
FAILED_NAMES=$(grep -E "^test .* \.\.\. FAILED" $SV-suite.log | awk '{print $2}' | sort | paste -sd, )
COMPILES=true; grep -qE "could not compile|^error\[E" $SV-suite.log && COMPILES=false
apply_demo
DEMO_WITH=$(run_demo)
git apply -R "$SD/patch.diff"
DEMO_WITHOUT=$(run_demo)
python3 - "$OUT" "$HEAD" "$COMPILES" "${PASSED:-0}" "$FAILED_NAMES" "$DEMO_WITH" "$DEMO_WITHOUT" "$(cat $SV-newfiles.txt | paste -sd,)" <<'PY'
import json,sys
out,head,comp,passed,failed,dw,dwo,files=sys.argv[1:]
known={"server::service::tests::test_backend_tls","tests::test_it_works_dns_v4"}
f=set(x for x in failed.split(",") if x)
d={"repo_head":head,"patch_applies":True,"compiles":comp=="true","suite_passed":int(passed or 0),"suite_failed":sorted(f),
   "suite_ok":int(passed or 0)==149 and f<=known,"demo_files":files.split(","),"demo_with_patch":dw,"demo_without_patch":dwo,
   "confirmed": comp=="true" and int(passed or 0)==149 and f<=known and dw=="FAIL" and dwo=="PASS"}
json.dump(d,open(out,"w"),indent=1); print(json.dumps(d))
PY
cd /; git -C /repo worktree remove --force $WT
