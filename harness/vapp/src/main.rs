//! Entry point of the checks that need the `penguin` application crate (C14, C17, C01, C19).
//! `vapp <ID> --tier quick|thorough --out FILE [--replay FILE] [--threads N]`

mod drivers;

pub use vcommon::{Args, report};

fn main() {
    vcommon::main_with(drivers::dispatch, |_| None)
}
