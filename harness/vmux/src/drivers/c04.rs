//! C04 — streams always make progress while the application keeps reading.

use super::common::{Case, Plan, run_cases};
use super::xfer::{self, Oracles, StreamSpec, XferCfg};
use crate::Args;
use crate::apps::{EndPlan, Op};
use crate::report::Report;
use std::time::Duration;

fn streams(n: usize, both: bool) -> Vec<StreamSpec> {
    let back = if both { vec![Op::Burst(n, 2), Op::Shutdown] } else { vec![Op::Shutdown] };
    // the writer under test also issues zero-length writes (they must not eat into the window)
    let mut fwd = Vec::new();
    for i in 0..n {
        fwd.push(Op::W(1));
        if i % 3 == 0 {
            fwd.push(Op::W(0));
        }
        if i % 3 == 1 {
            fwd.push(Op::WV(vec![0, 0]));
        }
    }
    fwd.push(Op::Shutdown);
    vec![
        // the stream under test: reader keeps reading
        StreamSpec {
            tag: 1,
            opener: 0,
            // (reads smaller than the peer's 2-byte frames: a frame taken in pieces is still one frame)
            opener_plan: EndPlan::Split(fwd, vec![Op::ReadToEof(1)]),
            acceptor_plan: EndPlan::Split(back, vec![Op::ReadToEof(8)]),
        },
        // a stream whose reader is absent: its writer may block, nobody else may
        StreamSpec {
            tag: 2,
            opener: 0,
            opener_plan: EndPlan::Seq(vec![Op::Burst(n, 1), Op::Park]),
            acceptor_plan: EndPlan::Seq(vec![Op::Park]),
        },
        // a stream bridged to local pipes on both ends (penguin's real data path)
        StreamSpec {
            tag: 4,
            opener: 0,
            opener_plan: EndPlan::Bridged(4, vec![Op::Burst(n.min(12), 2), Op::Shutdown, Op::ReadToEof(8)]),
            acceptor_plan: EndPlan::Bridged(4, vec![Op::ReadToEof(3), Op::Burst(3, 1), Op::Shutdown]),
        },
        // a bridged end whose application half-closes first while the peer keeps talking WITHOUT finishing: what the
        // peer writes must still reach the local application (nothing may sit in a buffer waiting for the end)
        StreamSpec {
            tag: 5,
            opener: 0,
            opener_plan: EndPlan::Bridged(8, vec![Op::W(1), Op::Shutdown, Op::ReadN(3, 1)]),
            acceptor_plan: EndPlan::Seq(vec![Op::ReadToEof(8), Op::W(3), Op::Park]),
        },
        // a late stream request that must still be served, opened by the other side
        StreamSpec {
            tag: 3,
            opener: 1,
            opener_plan: EndPlan::Seq(vec![Op::W(2), Op::Shutdown, Op::ReadToEof(8)]),
            acceptor_plan: EndPlan::Seq(vec![Op::ReadToEof(8), Op::W(1), Op::Shutdown]),
        },
    ]
}

const WITNESS_NAMES_C04: &[(&str, u64)] = &[
    ("writer_ran_out_of_credit", xfer::W_CREDIT_ZERO),
    ("acknowledge_sent", xfer::W_ACK_SENT),
    ("reset_seen", xfer::W_RESET),
    ("some_execution_completed_all_futures", xfer::W_ALL_DONE),
    ("pushes_of_two_streams_adjacent_on_wire", xfer::W_TWO_STREAMS_INTERLEAVED),
    ("multiplexor_dropped_with_streams_alive", xfer::W_MUX_DROPPED),
    ("ran_with_all_tracing_spans_and_events_enabled", xfer::W_TRACING_ON),
];

pub fn run(args: &Args) -> Report {
    let mut rep = Report::new("C04", &args.tier, "psim", "model_checking");
    let thorough = args.thorough();
    let or = Oracles { integrity: true, credit: false, progress: true, allow_pending_prefixes: &["s2.", "dgecho", "s5.b", "s5.a.bridge"] };
    let rw = [1u32, 2, 3, 4, 16];
    let th = [1u32, 2, 3, 4, 8, 32];
    let mut cfgs: Vec<((u32, u32), (u32, u32))> = Vec::new();
    if thorough {
        for &ra in &rw {
            for &ta in &th {
                for &rb in &rw {
                    for &tb in &th {
                        cfgs.push(((ra, ta), (rb, tb)));
                    }
                }
            }
        }
    } else {
        // both sides from a small set that includes threshold > own window, asymmetric windows and the defaults' shape
        let one = [(1u32, 1u32), (2, 1), (4, 4), (4, 8), (2, 32), (16, 3)];
        for a in one {
            for b in one {
                cfgs.push((a, b));
            }
        }
    }
    let mut cases = Vec::new();
    // a link that takes one (two) message(s) at a time: the sending half of the connection task meets a sink that is
    // not ready while frames of every kind wait in its queue
    for (a, b) in cfgs.iter().copied().filter(|(a, b)| a == b || (a.0 == 1 && b.0 >= 4) || (b.0 == 1 && a.0 >= 4)).take(if thorough { 60 } else { 10 }) {
        for cap in [1usize, 2] {
            let n = 2 * a.0.max(b.0) as usize + 3;
            let cfg = XferCfg { a, b, cap, streams: streams(n, true), stream_buffer: 1, one_byte_frames: false, dgram_pingpong: 2, dgram_buffer: 1, drop_mux_when_writers_done: None, extra: xfer::XferExtra::NONE, horizon: 20_000 };
            let label = format!("link capacity {cap} | both directions | {}", cfg.describe());
            cases.push(Case { try_unbounded: false, max_k: u32::MAX, label, exec: Box::new(move |r| xfer::exec(&cfg, &or, r)) });
        }
    }
    for (a, b) in cfgs {
        let n = 2 * a.0.max(b.0) as usize + 3;
        let bufs: &[(usize, usize)] = if thorough { &[(1, 1), (2, 2)] } else { &[(1, 1)] };
        for &(sb, db) in bufs {
            for both in if thorough { vec![false, true] } else { vec![true] } {
                let cfg = XferCfg { a, b, cap: 0, streams: streams(n, both), stream_buffer: sb, one_byte_frames: false, dgram_pingpong: 2, dgram_buffer: db, drop_mux_when_writers_done: None, extra: xfer::XferExtra::NONE, horizon: 20_000 };
                let label = format!("{} | stream_buffer={sb} datagram_buffer={db} | {}", if both { "both directions" } else { "one direction" }, cfg.describe());
                cases.push(Case { try_unbounded: false, max_k: u32::MAX, label, exec: Box::new(move |r| xfer::exec(&cfg, &or, r)) });
            }
        }
    }
    // datagrams that nobody takes out (more than the datagram buffer holds) delay nothing else
    for (a, b, db) in [((2u32, 1u32), (2u32, 1u32), 1usize), ((4, 8), (1, 1), 2)] {
        let cfg = XferCfg { a, b, cap: 0, streams: streams(2 * a.0.max(b.0) as usize + 3, true), stream_buffer: 1, one_byte_frames: false, dgram_pingpong: 0, dgram_buffer: db, drop_mux_when_writers_done: None, extra: xfer::XferExtra { dgram_flood: db + 2, rng_a: &[], rng_b: &[] }, horizon: 20_000 };
        let label = format!("datagrams nobody reads | datagram_buffer={db} | {}", cfg.describe());
        cases.push(Case { try_unbounded: false, max_k: u32::MAX, label, exec: Box::new(move |r| xfer::exec(&cfg, &or, r)) });
    }
    // single writes, plain and vectored, longer than one frame may carry (512 KiB): every write completes (possibly
    // short) and every byte it reports as written becomes readable
    for (a, b) in [((4u32, 8u32), (2u32, 1u32)), ((1, 1), (16, 3))] {
        let st = vec![StreamSpec {
            tag: 1,
            opener: 0,
            opener_plan: EndPlan::Split(vec![Op::WV(vec![300_000, 300_000, 300_000]), Op::W(700_000), Op::WV(vec![0, 524_288, 1]), Op::Shutdown], vec![Op::ReadToEof(65_536)]),
            acceptor_plan: EndPlan::Split(vec![Op::WV(vec![524_287, 0, 2, 5]), Op::W(524_289), Op::Shutdown], vec![Op::ReadToEof(65_536)]),
        }];
        let cfg = XferCfg { a, b, cap: 0, streams: st, stream_buffer: 1, one_byte_frames: false, dgram_pingpong: 0, dgram_buffer: 1, drop_mux_when_writers_done: None, extra: xfer::XferExtra::NONE, horizon: 20_000 };
        let label = format!("single plain and vectored writes longer than a frame | {}", cfg.describe());
        cases.push(Case { try_unbounded: false, max_k: 1, label, exec: Box::new(move |r| xfer::exec(&cfg, &or, r)) });
    }
    // the smallest drivers: every interleaving modulo commutation (sleep sets); every reachable quiescent state is judged
    for (a, b) in [((1u32, 1u32), (1u32, 1u32)), ((1, 3), (1, 1)), ((2, 32), (1, 4))] {
        let st = vec![StreamSpec {
            tag: 1,
            opener: 0,
            opener_plan: EndPlan::Seq(vec![Op::Burst(3, 1), Op::Shutdown, Op::ReadToEof(4)]),
            acceptor_plan: EndPlan::Seq(vec![Op::ReadToEof(4), Op::W(1), Op::Shutdown]),
        }];
        let cfg = XferCfg { a, b, cap: 0, streams: st, stream_buffer: 1, one_byte_frames: false, dgram_pingpong: 0, dgram_buffer: 1, drop_mux_when_writers_done: None, extra: xfer::XferExtra::NONE, horizon: 20_000 };
        let label = format!("tiny, all interleavings | {}", cfg.describe());
        cases.push(Case { try_unbounded: true, max_k: 1, label, exec: Box::new(move |r| xfer::exec(&cfg, &or, r)) });
    }
    // The same with a `tracing` subscriber installed that enables everything (RUST_LOG=trace in the shipped binaries):
    // the connection task is a plain future ("works in any async runtime"); this harness, like an application that
    // polls it under `block_on` / in a `select!` / on another executor, polls it OUTSIDE a spawned tokio task, and what
    // its instrumentation evaluates when spans are enabled must not stop it.
    for (a, b) in [((2u32, 1u32), (2u32, 1u32)), ((1, 3), (4, 8))] {
        let cfg = XferCfg { a, b, cap: 0, streams: streams(2 * a.0.max(b.0) as usize + 3, true), stream_buffer: 1, one_byte_frames: false, dgram_pingpong: 2, dgram_buffer: 1, drop_mux_when_writers_done: None, extra: xfer::XferExtra::NONE, horizon: 20_000 };
        let label = format!("every tracing span and event enabled | {}", cfg.describe());
        cases.push(Case {
            try_unbounded: false,
            max_k: if thorough { 1 } else { 0 },
            label,
            exec: Box::new(move |r| {
                let (mut out, produced) = crate::dbgtrace::with_all_on(|| xfer::exec(&cfg, &or, r));
                if produced > 0 {
                    out.witnesses |= xfer::W_TRACING_ON;
                }
                out
            }),
        });
    }
    let plan = Plan {
        ks: if thorough { vec![0, 1, 2] } else { vec![0, 1] },
        env: 0,
        fault: 0,
        total_wall: Duration::from_secs(if thorough { 1500 } else { 100 }),
        max_execs_per_case: if thorough { 400_000 } else { 50_000 },
        required_witnesses: xfer::W_CREDIT_ZERO | xfer::W_ACK_SENT | xfer::W_TRACING_ON,
        adaptive: thorough,
        witness_names: WITNESS_NAMES_C04,
    };
    rep.rule = "psim: per (rwnd,threshold) pair on each side independently x buffer sizes: stream 1 carries a burst of 2*max(rwnd)+3 frames to a reader that reads to EOF; stream 2 has an absent reader; stream 3 is requested by the other side; a 2-datagram ping-pong runs alongside. Every fair schedule with <= k deviations runs to quiescence; quiescence with an unfinished future other than stream 2's parked ends (and the echo loop) is a stall, the step horizon is a livelock; two configurations are run again with a tracing subscriber that enables every span and event (the connection task's instrumentation is then evaluated, outside a spawned tokio task as everywhere in this harness)".into();
    rep.assumptions = vec![
        "fairness is structural: an execution ends only when no task is runnable and nothing is in flight".into(),
        "datagram progress is checked with datagram_buffer_size >= number of datagrams in flight (a full buffer may legitimately drop)".into(),
    ];
    run_cases(args, &mut rep, cases, &plan);
    rep
}
