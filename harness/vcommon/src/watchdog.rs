//! A subject that blocks its thread forever (e.g. a lock taken twice on the same
//! thread) would hang the whole check. Every execution registers itself here; a
//! watchdog thread turns an execution that does not return within the limit into
//! a reported violation (with the case and the choice prefix that led to it) and
//! ends the process.

use std::collections::HashMap;
use std::sync::{Mutex, OnceLock};
use std::time::{Duration, Instant};

struct Entry {
    label: String,
    choices: Vec<u16>,
    since: Instant,
    /// watchdog ticks that have seen this very execution still running (wall time alone is not trusted: a frozen
    /// or starved process must not look like a blocked subject)
    ticks_seen: u32,
}

struct State {
    property: String,
    tier: String,
    out: String,
    limit: Duration,
    running: HashMap<std::thread::ThreadId, Entry>,
}

static STATE: OnceLock<Mutex<State>> = OnceLock::new();


pub fn start(property: &str, tier: &str, out: &str, limit: Duration) {
    let st = State { property: property.into(), tier: tier.into(), out: out.into(), limit, running: HashMap::new() };
    if STATE.set(Mutex::new(st)).is_err() {
        return;
    }
    std::thread::spawn(|| {
        loop {
            std::thread::sleep(Duration::from_millis(500));
            let Some(m) = STATE.get() else { continue };
            let mut st = m.lock().unwrap_or_else(std::sync::PoisonError::into_inner);
            for e in st.running.values_mut() {
                e.ticks_seen += 1;
            }
            let need = (st.limit.as_millis() / 500) as u32;
            let stuck = st.running.values().find(|e| e.since.elapsed() > st.limit && e.ticks_seen >= need);
            if let Some(e) = stuck {
                let v = serde_json::json!({
                    "property": st.property, "tier": st.tier, "engine": "psim", "level": "model_checking",
                    "wall_s": 0.0, "evaluations": 1, "distinct_nontrivial": 2, "states": 1, "transitions": 1,
                    "rule": "watchdog", "samples": [{"case": e.label, "choices": e.choices}], "exhaustive": false,
                    "bounds": {}, "caps_hit": [], "assumptions": [], "extra": {},
                    "violations": [{
                        "key": "wedged.execution-never-returned",
                        "desc": format!("[{}] the subject blocked the executing thread for more than {:?} (a lock taken twice, an unbounded loop...): the endpoint stops serving. Choice prefix {:?}", e.label, st.limit, e.choices),
                        "replay": {"case": e.label, "choices": e.choices}, "count": 1
                    }],
                    "machinery_error": null,
                });
                println!("WATCHDOG: execution stuck: {} {:?}", e.label, e.choices);
                if !st.out.is_empty() {
                    let _ = std::fs::write(&st.out, serde_json::to_string_pretty(&v).unwrap_or_default());
                }
                std::process::exit(1);
            }
        }
    });
}

pub fn enter(label: &str, choices: &[u16]) {
    let Some(m) = STATE.get() else { return };
    let label = label.to_string();
    m.lock().unwrap_or_else(std::sync::PoisonError::into_inner).running.insert(std::thread::current().id(), Entry { label, choices: choices.to_vec(), since: Instant::now(), ticks_seen: 0 });
}

pub fn leave() {
    let Some(m) = STATE.get() else { return };
    m.lock().unwrap_or_else(std::sync::PoisonError::into_inner).running.remove(&std::thread::current().id());
}
