//! C13 — the stream-to-socket bridge relays faithfully, half-closes, always terminates.
//! `MuxStream::into_copy_bidirectional_with_buf` over a scripted local byte stream whose every
//! answer is an explorer choice; the multiplexor peer is a raw peer.

use super::c05::push_viol;
use super::common::{Case, Plan, run_cases};
use crate::Args;
use crate::apps::{SideCfg, World, group_of, opts};
use crate::codec::RFrame;
use crate::explore::{Cost, RunOutput, choose};
use crate::link::UNBOUNDED_CAP;
use crate::raw::{RMsg, Raw};
use crate::report::Report;
use crate::sim::{Fnv, Step};
use crate::wiremon::WireMon;
use std::cell::RefCell;
use std::io;
use std::pin::Pin;
use std::rc::Rc;
use std::task::{Context, Poll, Waker};
use std::time::Duration;
use tokio::io::{AsyncBufRead, AsyncRead, AsyncWrite, ReadBuf};

const F: u32 = 5;
const E_RWND: u32 = 2;

const W_PARTIAL_WRITE: u64 = 1;
const W_PENDING: u64 = 2;
const W_ERR_INJECTED: u64 = 4;
const W_COMPLETED_OK: u64 = 8;
const W_HALF_CLOSE_LOCAL_FIRST: u64 = 16;
const W_HALF_CLOSE_PEER_FIRST: u64 = 32;
const W_CREDIT_WAIT: u64 = 64;
const W_STUCK_LOCAL_SINK: u64 = 1 << 20;
const W_OPEN_ENDED_PEER: u64 = 1 << 21;
const W_WRITE_ZERO: u64 = 1 << 22;
const W_COALESCED: u64 = 128;
const W_CONN_ENDED: u64 = 1 << 23;
const W_DEAD_FLOW_WITH_LOCAL_DATA: u64 = 1 << 24;

#[derive(Default)]
struct Local {
    /// how many non-default answers this local side may still give (None = as many as the explorer's budget allows);
    /// the scenarios with megabytes per execution stop at one, whatever the tier's budget
    env_left: Option<u32>,
    /// bytes the local side will produce in total
    out: Vec<u8>,
    /// handed out by fill_buf so far (end of the current buffer)
    produced: usize,
    /// consumed through `consume`
    consumed: usize,
    /// bytes accepted by `poll_write`
    inn: Vec<u8>,
    shutdown_ok: bool,
    read_waker: Option<Waker>,
    write_waker: Option<Waker>,
    flush_waker: Option<Waker>,
    shutdown_waker: Option<Waker>,
    /// first injected error: (site, kind)
    err: Option<(&'static str, io::ErrorKind)>,
    /// every injected error kind
    errs: Vec<io::ErrorKind>,
    read_err: bool,
    write_err: bool,
    eof_returned: bool,
    pendings: u32,
    partials: u32,
    fill_calls_this_poll: u32,
    coalesce: bool,
    /// the local application does not take what the peer sent: writes (or flushes) stay Pending for ever
    stuck_write: bool,
    stuck_flush: bool,
    /// size of the default answer of fill_buf (3 bytes in the small scenarios)
    chunk: usize,
    /// the local writer buffers: bytes accepted by `poll_write` reach the application only through a completed
    /// `poll_flush` (or shutdown), like `BufWriter`/`BufStream` or a TLS stream
    buffered: bool,
    wbuf: Vec<u8>,
    zero_writes: u32,
    /// the local write side answers `Ok(0)` to a non-empty write from now on (a sink that takes nothing more)
    write_zero: bool,
}

#[derive(Clone)]
struct Scripted(Rc<RefCell<Local>>);

fn kind_of(site: &str) -> io::ErrorKind {
    match site {
        "read" => io::ErrorKind::ConnectionReset,
        "write" => io::ErrorKind::ConnectionAborted,
        "flush" => io::ErrorKind::TimedOut,
        _ => io::ErrorKind::NotConnected,
    }
}

impl AsyncRead for Scripted {
    fn poll_read(self: Pin<&mut Self>, _cx: &mut Context<'_>, _buf: &mut ReadBuf<'_>) -> Poll<io::Result<()>> {
        // the bridge only uses the AsyncBufRead interface
        Poll::Ready(Err(io::Error::other("poll_read is not part of the bridge's interface")))
    }
}

impl AsyncBufRead for Scripted {
    fn poll_fill_buf(self: Pin<&mut Self>, cx: &mut Context<'_>) -> Poll<io::Result<&[u8]>> {
        let me = self.get_mut();
        let mut l = me.0.borrow_mut();
        l.fill_calls_this_poll += 1;
        if l.read_err {
            return Poll::Ready(Err(kind_of("read").into()));
        }
        if l.consumed < l.produced {
            // unconsumed data is handed out again
            let (a, b) = (l.consumed, l.produced);
            drop(l);
            let l2 = me.0.borrow();
            // SAFETY of lifetimes: `out` is never modified after construction
            let s: &[u8] = unsafe { std::slice::from_raw_parts(l2.out.as_ptr().add(a), b - a) };
            return Poll::Ready(Ok(s));
        }
        let rem = l.out.len() - l.produced;
        if rem == 0 {
            // default: end of stream; alternatives: not ready yet, error
            let c = env_choice(&mut l, &[Cost::Env, Cost::Env, Cost::Env]);
            return match c {
                0 => {
                    l.eof_returned = true;
                    Poll::Ready(Ok(&[]))
                }
                1 => {
                    l.pendings += 1;
                    l.read_waker = Some(cx.waker().clone());
                    Poll::Pending
                }
                _ => {
                    l.read_err = true;
                    l.errs.push(kind_of("read"));
                    l.err.get_or_insert(("read", kind_of("read")));
                    Poll::Ready(Err(kind_of("read").into()))
                }
            };
        }
        // default: up to 3 bytes; alternatives: 1 byte, not ready, error
        let c = env_choice(&mut l, &[Cost::Env, Cost::Env, Cost::Env, Cost::Env]);
        match c {
            0 | 1 => {
                let n = if c == 0 { rem.min(l.chunk.max(1)) } else { 1 };
                if l.fill_calls_this_poll > 1 {
                    l.coalesce = true;
                }
                let a = l.produced;
                l.produced += n;
                let ptr = l.out.as_ptr();
                drop(l);
                let s: &[u8] = unsafe { std::slice::from_raw_parts(ptr.add(a), n) };
                Poll::Ready(Ok(s))
            }
            2 => {
                l.pendings += 1;
                l.read_waker = Some(cx.waker().clone());
                Poll::Pending
            }
            _ => {
                l.read_err = true;
                l.errs.push(kind_of("read"));
                l.err.get_or_insert(("read", kind_of("read")));
                Poll::Ready(Err(kind_of("read").into()))
            }
        }
    }

    fn consume(self: Pin<&mut Self>, amt: usize) {
        let mut l = self.0.borrow_mut();
        l.consumed += amt;
        assert!(l.consumed <= l.produced, "bridge consumed more than it was given");
    }
}

impl AsyncWrite for Scripted {
    fn poll_write(self: Pin<&mut Self>, cx: &mut Context<'_>, buf: &[u8]) -> Poll<io::Result<usize>> {
        let mut l = self.0.borrow_mut();
        if l.write_err {
            return Poll::Ready(Err(kind_of("write").into()));
        }
        if buf.is_empty() {
            return Poll::Ready(Ok(0));
        }
        if l.stuck_write {
            l.write_waker = Some(cx.waker().clone());
            return Poll::Pending;
        }
        if l.write_zero {
            l.zero_writes += 1;
            if l.zero_writes > 10_000 {
                // the bridge keeps offering the same bytes to a sink that takes none: it spins inside one poll
                panic!("local poll_write answered Ok(0) 10000 times in a row: the bridge is spinning");
            }
            return Poll::Ready(Ok(0));
        }
        // default: everything; alternatives: one byte, not ready, error
        let c = env_choice(&mut l, &[Cost::Env, Cost::Env, Cost::Env, Cost::Env]);
        match c {
            0 => {
                if l.buffered {
                    l.wbuf.extend_from_slice(buf);
                } else {
                    l.inn.extend_from_slice(buf);
                }
                Poll::Ready(Ok(buf.len()))
            }
            1 => {
                if buf.len() > 1 {
                    l.partials += 1;
                }
                if l.buffered {
                    l.wbuf.push(buf[0]);
                } else {
                    l.inn.push(buf[0]);
                }
                Poll::Ready(Ok(1))
            }
            2 => {
                l.pendings += 1;
                l.write_waker = Some(cx.waker().clone());
                Poll::Pending
            }
            _ => {
                l.write_err = true;
                l.errs.push(kind_of("write"));
                l.err.get_or_insert(("write", kind_of("write")));
                Poll::Ready(Err(kind_of("write").into()))
            }
        }
    }

    fn poll_flush(self: Pin<&mut Self>, cx: &mut Context<'_>) -> Poll<io::Result<()>> {
        let mut l = self.0.borrow_mut();
        if l.stuck_flush && !l.inn.is_empty() {
            l.flush_waker = Some(cx.waker().clone());
            return Poll::Pending;
        }
        let c = env_choice(&mut l, &[Cost::Env, Cost::Env, Cost::Env]);
        match c {
            0 => {
                let w = std::mem::take(&mut l.wbuf);
                l.inn.extend_from_slice(&w);
                Poll::Ready(Ok(()))
            }
            1 => {
                l.pendings += 1;
                l.flush_waker = Some(cx.waker().clone());
                Poll::Pending
            }
            _ => {
                l.errs.push(kind_of("flush"));
                l.err.get_or_insert(("flush", kind_of("flush")));
                Poll::Ready(Err(kind_of("flush").into()))
            }
        }
    }

    fn poll_shutdown(self: Pin<&mut Self>, cx: &mut Context<'_>) -> Poll<io::Result<()>> {
        let mut l = self.0.borrow_mut();
        if l.shutdown_ok {
            return Poll::Ready(Ok(()));
        }
        let c = env_choice(&mut l, &[Cost::Env, Cost::Env, Cost::Env]);
        match c {
            0 => {
                l.shutdown_ok = true;
                let w = std::mem::take(&mut l.wbuf);
                l.inn.extend_from_slice(&w);
                Poll::Ready(Ok(()))
            }
            1 => {
                l.pendings += 1;
                l.shutdown_waker = Some(cx.waker().clone());
                Poll::Pending
            }
            _ => {
                l.errs.push(kind_of("shutdown"));
                l.err.get_or_insert(("shutdown", kind_of("shutdown")));
                Poll::Ready(Err(kind_of("shutdown").into()))
            }
        }
    }
}

#[derive(Clone, Debug)]
enum PeerEv {
    Push(Vec<u8>),
    Finish,
    Reset,
    /// the connection ends under the bridge: the peer closes the WebSocket
    WsClose,
    /// ... the transport fails (both directions)
    Cut,
    /// ... the peer sends a message that is not a frame
    Garbage,
}

#[derive(Clone, Debug)]
struct Scn {
    name: &'static str,
    /// bytes the local side produces before EOF
    local_out: usize,
    /// what the multiplexor peer sends, in order
    peer: Vec<PeerEv>,
    /// window the peer advertises to the endpoint
    peer_rwnd: u32,
    /// the peer returns credit only when the explorer fires the step (else right after each Push it receives)
    lazy_ack: bool,
    /// "" | "write" | "flush": the local application stops taking data, so that local operation stays Pending for ever;
    /// the other direction (local -> mux) must keep flowing and end with Finish; the bridge itself cannot complete
    stuck: &'static str,
    /// bytes handed out by a default fill_buf answer (0 = the usual 3)
    chunk: usize,
    /// the local writer buffers until flushed
    buffered: bool,
    /// the local sink answers Ok(0) to every non-empty write
    write_zero: bool,
}

fn scenarios(thorough: bool) -> Vec<Scn> {
    let p = |b: &[u8]| PeerEv::Push(b.to_vec());
    let mut v = vec![
        Scn { name: "local->mux only", local_out: 5, peer: vec![PeerEv::Finish], peer_rwnd: 4, lazy_ack: false, stuck: "", chunk: 0, buffered: false, write_zero: false },
        Scn { name: "mux->local only", local_out: 0, peer: vec![p(b"\xb1\xb2\xb3"), p(b"\xb4"), PeerEv::Finish], peer_rwnd: 4, lazy_ack: false, stuck: "", chunk: 0, buffered: false, write_zero: false },
        Scn { name: "both directions", local_out: 4, peer: vec![p(b"\xb1\xb2"), p(b"\xb3\xb4\xb5"), PeerEv::Finish], peer_rwnd: 4, lazy_ack: false, stuck: "", chunk: 0, buffered: false, write_zero: false },
        Scn { name: "credit exhausted (window 1, lazy acknowledgements)", local_out: 7, peer: vec![p(b"\xb1"), PeerEv::Finish], peer_rwnd: 1, lazy_ack: true, stuck: "", chunk: 0, buffered: false, write_zero: false },
        Scn { name: "peer resets mid-transfer", local_out: 6, peer: vec![p(b"\xb1\xb2"), PeerEv::Reset], peer_rwnd: 2, lazy_ack: false, stuck: "", chunk: 0, buffered: false, write_zero: false },
    ];
    v.push(Scn { name: "local application stops reading: local writes stay Pending", local_out: 5, peer: vec![p(b"\xb1\xb2"), p(b"\xb3")], peer_rwnd: 4, lazy_ack: false, stuck: "write", chunk: 0, buffered: false, write_zero: false });
    v.push(Scn { name: "local application stops reading: local flush stays Pending", local_out: 5, peer: vec![p(b"\xb1\xb2"), p(b"\xb3")], peer_rwnd: 4, lazy_ack: false, stuck: "flush", chunk: 0, buffered: false, write_zero: false });
    // a local writer that buffers until it is flushed: what the bridge has accepted from the peer must reach the local
    // application although the peer keeps its direction open (first: local EOF comes first; second: both ends finish)
    v.push(Scn { name: "buffered local writer, peer keeps its direction open", local_out: 3, peer: vec![p(b"\xb1\xb2"), p(b"\xb3")], peer_rwnd: 4, lazy_ack: false, stuck: "", chunk: 0, buffered: true, write_zero: false });
    v.push(Scn { name: "buffered local writer, both directions end", local_out: 4, peer: vec![p(b"\xb1\xb2"), p(b"\xb3"), PeerEv::Finish], peer_rwnd: 4, lazy_ack: false, stuck: "", chunk: 0, buffered: true, write_zero: false });
    // a local sink that accepts nothing more (Ok(0) for a non-empty write): the bridge must end with an error, not spin
    v.push(Scn { name: "local write answers Ok(0)", local_out: 2, peer: vec![p(b"\xb1"), PeerEv::Finish], peer_rwnd: 4, lazy_ack: false, stuck: "", chunk: 0, buffered: false, write_zero: true });
    // a Push frame without data among the peer's frames (well-formed; older senders emit it for a zero-length write):
    // it carries no bytes and is not the end of the stream
    v.push(Scn { name: "peer sends an empty Push between data", local_out: 2, peer: vec![p(b"\xb1\xb2"), p(b""), p(b"\xb3"), PeerEv::Finish], peer_rwnd: 4, lazy_ack: false, stuck: "", chunk: 0, buffered: false, write_zero: false });
    // a fast local producer: three 50 000-byte reads are ready at once (frame size limits, per-frame credit)
    // the connection ends under the bridge, at every point the explorer can put it (a writer parked on credit included)
    v.push(Scn { name: "connection ends mid-transfer: peer closes the WebSocket", local_out: 6, peer: vec![p(b"\xb1\xb2"), PeerEv::WsClose], peer_rwnd: 2, lazy_ack: true, stuck: "", chunk: 0, buffered: false, write_zero: false });
    v.push(Scn { name: "connection ends mid-transfer: transport failure", local_out: 6, peer: vec![p(b"\xb1\xb2"), PeerEv::Cut], peer_rwnd: 2, lazy_ack: true, stuck: "", chunk: 0, buffered: false, write_zero: false });
    v.push(Scn { name: "connection ends mid-transfer: invalid frame", local_out: 6, peer: vec![p(b"\xb1\xb2"), PeerEv::Garbage], peer_rwnd: 2, lazy_ack: true, stuck: "", chunk: 0, buffered: false, write_zero: false });
    v.push(Scn { name: "fast local producer, 150 000 B ready at once, window 1", local_out: 150_000, peer: vec![PeerEv::Finish], peer_rwnd: 1, lazy_ack: true, stuck: "", chunk: 50_000, buffered: false, write_zero: false });
    // more ready at once than one frame may carry (512 KiB): the bridge fills a frame to the limit while the local side
    // still has data ready, so no waker of the local side is registered; it must go on by itself (chunks that overshoot
    // the limit, and chunks that add up to it exactly)
    v.push(Scn { name: "fast local producer, 1 400 000 B ready at once (chunks of 200 000), window 8", local_out: 1_400_000, peer: vec![PeerEv::Finish], peer_rwnd: 8, lazy_ack: false, stuck: "", chunk: 200_000, buffered: false, write_zero: false });
    v.push(Scn { name: "fast local producer, 1 100 000 B ready at once (chunks of 65 536), window 2", local_out: 1_100_000, peer: vec![p(b"\xb1"), PeerEv::Finish], peer_rwnd: 2, lazy_ack: false, stuck: "", chunk: 65_536, buffered: false, write_zero: false });
    if thorough {
        v.push(Scn { name: "peer finishes first, long local tail", local_out: 9, peer: vec![PeerEv::Finish], peer_rwnd: 2, lazy_ack: true, stuck: "", chunk: 0, buffered: false, write_zero: false });
        v.push(Scn { name: "window overrun by bridge impossible: 3 pushes then finish", local_out: 2, peer: vec![p(b"\xb1"), p(b"\xb2"), p(b"\xb3"), PeerEv::Finish], peer_rwnd: 3, lazy_ack: true, stuck: "", chunk: 0, buffered: false, write_zero: false });
    }
    v
}

/// bytes for messages: everything when short, else the length and the first bytes
fn hx(v: &[u8]) -> String {
    if v.len() <= 24 { format!("{v:02x?}") } else { format!("[{} bytes: {:02x?}...]", v.len(), &v[..12]) }
}

/// An environment answer: the explorer's choice, unless this local side has used up its own allowance.
fn env_choice(l: &mut Local, kinds: &[Cost]) -> usize {
    if l.env_left == Some(0) {
        return 0;
    }
    let c = choose(kinds);
    if c != 0 {
        if let Some(n) = l.env_left.as_mut() {
            *n -= 1;
        }
    }
    c
}

struct BridgeResult(Option<Result<(usize, usize), (io::ErrorKind, String)>>);

fn exec(sc: &Scn, render: bool) -> RunOutput {
    let cfg = SideCfg { opts: opts(E_RWND, 1), rng: vec![] };
    let mut w = World::one(UNBOUNDED_CAP, 0, &cfg);
    let mut raw = Raw::new(1, w.sim.link.clone());
    let local = Rc::new(RefCell::new(Local { env_left: if sc.local_out > 500_000 { Some(1) } else { None }, out: (0..sc.local_out).map(|i| 0xa1u8.wrapping_add((i % 251) as u8)).collect(), chunk: if sc.chunk == 0 { 3 } else { sc.chunk }, stuck_write: sc.stuck == "write", stuck_flush: sc.stuck == "flush", buffered: sc.buffered, write_zero: sc.write_zero, ..Local::default() }));
    let result = Rc::new(RefCell::new(BridgeResult(None)));
    {
        let mux = w.mux(0);
        let (l2, r2) = (local.clone(), result.clone());
        w.sim.spawn("bridge", group_of(0), async move {
            let Ok(stream) = mux.accept_stream_channel().await else { return };
            let r = stream.into_copy_bidirectional_with_buf(Scripted(l2)).await;
            r2.borrow_mut().0 = Some(r.map_err(|e| (e.kind(), e.to_string())));
        });
    }
    raw.send(&RFrame::Connect { id: F, rwnd: sc.peer_rwnd, port: 1, host: vec![1] });
    let mut mon = WireMon::new();
    let mut viol: Vec<(String, String)> = Vec::new();
    let mut fps = Vec::new();
    let mut wit = 0u64;
    let mut peer_next = 0usize;
    let mut unacked = 0u32; // pushes the raw peer received and has not acknowledged yet
    let mut acked_total = 0u32;
    let mut got_pushes: Vec<u8> = Vec::new();
    let mut n_pushes = 0u32;
    let mut finish_from_e = false;
    let mut peer_sent: Vec<u8> = Vec::new();
    let mut peer_finished = false;
    let mut peer_reset = false;
    let mut conn_ended = false;
    let mut dead_at: Option<usize> = None;
    let mut horizon = false;
    let mut log: Vec<String> = Vec::new();
    let mut established = false;
    let mut prompt_checked = false;
    let mut not_prompt = false;
    loop {
        if w.sim.steps >= 3000 {
            horizon = true;
            break;
        }
        let en = w.sim.enabled();
        // extra steps, canonical order: local readiness, peer acknowledgement, next peer frame
        let mut extras: Vec<&'static str> = Vec::new();
        {
            let l = local.borrow();
            if l.read_waker.is_some() {
                extras.push("local-readable");
            }
            if l.write_waker.is_some() && !l.stuck_write {
                extras.push("local-writable");
            }
            if l.flush_waker.is_some() && !l.stuck_flush {
                extras.push("local-flushed");
            }
            if l.shutdown_waker.is_some() {
                extras.push("local-shutdown-ready");
            }
        }
        if sc.lazy_ack && unacked > 0 && !peer_reset {
            extras.push("peer-ack");
        }
        if established && peer_next < sc.peer.len() {
            extras.push("peer-next");
        }
        if en.is_empty() && extras.is_empty() {
            break;
        }
        let kinds = vec![Cost::Sched; en.len() + extras.len()];
        let c = choose(&kinds);
        local.borrow_mut().fill_calls_this_poll = 0;
        if c < en.len() {
            let step: Step = en[c].clone();
            if render {
                log.push(w.sim.describe(&step));
            }
            w.sim.apply(&step);
        } else {
            let x = extras[c - en.len()];
            w.sim.steps += 1;
            if render {
                log.push(x.to_string());
            }
            match x {
                "local-readable" => {
                    if let Some(wk) = local.borrow_mut().read_waker.take() {
                        wk.wake();
                    }
                }
                "local-writable" => {
                    if let Some(wk) = local.borrow_mut().write_waker.take() {
                        wk.wake();
                    }
                }
                "local-flushed" => {
                    if let Some(wk) = local.borrow_mut().flush_waker.take() {
                        wk.wake();
                    }
                }
                "local-shutdown-ready" => {
                    if let Some(wk) = local.borrow_mut().shutdown_waker.take() {
                        wk.wake();
                    }
                }
                "peer-ack" => {
                    raw.send(&RFrame::Acknowledge { id: F, n: unacked });
                    acked_total += unacked;
                    unacked = 0;
                }
                _ => {
                    match &sc.peer[peer_next] {
                        PeerEv::Push(d) => {
                            raw.send(&RFrame::Push { id: F, data: d.clone() });
                            peer_sent.extend_from_slice(d);
                        }
                        PeerEv::Finish => {
                            raw.send(&RFrame::Finish { id: F });
                            peer_finished = true;
                        }
                        PeerEv::Reset => {
                            raw.send(&RFrame::Reset { id: F });
                            peer_reset = true;
                        }
                        PeerEv::WsClose => {
                            raw.send_msg(penguin_mux::ws::Message::Close);
                            conn_ended = true;
                        }
                        PeerEv::Cut => {
                            w.sim.link.cut(0);
                            w.sim.link.cut(1);
                            conn_ended = true;
                        }
                        PeerEv::Garbage => {
                            raw.send_bytes(&[0x7f, 0, 0, 0, 1]);
                            conn_ended = true;
                        }
                    }
                    peer_next += 1;
                }
            }
        }
        // promptness: once a local operation has failed, the bridge must complete by itself --
        // only the bridge task is polled (while it keeps waking itself), nothing else happens
        if local.borrow().err.is_some() && result.borrow().0.is_none() && !prompt_checked {
            prompt_checked = true;
            let bi = w.sim.tasks.iter().position(|t| t.name == "bridge");
            if let Some(bi) = bi {
                let mut n = 0;
                while w.sim.is_runnable(bi) && n < 16 {
                    w.sim.apply(&Step::Poll(bi));
                    n += 1;
                    if render {
                        log.push("poll(bridge)!".into());
                    }
                }
            }
            if result.borrow().0.is_none() {
                not_prompt = true;
            }
        }
        // the raw peer takes in what reached it
        for m in raw.pump() {
            match m {
                RMsg::Frame(RFrame::Acknowledge { id: F, n }) if !established => {
                    established = true;
                    if n != E_RWND {
                        push_viol(&mut viol, "handshake.ack-rwnd", format!("handshake Acknowledge advertises {n}, configured {E_RWND}"));
                    }
                }
                RMsg::Frame(RFrame::Push { id: F, data }) => {
                    n_pushes += 1;
                    if data.is_empty() {
                        push_viol(&mut viol, "bridge.empty-push", "the bridge transmitted an empty Push frame".into());
                    }
                    got_pushes.extend_from_slice(&data);
                    // credit rule, black box: never more frames than window + credit returned
                    if n_pushes > sc.peer_rwnd + acked_total {
                        push_viol(&mut viol, "credit.overrun", format!("Push #{n_pushes} on the wire with window {} and {acked_total} credit returned", sc.peer_rwnd));
                    }
                    if sc.lazy_ack {
                        unacked += 1;
                    } else {
                        raw.send(&RFrame::Acknowledge { id: F, n: 1 });
                        acked_total += 1;
                    }
                    if finish_from_e {
                        push_viol(&mut viol, "bridge.push-after-finish", "a Push was transmitted after the bridge's Finish".into());
                    }
                }
                RMsg::Frame(RFrame::Finish { id: F }) => finish_from_e = true,
                _ => {}
            }
        }
        {
            let l = w.sim.link.lock();
            mon.absorb(&l);
        }
        // ---- per-step safety
        let l = local.borrow();
        if got_pushes.len() > l.consumed || got_pushes[..] != l.out[..got_pushes.len()] {
            push_viol(&mut viol, "relay.local-to-mux", format!("Push payloads on the wire {} are not a prefix of what the local side produced and the bridge consumed {}", hx(&got_pushes), hx(&l.out[..l.consumed])));
        }
        if l.inn.len() > peer_sent.len() || l.inn[..] != peer_sent[..l.inn.len()] {
            push_viol(&mut viol, "relay.mux-to-local", format!("bytes written to the local side {} are not a prefix of what the peer sent {}", hx(&l.inn), hx(&peer_sent)));
        }
        // once the endpoint has processed the peer's Reset (or the end of the connection) the flow is dead: the bridge
        // must not take any more bytes from the local side for it (they could only be lost)
        if (peer_reset || conn_ended) && dead_at.is_none() {
            if let Some(m) = w.mux[0].as_ref() {
                if !m.verif_flow_digest().iter().any(|f| f.id == F) {
                    dead_at = Some(l.consumed);
                }
            }
        }
        if let Some(c0) = dead_at {
            if l.consumed > c0 {
                push_viol(&mut viol, "relay.into-dead-flow", format!("the endpoint had processed the peer's {} with {c0} local byte(s) consumed; afterwards the bridge consumed {} more byte(s) from the local side for the dead flow instead of failing with BrokenPipe", if peer_reset { "Reset" } else { "end of the connection" }, l.consumed - c0));
            } else if l.consumed < l.out.len() {
                wit |= W_DEAD_FLOW_WITH_LOCAL_DATA;
            }
        }
        if l.shutdown_ok && !(peer_finished || peer_reset || conn_ended) {
            push_viol(&mut viol, "halfclose.spurious-local-shutdown", "the local side was shut down although the peer has neither finished nor reset the stream".into());
        }
        if finish_from_e && !l.eof_returned {
            push_viol(&mut viol, "halfclose.spurious-finish", "Finish was transmitted although the local side has not reported end-of-stream".into());
        }
        if l.coalesce {
            wit |= W_COALESCED;
        }
        if let Some(m) = w.mux[0].as_ref() {
            if m.verif_flow_digest().iter().any(|f| f.id == F && f.kind == 1 && f.credit == 0 && !f.finish_sent) && l.consumed < l.out.len() {
                wit |= W_CREDIT_WAIT;
            }
        }
        let mut h = Fnv::default();
        h.u64(l.produced as u64);
        h.u64(l.consumed as u64);
        h.u64(l.inn.len() as u64);
        h.byte(u8::from(l.shutdown_ok) | u8::from(l.eof_returned) << 1 | u8::from(l.read_err) << 2 | u8::from(l.write_err) << 3 | u8::from(l.read_waker.is_some()) << 4 | u8::from(l.write_waker.is_some()) << 5);
        h.u64(got_pushes.len() as u64);
        h.u64(u64::from(unacked));
        h.u64(peer_next as u64);
        h.byte(u8::from(finish_from_e));
        if let Some(m) = w.mux[0].as_ref() {
            for f in m.verif_flow_digest() {
                h.u64(u64::from(f.credit));
                h.u64(f.queued as u64);
                h.byte(f.kind | u8::from(f.finish_sent) << 2 | u8::from(f.read_open) << 3);
            }
        }
        h.byte(u8::from(result.borrow().0.is_some()));
        for (i, t) in w.sim.tasks.iter().enumerate() {
            h.byte(u8::from(t.done) | u8::from(w.sim.is_runnable(i)) << 1);
        }
        fps.push(h.0);
    }
    // ------------------------------------------------------------ verdict at quiescence
    let l = local.borrow();
    let res = result.borrow();
    if horizon {
        push_viol(&mut viol, "livelock", "step horizon reached".into());
    }
    if l.partials > 0 {
        wit |= W_PARTIAL_WRITE;
    }
    if l.pendings > 0 {
        wit |= W_PENDING;
    }
    if not_prompt {
        let (site, kind) = l.err.unwrap_or(("?", io::ErrorKind::Other));
        push_viol(
            &mut viol,
            &format!("error.not-prompt.{site}"),
            format!("the local {site} failed with {kind:?} but the bridge future did not complete in that poll nor woke itself: it only completes (if at all) when unrelated traffic wakes it; eventual result {:?}", res.0),
        );
    }
    if sc.write_zero && l.err.is_none() && l.zero_writes > 0 {
        match &res.0 {
            Some(Err((k, _))) if *k == io::ErrorKind::WriteZero => wit |= W_WRITE_ZERO,
            other => push_viol(&mut viol, "error.write-zero", format!("the local sink accepts no more bytes (poll_write returns Ok(0)); the bridge must complete with WriteZero, got {other:?}")),
        }
    }
    if conn_ended {
        wit |= W_CONN_ENDED;
    }
    match (&l.err, &res.0) {
        // the connection ended under the bridge (and no local operation failed): the bridge must complete by itself,
        // with Ok (everything that was delivered relayed, local side shut down) or with the stream's BrokenPipe
        (None, r) if conn_ended => match r {
            None => {
                if !horizon && sc.stuck.is_empty() {
                    push_viol(&mut viol, "bridge.hang-after-connection-end", format!("the connection ended ({:?}) and nothing is left to run, yet the bridge future has not completed: local produced {}/{} consumed {}, written to local {}, local shutdown={}", sc.peer.last(), l.produced, l.out.len(), l.consumed, l.inn.len(), l.shutdown_ok));
                }
            }
            Some(Ok((r, wn))) => {
                if *r != l.inn.len() || *wn < got_pushes.len() || *wn > l.consumed {
                    push_viol(&mut viol, "result.counts", format!("bridge returned ({r}, {wn}) after the connection ended; bytes relayed mux->local {}, local->mux on the wire {} (consumed from the local side {})", l.inn.len(), got_pushes.len(), l.consumed));
                }
                if !l.shutdown_ok {
                    push_viol(&mut viol, "halfclose.no-local-shutdown", "bridge completed Ok after the connection ended but the local side was never shut down".into());
                }
            }
            Some(Err((k, msg))) => {
                if *k != io::ErrorKind::BrokenPipe {
                    push_viol(&mut viol, "bridge.spurious-error", format!("the connection ended; the bridge failed with {k:?} ({msg}) instead of BrokenPipe"));
                }
            }
        },
        (Some((site, kind)), r) => {
            wit |= W_ERR_INJECTED;
            match r {
                Some(Err((k, _))) if k == kind || l.errs.contains(k) => {}
                Some(Err((k, _))) if (peer_reset || conn_ended) && *k == io::ErrorKind::BrokenPipe => {}
                Some(other) => push_viol(&mut viol, &format!("error.wrong-result.{site}"), format!("the local {site} failed with {kind:?}; the bridge completed with {other:?}")),
                None => push_viol(
                    &mut viol,
                    &format!("error.not-prompt.{site}"),
                    format!("the local {site} failed with {kind:?}; nothing is left to run, deliver or become ready, yet the bridge future has not completed (it would need unrelated traffic to wake it)"),
                ),
            }
        }
        (None, None) if sc.stuck.is_empty() && !sc.peer.iter().any(|e| matches!(e, PeerEv::Finish | PeerEv::Reset)) => {
            // the peer keeps its direction open, so the bridge cannot complete; everything it sent must have reached the
            // local application all the same (a buffering local writer has to be flushed when the mux side goes idle)
            wit |= W_OPEN_ENDED_PEER;
            if l.inn != peer_sent {
                push_viol(&mut viol, "relay.mux-to-local-not-flushed", format!("quiescent, the peer's direction still open: the peer sent {} and the bridge accepted them, but the local application has only got {} ({} byte(s) sit in the local writer's buffer, nothing will flush them)", hx(&peer_sent), hx(&l.inn), l.wbuf.len()));
            }
            if got_pushes != l.out || !finish_from_e {
                push_viol(&mut viol, "relay.local-to-mux-incomplete", format!("quiescent with the peer's direction open: only {} of {} relayed, Finish sent={finish_from_e}", hx(&got_pushes), hx(&l.out)));
            }
        }
        (None, None) if !sc.stuck.is_empty() => {
            // expected: the mux -> local direction cannot end. The opposite direction must not be held up by it.
            wit |= W_STUCK_LOCAL_SINK;
            if got_pushes != l.out || !finish_from_e {
                push_viol(
                    &mut viol,
                    "halfclose.direction-held-up",
                    format!("the local side does not take the peer's data (local {} stays Pending), and the local -> mux direction did not keep flowing: {} of {} relayed, Finish sent={finish_from_e}, local eof returned={}", sc.stuck, hx(&got_pushes), hx(&l.out), l.eof_returned),
                );
            }
        }
        (None, None) => {
            if !horizon {
                push_viol(
                    &mut viol,
                    "bridge.stalled",
                    format!("quiescent with the bridge unfinished: local produced {}/{} consumed {}, eof_returned={}, Finish sent={finish_from_e}, peer finished={peer_finished} reset={peer_reset}, local shutdown={}, written to local {}/{}", l.produced, l.out.len(), l.consumed, l.eof_returned, l.shutdown_ok, l.inn.len(), peer_sent.len()),
                );
            }
        }
        (None, Some(Ok((r, wn)))) => {
            wit |= W_COMPLETED_OK;
            // both directions ended: everything relayed, both half-closes propagated, counts right
            // (after the peer's Reset the flow is gone in both directions: what the local side still had cannot be
            // relayed any more, and whether the bridge then ends with Ok and the counts or with BrokenPipe is its choice)
            if got_pushes != l.out && !peer_reset {
                push_viol(&mut viol, "relay.local-to-mux-incomplete", format!("bridge completed Ok but only {} of {} reached the wire", hx(&got_pushes), hx(&l.out)));
            }
            if !peer_reset && l.inn != peer_sent {
                push_viol(&mut viol, "relay.mux-to-local-incomplete", format!("bridge completed Ok but only {} of {} reached the local side", hx(&l.inn), hx(&peer_sent)));
            }
            if !finish_from_e && !peer_reset {
                push_viol(&mut viol, "halfclose.no-finish", "bridge completed Ok (local side ended) but no Finish was transmitted".into());
            }
            if !l.shutdown_ok {
                push_viol(&mut viol, "halfclose.no-local-shutdown", "bridge completed Ok (peer ended) but the local side was never shut down".into());
            }
            if *r != l.inn.len() || *wn != got_pushes.len() {
                push_viol(&mut viol, "result.counts", format!("bridge returned ({r}, {wn}); bytes relayed mux->local {} and local->mux {}", l.inn.len(), got_pushes.len()));
            }
        }
        (None, Some(Err((k, msg)))) => {
            // without an injected local error the only legitimate failure is BrokenPipe after the peer's Reset
            if !(peer_reset && *k == io::ErrorKind::BrokenPipe) && !(sc.write_zero && *k == io::ErrorKind::WriteZero) {
                push_viol(&mut viol, "bridge.spurious-error", format!("bridge failed with {k:?} ({msg}) although no local operation failed and the peer did not reset"));
            }
        }
    }
    // one unit of credit per frame (white box, at quiescence): credit == window + returned - frames
    if let Some(m) = w.mux[0].as_ref() {
        if let Some(f) = m.verif_flow_digest().into_iter().find(|f| f.id == F && f.kind == 1) {
            let delivered_acks = acked_total; // everything sent has been delivered at quiescence
            let expect = i64::from(sc.peer_rwnd) + i64::from(delivered_acks) - i64::from(n_pushes);
            if i64::from(f.credit) != expect && !horizon && !conn_ended {
                push_viol(&mut viol, "credit.equation", format!("send credit is {} but window {} + returned {delivered_acks} - frames sent {n_pushes} = {expect}", f.credit, sc.peer_rwnd));
            }
        }
    }
    // half-close independence witnesses
    if finish_from_e && l.inn.len() == peer_sent.len() && !peer_sent.is_empty() {
        wit |= W_HALF_CLOSE_LOCAL_FIRST;
    }
    if peer_finished && got_pushes.len() == l.out.len() && !l.out.is_empty() {
        wit |= W_HALF_CLOSE_PEER_FIRST;
    }
    for t in &w.sim.tasks {
        if let Some(p) = &t.panicked {
            push_viol(&mut viol, "panic", format!("{} panicked: {p}", t.name));
        }
    }
    if w.task_done(0) && !conn_ended {
        push_viol(&mut viol, "task.ended", format!("connection task ended: {:?}", w.task_result[0].borrow()));
    }
    let mut h = Fnv::default();
    h.str(&format!("{:?} {:?} {} {} {} {}", res.0, l.err, hx(&got_pushes), l.inn.len(), finish_from_e, l.shutdown_ok));
    h.u64(got_pushes.len() as u64);
    drop(l);
    drop(res);
    let out = RunOutput { blocked: false, steps: w.sim.steps, fingerprints: fps, outcome: h.0, violations: viol, witnesses: wit, horizon, rendering: render.then(|| log.join(" ")) };
    w.sim.teardown();
    let _ = &mon;
    out
}

pub fn run(args: &Args) -> Report {
    let mut rep = Report::new("C13", &args.tier, "psim", "model_checking");
    let thorough = args.thorough();
    let mut cases = Vec::new();
    for sc in scenarios(thorough) {
        cases.push(Case { try_unbounded: false, max_k: if sc.local_out > 500_000 { 0 } else if sc.chunk > 1000 { 1 } else { u32::MAX }, label: format!("{} | local produces {} B, peer script {:?}, peer window {}, lazy_ack={}{}", sc.name, sc.local_out, sc.peer, sc.peer_rwnd, sc.lazy_ack, if sc.stuck.is_empty() { String::new() } else { format!(", local {} never ready", sc.stuck) }), exec: Box::new(move |r| exec(&sc, r)) });
    }
    let plan = Plan {
        ks: if thorough { vec![0, 1, 2, 3, 4, 5] } else { vec![0, 1, 2] },
        env: if thorough { 4 } else { 2 },
        fault: 0,
        total_wall: Duration::from_secs(if thorough { 1500 } else { 100 }),
        max_execs_per_case: 20_000_000,
        required_witnesses: W_PARTIAL_WRITE | W_PENDING | W_ERR_INJECTED | W_COMPLETED_OK | W_HALF_CLOSE_LOCAL_FIRST | W_HALF_CLOSE_PEER_FIRST | W_CREDIT_WAIT | W_COALESCED | W_STUCK_LOCAL_SINK | W_OPEN_ENDED_PEER | W_CONN_ENDED | W_DEAD_FLOW_WITH_LOCAL_DATA,
        adaptive: thorough,
        witness_names: &[
            ("partial_local_write", W_PARTIAL_WRITE),
            ("connection_ended_under_the_bridge", W_CONN_ENDED),
            ("flow_dead_while_local_data_remains", W_DEAD_FLOW_WITH_LOCAL_DATA),
            ("pending_answer", W_PENDING),
            ("error_injected", W_ERR_INJECTED),
            ("bridge_completed_ok", W_COMPLETED_OK),
            ("mux_to_local_flowed_after_local_eof", W_HALF_CLOSE_LOCAL_FIRST),
            ("local_to_mux_flowed_after_peer_finish", W_HALF_CLOSE_PEER_FIRST),
            ("bridge_waited_for_credit", W_CREDIT_WAIT),
            ("two_reads_coalesced_in_one_frame", W_COALESCED),
            ("local_sink_stuck_other_direction_judged", W_STUCK_LOCAL_SINK),
            ("peer_direction_left_open_delivery_judged", W_OPEN_ENDED_PEER),
        ],
    };
    rep.rule = "psim: real endpoint running MuxStream::into_copy_bidirectional_with_buf over a scripted AsyncBufRead+AsyncWrite; every call asks the explorer: fill_buf -> {3 bytes, 1 byte, Pending, Err} / at the end {EOF, Pending, Err}; write -> {all, 1 byte, Pending, Err}; flush, shutdown -> {Ok, Pending, Err}; a Pending becomes ready through a later explorer step. The multiplexor peer is a raw peer playing {data, Finish, Reset, prompt or withheld Acknowledge} as explorer steps. All runs with <= e non-default environment answers and <= k scheduling deviations. Oracle at every step: Push payloads on the wire are a prefix of consumed local bytes, bytes written locally are a prefix of the peer's Push payloads, frames <= window + returned credit, no spurious half-close; at quiescence: the bridge has completed (in the two scenarios whose local sink is stuck: the local->mux direction has relayed everything and sent Finish all the same); Ok((r,w)) only with everything relayed, Finish sent, local shutdown done and exact counts; after an injected Err the bridge has completed with that error without any further external event; credit == window + returned - frames".into();
    rep.assumptions = vec![
        "a local write returning Ok(0) for a non-empty buffer is not an environment ANSWER of the ordinary scenarios; one dedicated scenario has a sink that answers Ok(0) throughout and demands WriteZero".into(),
        "a Pending local operation eventually becomes ready (an execution ends only when nothing is enabled), except in the two 'local application stops reading' scenarios, where the local write (or flush) stays Pending for ever and only the opposite direction is judged".into(),
    ];
    run_cases(args, &mut rep, cases, &plan);
    rep
}
