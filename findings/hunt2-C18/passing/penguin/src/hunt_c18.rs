use super::*;

async fn read_n(sock: &mut TcpStream, n: usize) -> Vec<u8> {
    let mut b = vec![0u8; n];
    tokio::time::timeout(Duration::from_secs(5), sock.read_exact(&mut b))
        .await
        .expect("timeout")
        .expect("read");
    b
}

async fn read_to_end(sock: &mut TcpStream) -> Vec<u8> {
    let mut b = Vec::new();
    tokio::time::timeout(Duration::from_secs(5), sock.read_to_end(&mut b))
        .await
        .expect("timeout")
        .ok();
    b
}

#[tokio::test(flavor = "multi_thread")]
async fn hunt_c18_e2e() {
    static SERVER_ARGS: LazyLock<arg::ServerArgs> =
        LazyLock::new(|| make_server_args("127.0.0.1", 31796));
    static CLIENT_ARGS: LazyLock<arg::ClientArgs> = LazyLock::new(|| {
        make_client_args(
            "127.0.0.1",
            31796,
            vec![
                Remote::from_str("127.0.0.1:31213:socks").unwrap(),
                Remote::from_str("[::1]:31214:socks").unwrap(),
                Remote::from_str("localhost:31215:socks").unwrap(),
            ],
        )
    });
    static HANDLER_RESOURCES: OnceLock<crate::client::HandlerResources> = OnceLock::new();
    setup_logging();
    let (hr, stream_command_rx, datagram_rx) = crate::client::HandlerResources::create();
    HANDLER_RESOURCES.set(hr).unwrap();
    let client_task = tokio::spawn(crate::client::client_main_inner(
        &CLIENT_ARGS,
        HANDLER_RESOURCES.get().unwrap(),
        stream_command_rx,
        datagram_rx,
    ));
    let server_task = tokio::spawn(crate::server::server_main(&SERVER_ARGS));

    // TCP echo target
    let listener = TcpListener::bind("127.0.0.1:0").await.unwrap();
    let tport = listener.local_addr().unwrap().port();
    tokio::spawn(async move {
        loop {
            let (mut s, _) = listener.accept().await.unwrap();
            tokio::spawn(async move {
                let mut b = vec![0u8; 4096];
                loop {
                    let n = s.read(&mut b).await.unwrap_or(0);
                    if n == 0 {
                        break;
                    }
                    s.write_all(&b[..n]).await.unwrap();
                }
            });
        }
    });
    // UDP echo targets
    let u4 = UdpSocket::bind("127.0.0.1:0").await.unwrap();
    let u4port = u4.local_addr().unwrap().port();
    tokio::spawn(async move {
        let mut b = vec![0u8; 65536];
        loop {
            let (n, src) = u4.recv_from(&mut b).await.unwrap();
            u4.send_to(&b[..n], src).await.unwrap();
        }
    });
    let u6 = UdpSocket::bind("[::1]:0").await.unwrap();
    let u6port = u6.local_addr().unwrap().port();
    tokio::spawn(async move {
        let mut b = vec![0u8; 65536];
        loop {
            let (n, src) = u6.recv_from(&mut b).await.unwrap();
            u6.send_to(&b[..n], src).await.unwrap();
        }
    });
    tokio::time::sleep(Duration::from_secs(2)).await;

    // A: SOCKS5 everything in one write, domain name
    {
        let mut sock = TcpStream::connect("127.0.0.1:31213").await.unwrap();
        let mut m = vec![5, 2, 1, 0, 5, 1, 0, 3, 9];
        m.extend(b"localhost");
        m.extend(tport.to_be_bytes());
        m.extend(b"optimistic payload");
        sock.write_all(&m).await.unwrap();
        assert_eq!(read_n(&mut sock, 2).await, [5, 0]);
        assert_eq!(read_n(&mut sock, 10).await, [5, 0, 0, 1, 0, 0, 0, 0, 0, 0]);
        assert_eq!(read_n(&mut sock, 18).await, b"optimistic payload");
        eprintln!("A ok");
    }
    // B: SOCKS4 plain, userid, pipelined payload
    {
        let mut sock = TcpStream::connect("127.0.0.1:31213").await.unwrap();
        let mut m = vec![4, 1];
        m.extend(tport.to_be_bytes());
        m.extend([127, 0, 0, 1]);
        m.extend(b"user\0");
        m.extend(b"payload4");
        sock.write_all(&m).await.unwrap();
        assert_eq!(read_n(&mut sock, 8).await, [0, 90, 0, 0, 0, 0, 0, 0]);
        assert_eq!(read_n(&mut sock, 8).await, b"payload4");
        eprintln!("B ok");
    }
    // C: SOCKS4a, pipelined payload, byte-at-a-time
    {
        let mut sock = TcpStream::connect("[::1]:31214").await.unwrap();
        sock.set_nodelay(true).unwrap();
        let mut m = vec![4, 1];
        m.extend(tport.to_be_bytes());
        m.extend([0, 0, 0, 9]);
        m.extend(b"\0");
        m.extend(b"localhost\0");
        m.extend(b"payload4a");
        for b in m {
            sock.write_all(&[b]).await.unwrap();
            tokio::time::sleep(Duration::from_millis(2)).await;
        }
        assert_eq!(read_n(&mut sock, 8).await, [0, 90, 0, 0, 0, 0, 0, 0]);
        assert_eq!(read_n(&mut sock, 9).await, b"payload4a");
        eprintln!("C ok");
    }
    // D: SOCKS5 BIND
    {
        let mut sock = TcpStream::connect("127.0.0.1:31213").await.unwrap();
        sock.write_all(&[5, 1, 0, 5, 2, 0, 1, 1, 2, 3, 4, 0, 80]).await.unwrap();
        assert_eq!(read_to_end(&mut sock).await, [5, 0, 5, 7, 0, 1, 0, 0, 0, 0, 0, 0]);
        eprintln!("D ok");
    }
    // E: unknown ATYP
    {
        let mut sock = TcpStream::connect("127.0.0.1:31213").await.unwrap();
        sock.write_all(&[5, 1, 0, 5, 1, 0, 2, 1, 2, 3, 4, 0, 80]).await.unwrap();
        let r = read_n(&mut sock, 12).await;
        assert_eq!(r, [5, 0, 5, 8, 0, 1, 0, 0, 0, 0, 0, 0]);
        eprintln!("E ok");
    }
    // F: no acceptable method
    {
        let mut sock = TcpStream::connect("127.0.0.1:31213").await.unwrap();
        sock.write_all(&[5, 2, 1, 2]).await.unwrap();
        assert_eq!(read_to_end(&mut sock).await, [5, 0xff]);
        eprintln!("F ok");
    }
    // G: SOCKS4 BIND
    {
        let mut sock = TcpStream::connect("127.0.0.1:31213").await.unwrap();
        sock.write_all(&[4, 2, 0, 80, 1, 2, 3, 4, 0]).await.unwrap();
        assert_eq!(read_to_end(&mut sock).await, [0, 91, 0, 0, 0, 0, 0, 0]);
        eprintln!("G ok");
    }
    // H: UDP associate on each listener with each kind of target
    for (proxy, label) in [
        ("127.0.0.1:31213", "v4"),
        ("[::1]:31214", "v6"),
        ("localhost:31215", "name"),
    ] {
        let mut sock = TcpStream::connect(proxy).await.unwrap();
        sock.write_all(&[5, 1, 0, 5, 3, 0, 1, 0, 0, 0, 0, 0, 0]).await.unwrap();
        assert_eq!(read_n(&mut sock, 2).await, [5, 0]);
        let h = read_n(&mut sock, 4).await;
        assert_eq!(&h[..3], [5, 0, 0]);
        let bnd: std::net::SocketAddr = match h[3] {
            1 => {
                let a = read_n(&mut sock, 6).await;
                (
                    [a[0], a[1], a[2], a[3]],
                    u16::from_be_bytes([a[4], a[5]]),
                )
                    .into()
            }
            4 => {
                let a = read_n(&mut sock, 18).await;
                let mut ip = [0u8; 16];
                ip.copy_from_slice(&a[..16]);
                (ip, u16::from_be_bytes([a[16], a[17]])).into()
            }
            x => panic!("atyp {x}"),
        };
        eprintln!("H {label}: relay at {bnd}, tcp peer {:?}", sock.peer_addr());
        assert_eq!(bnd.ip(), sock.peer_addr().unwrap().ip());
        let us = if bnd.is_ipv4() {
            UdpSocket::bind("127.0.0.1:0").await.unwrap()
        } else {
            UdpSocket::bind("[::1]:0").await.unwrap()
        };
        let targets: Vec<(Vec<u8>, std::net::SocketAddr)> = vec![
            (
                {
                    let mut v = vec![0, 0, 0, 1, 127, 0, 0, 1];
                    v.extend(u4port.to_be_bytes());
                    v
                },
                ([127, 0, 0, 1], u4port).into(),
            ),
            (
                {
                    let mut v = vec![0, 0, 0, 3, 9];
                    v.extend(b"127.0.0.1");
                    v.extend(u4port.to_be_bytes());
                    v
                },
                ([127, 0, 0, 1], u4port).into(),
            ),
        ];
        let _ = u6port;
        for (i, (hdr, want)) in targets.iter().enumerate() {
            let mut dg = hdr.clone();
            dg.extend(format!("hello {label} {i}").as_bytes());
            us.send_to(&dg, bnd).await.unwrap();
            let mut b = vec![0u8; 2048];
            let (n, from) = tokio::time::timeout(Duration::from_secs(5), us.recv_from(&mut b))
                .await
                .expect("udp reply timeout")
                .unwrap();
            assert_eq!(from, bnd);
            let r = &b[..n];
            assert_eq!(&r[..3], [0, 0, 0]);
            let (addr, rest): (std::net::SocketAddr, &[u8]) = match r[3] {
                1 => (
                    ([r[4], r[5], r[6], r[7]], u16::from_be_bytes([r[8], r[9]])).into(),
                    &r[10..],
                ),
                4 => {
                    let mut ip = [0u8; 16];
                    ip.copy_from_slice(&r[4..20]);
                    ((ip, u16::from_be_bytes([r[20], r[21]])).into(), &r[22..])
                }
                x => panic!("reply atyp {x}"),
            };
            assert_eq!(rest, format!("hello {label} {i}").as_bytes());
            eprintln!(
                "H {label} target {i}: reply header names {addr}, remote host was {want}, we are {}",
                us.local_addr().unwrap()
            );
        }
    }
    server_task.abort();
    client_task.abort();
}
