//! Exploration harness (scratch)
#![allow(dead_code, clippy::all, clippy::pedantic, clippy::nursery)]

use bytes::Bytes;
use penguin_mux::config::Options;
use penguin_mux::frame::{BindType, Frame};
use penguin_mux::ws::{Message, WebSocket};
use penguin_mux::{Datagram, Error, Multiplexor, MuxStream};
use rand::SeedableRng;
use rand::rngs::SmallRng;
use std::collections::VecDeque;
use std::sync::{Arc, Mutex};
use std::task::{Context, Poll, Waker};
use std::time::Duration;
use tokio::io::{AsyncReadExt, AsyncWriteExt};

#[derive(Clone, Copy, Debug, PartialEq, Eq)]
pub enum Fault {
    None,
    /// receiver sees an error
    RxErr,
    /// receiver sees the end of the stream without a Close
    RxEof,
    /// sender sees an error on any sink operation
    TxErr,
    /// nothing moves: sender never ready (when full), receiver never gets anything
    Stall,
}

#[derive(Debug)]
pub struct Dir {
    q: VecDeque<Message>,
    cap: usize,
    rx_waker: Option<Waker>,
    tx_waker: Option<Waker>,
    fault: Fault,
    close_sent: bool,
    sender_dropped: bool,
    receiver_dropped: bool,
}

impl Dir {
    fn new(cap: usize) -> Arc<Mutex<Self>> {
        Arc::new(Mutex::new(Self {
            q: VecDeque::new(),
            cap,
            rx_waker: None,
            tx_waker: None,
            fault: Fault::None,
            close_sent: false,
            sender_dropped: false,
            receiver_dropped: false,
        }))
    }
    fn wake_all(&mut self) {
        if let Some(w) = self.rx_waker.take() {
            w.wake();
        }
        if let Some(w) = self.tx_waker.take() {
            w.wake();
        }
    }
}

pub fn set_fault(d: &Arc<Mutex<Dir>>, f: Fault) {
    let mut d = d.lock().unwrap();
    d.fault = f;
    d.wake_all();
}

pub struct End {
    pub tx: Arc<Mutex<Dir>>,
    pub rx: Arc<Mutex<Dir>>,
    got_close: bool,
    /// client role: the source stays open (pending) after the Close was taken out
    linger: bool,
}

impl Drop for End {
    fn drop(&mut self) {
        let mut t = self.tx.lock().unwrap();
        t.sender_dropped = true;
        t.wake_all();
        drop(t);
        let mut r = self.rx.lock().unwrap();
        r.receiver_dropped = true;
        r.wake_all();
    }
}

fn ws_err(s: &'static str) -> Error {
    Error::WebSocket(Box::new(std::io::Error::other(s)))
}

impl WebSocket for End {
    fn poll_ready_unpin(&mut self, cx: &mut Context<'_>) -> Poll<Result<(), Error>> {
        let mut t = self.tx.lock().unwrap();
        if t.fault == Fault::TxErr {
            return Poll::Ready(Err(ws_err("tx error")));
        }
        if t.receiver_dropped {
            return Poll::Ready(Err(ws_err("peer gone")));
        }
        if t.close_sent {
            return Poll::Ready(Err(ws_err("send after close")));
        }
        if t.q.len() < t.cap {
            Poll::Ready(Ok(()))
        } else {
            t.tx_waker = Some(cx.waker().clone());
            Poll::Pending
        }
    }
    fn start_send_unpin(&mut self, item: Message) -> Result<(), Error> {
        let mut t = self.tx.lock().unwrap();
        if t.fault == Fault::TxErr {
            return Err(ws_err("tx error"));
        }
        if t.close_sent {
            return Err(ws_err("send after close"));
        }
        t.q.push_back(item);
        if t.fault != Fault::Stall {
            if let Some(w) = t.rx_waker.take() {
                w.wake();
            }
        }
        Ok(())
    }
    fn poll_flush_unpin(&mut self, _cx: &mut Context<'_>) -> Poll<Result<(), Error>> {
        let t = self.tx.lock().unwrap();
        if t.fault == Fault::TxErr {
            return Poll::Ready(Err(ws_err("tx error")));
        }
        Poll::Ready(Ok(()))
    }
    fn poll_close_unpin(&mut self, cx: &mut Context<'_>) -> Poll<Result<(), Error>> {
        let mut t = self.tx.lock().unwrap();
        if t.close_sent {
            return Poll::Ready(Ok(()));
        }
        if t.fault == Fault::TxErr {
            return Poll::Ready(Err(ws_err("tx error")));
        }
        if t.receiver_dropped {
            return Poll::Ready(Err(ws_err("peer gone")));
        }
        if t.q.len() < t.cap {
            t.q.push_back(Message::Close);
            t.close_sent = true;
            if t.fault != Fault::Stall {
                if let Some(w) = t.rx_waker.take() {
                    w.wake();
                }
            }
            Poll::Ready(Ok(()))
        } else {
            t.tx_waker = Some(cx.waker().clone());
            Poll::Pending
        }
    }
    fn poll_next_unpin(&mut self, cx: &mut Context<'_>) -> Poll<Option<Result<Message, Error>>> {
        let mut r = self.rx.lock().unwrap();
        match r.fault {
            Fault::RxErr => return Poll::Ready(Some(Err(ws_err("rx error")))),
            Fault::RxEof => return Poll::Ready(None),
            Fault::Stall => {
                r.rx_waker = Some(cx.waker().clone());
                return Poll::Pending;
            }
            _ => {}
        }
        if self.got_close {
            if self.linger {
                r.rx_waker = Some(cx.waker().clone());
                return Poll::Pending;
            }
            return Poll::Ready(None);
        }
        if let Some(m) = r.q.pop_front() {
            if let Some(w) = r.tx_waker.take() {
                w.wake();
            }
            if matches!(m, Message::Close) {
                self.got_close = true;
            }
            return Poll::Ready(Some(Ok(m)));
        }
        if r.sender_dropped {
            return Poll::Ready(Some(Err(ws_err("reset by peer"))));
        }
        r.rx_waker = Some(cx.waker().clone());
        Poll::Pending
    }
}

pub fn link(cap_ab: usize, cap_ba: usize, a_linger: bool) -> (End, End) {
    let ab = Dir::new(cap_ab);
    let ba = Dir::new(cap_ba);
    (
        End {
            tx: ab.clone(),
            rx: ba.clone(),
            got_close: false,
            linger: a_linger,
        },
        End {
            tx: ba,
            rx: ab,
            got_close: false,
            linger: false,
        },
    )
}

/// Scripted peer: the raw other end
pub struct Peer(pub End);

impl Peer {
    pub async fn send(&mut self, m: Message) {
        std::future::poll_fn(|cx| self.0.poll_ready_unpin(cx))
            .await
            .unwrap();
        self.0.start_send_unpin(m).unwrap();
    }
    pub async fn send_frame(&mut self, f: Frame<'_>) {
        self.send(Message::from(f)).await;
    }
    pub async fn recv(&mut self) -> Option<Result<Message, Error>> {
        std::future::poll_fn(|cx| self.0.poll_next_unpin(cx)).await
    }
    pub async fn recv_t(&mut self, ms: u64) -> Option<Option<Result<Message, Error>>> {
        tokio::time::timeout(Duration::from_millis(ms), self.recv())
            .await
            .ok()
    }
    /// Receive a binary frame (skipping pings/pongs); returns (op, id, rest)
    pub async fn recv_frame(&mut self) -> (u8, u32, Bytes) {
        loop {
            match self.recv_t(3000).await.expect("peer: timeout waiting for a frame") {
                Some(Ok(Message::Binary(b))) => {
                    let op = b[0] & 0x0f;
                    let id = u32::from_be_bytes([b[1], b[2], b[3], b[4]]);
                    return (op, id, b.slice(5..));
                }
                Some(Ok(Message::Ping)) | Some(Ok(Message::Pong)) => {}
                other => panic!("peer: unexpected {other:?}"),
            }
        }
    }
}

pub const CONNECT: u8 = 0;
pub const ACK: u8 = 1;
pub const RESET: u8 = 2;
pub const FINISH: u8 = 3;
pub const PUSH: u8 = 4;
pub const BIND: u8 = 5;
pub const DGRAM: u8 = 6;

#[derive(Clone, Copy, Debug, PartialEq, Eq)]
enum Event {
    PeerClose,
    RxErr,
    RxEof,
    TxErr,
    Keepalive,
    Invalid,
}

fn opts() -> Options {
    Options::new()
        .rwnd(4)
        .default_rwnd_threshold(2)
        .bind_buffer_size(2)
        .stream_buffer_size(2)
        .datagram_buffer_size(2)
}

async fn within<T>(what: &str, f: impl std::future::Future<Output = T>) -> T {
    match tokio::time::timeout(Duration::from_secs(3), f).await {
        Ok(v) => v,
        Err(_) => panic!("BLOCKED: {what} did not complete"),
    }
}

async fn scenario_all_pending(ev: Event, linger: bool, cap: usize) {
    let (a, b) = link(cap, cap, linger);
    let a_tx = a.tx.clone();
    let a_rx = a.rx.clone();
    let mut peer = Peer(b);
    let mut o = opts();
    if ev == Event::Keepalive || ev == Event::TxErr {
        o = o
            .keepalive_interval(Duration::from_millis(100).into())
            .keepalive_timeout(Duration::from_millis(150).into());
    }
    let (mux, task) =
        Multiplexor::new_detailed::<_, std::time::Instant>(a, o, SmallRng::seed_from_u64(1));
    let task = tokio::spawn(task.into_task());
    let mux = Arc::new(mux);

    // s1: opened by us, the peer grants a window of 1: second write blocks
    let m = mux.clone();
    let open1 = tokio::spawn(async move { m.new_stream_channel(b"h", 1).await });
    let (op, id1, _) = peer.recv_frame().await;
    assert_eq!(op, CONNECT);
    peer.send_frame(Frame::new_acknowledge(id1, 1)).await;
    let mut s1 = within("open1", open1).await.unwrap().unwrap();
    s1.write_all(b"x").await.unwrap();
    let (op, _, _) = peer.recv_frame().await;
    assert_eq!(op, PUSH);
    let blocked_writer = tokio::spawn(async move {
        let r = s1.write_all(b"y").await;
        (r, s1)
    });

    // s2: opened by the peer, nothing sent: blocked reader
    peer.send_frame(Frame::new_connect(b"t", 2, 0x22, 4)).await;
    let (op, id, _) = peer.recv_frame().await;
    assert_eq!((op, id), (ACK, 0x22));
    let mut s2 = within("accept s2", mux.accept_stream_channel()).await.unwrap();
    let blocked_reader = tokio::spawn(async move {
        let mut v = Vec::new();
        let r = s2.read_to_end(&mut v).await;
        (r, v, s2)
    });

    // s3: opened by the peer, has data delivered and unread
    peer.send_frame(Frame::new_connect(b"t", 3, 0x33, 4)).await;
    let (op, id, _) = peer.recv_frame().await;
    assert_eq!((op, id), (ACK, 0x33));
    let mut s3 = within("accept s3", mux.accept_stream_channel()).await.unwrap();
    peer.send_frame(Frame::new_push(0x33, b"hello")).await;
    peer.send_frame(Frame::new_push(0x33, b"world")).await;

    // s4: sits in the accept queue
    peer.send_frame(Frame::new_connect(b"t", 4, 0x44, 4)).await;
    let (op, id, _) = peer.recv_frame().await;
    assert_eq!((op, id), (ACK, 0x44));

    // pending open request
    let m = mux.clone();
    let open2 = tokio::spawn(async move { m.new_stream_channel(b"h", 2).await.map(|_| ()) });
    let (op, _id2, _) = peer.recv_frame().await;
    assert_eq!(op, CONNECT);
    // pending bind request
    let m = mux.clone();
    let bind = tokio::spawn(async move { m.request_bind(b"::", 9, BindType::Stream).await });
    let (op, _idb, _) = peer.recv_frame().await;
    assert_eq!(op, BIND);
    // pending datagram receive, two waiters
    let m = mux.clone();
    let dg1 = tokio::spawn(async move { m.get_datagram().await.map(|_| ()) });
    let m = mux.clone();
    let dg2 = tokio::spawn(async move { m.get_datagram().await.map(|_| ()) });
    // pending bind accept
    let m = mux.clone();
    let nb = tokio::spawn(async move { m.next_bind_request().await.map(|_| ()) });
    tokio::time::sleep(Duration::from_millis(30)).await;

    // The event
    match ev {
        Event::PeerClose => {
            std::future::poll_fn(|cx| peer.0.poll_close_unpin(cx))
                .await
                .unwrap();
        }
        Event::RxErr => set_fault(&a_rx, Fault::RxErr),
        Event::RxEof => set_fault(&a_rx, Fault::RxEof),
        Event::TxErr => set_fault(&a_tx, Fault::TxErr),
        Event::Keepalive => {
            set_fault(&a_rx, Fault::Stall);
        }
        Event::Invalid => {
            peer.send(Message::Binary(Bytes::from_static(&[0x7f, 0, 0, 0, 1])))
                .await;
        }
    }

    // the peer keeps reading whatever still comes
    let drain = tokio::spawn(async move {
        let mut n = 0;
        while let Some(Some(Ok(_))) = peer.recv_t(5000).await {
            n += 1;
        }
        (n, peer)
    });
    let r = within("task", task).await.unwrap();
    eprintln!("{ev:?}: task result {r:?}");
    let (r, mut s1) = within("blocked writer", blocked_writer).await.unwrap();
    assert_eq!(r.unwrap_err().kind(), std::io::ErrorKind::BrokenPipe);
    let (r, v, mut s2) = within("blocked reader", blocked_reader).await.unwrap();
    assert_eq!(r.unwrap(), 0);
    assert!(v.is_empty());
    let mut v = Vec::new();
    within("s3 read", s3.read_to_end(&mut v)).await.unwrap();
    assert_eq!(v, b"helloworld");
    assert!(matches!(within("open2", open2).await.unwrap(), Err(Error::Closed)));
    let b = within("bind", bind).await.unwrap();
    assert!(matches!(b, Err(Error::Closed) | Ok(false)), "{b:?}");
    assert!(matches!(within("dg1", dg1).await.unwrap(), Err(Error::Closed)));
    assert!(matches!(within("dg2", dg2).await.unwrap(), Err(Error::Closed)));
    assert!(matches!(within("nb", nb).await.unwrap(), Err(Error::Closed)));
    // queued stream is still handed out, then Closed
    let mut s4 = within("accept s4", mux.accept_stream_channel()).await.unwrap();
    assert!(matches!(
        within("accept", mux.accept_stream_channel()).await,
        Err(Error::Closed)
    ));
    // later operations
    for s in [&mut s1, &mut s2, &mut s3, &mut s4] {
        let e = within("late write", s.write(b"z")).await.unwrap_err();
        assert_eq!(e.kind(), std::io::ErrorKind::BrokenPipe);
        let mut buf = [0u8; 4];
        assert_eq!(within("late read", s.read(&mut buf)).await.unwrap(), 0);
    }
    assert!(matches!(
        within("late open", mux.new_stream_channel(b"h", 1)).await,
        Err(Error::Closed)
    ));
    assert!(matches!(
        within("late bind", mux.request_bind(b"h", 1, BindType::Stream)).await,
        Err(Error::Closed)
    ));
    assert!(matches!(
        within("late dgram", mux.get_datagram()).await,
        Err(Error::Closed)
    ));
    drop(drain);
    assert!(matches!(
        within(
            "late send dgram",
            mux.send_datagram(Datagram {
                flow_id: 1,
                target_host: Bytes::from_static(b"h"),
                target_port: 1,
                data: Bytes::from_static(b"d")
            })
        )
        .await,
        Err(Error::Closed)
    ));
}

#[tokio::test(flavor = "multi_thread", worker_threads = 3)]
async fn all_pending_every_event() {
    for ev in [
        Event::PeerClose,
        Event::RxErr,
        Event::RxEof,
        Event::TxErr,
        Event::Keepalive,
        Event::Invalid,
    ] {
        for linger in [false, true] {
            for cap in [1usize, 2, 64] {
                eprintln!("--- {ev:?} linger={linger} cap={cap}");
                scenario_all_pending(ev, linger, cap).await;
            }
        }
    }
}

async fn open_from_peer(peer: &mut Peer, mux: &Multiplexor, id: u32, rwnd: u32) -> MuxStream {
    peer.send_frame(Frame::new_connect(b"t", 1, id, rwnd)).await;
    let (op, i, _) = peer.recv_frame().await;
    assert_eq!((op, i), (ACK, id));
    within("accept", mux.accept_stream_channel()).await.unwrap()
}

async fn scenario_local_drop(cap: usize, linger: bool, slow_ms: u64, start_late: bool) {
    let (a, b) = link(cap, 64, linger);
    let mut peer = Peer(b);
    let (mux, task) =
        Multiplexor::new_detailed::<_, std::time::Instant>(a, opts(), SmallRng::seed_from_u64(1));
    let task = tokio::spawn(task.into_task());

    let mut s1 = open_from_peer(&mut peer, &mux, 0x11, 1).await; // window 1
    let mut s2 = open_from_peer(&mut peer, &mux, 0x22, 4).await;
    let mut s3 = open_from_peer(&mut peer, &mux, 0x33, 4).await;
    let mut s5 = open_from_peer(&mut peer, &mux, 0x55, 4).await;
    let mut s6 = open_from_peer(&mut peer, &mux, 0x66, 4).await;
    let s7 = open_from_peer(&mut peer, &mux, 0x77, 4).await;
    peer.send_frame(Frame::new_bind(0x88, BindType::Stream, b"::", 1)).await;
    peer.send_frame(Frame::new_bind(0x99, BindType::Stream, b"::", 1)).await;
    let b1 = within("bind1", mux.next_bind_request()).await.unwrap();
    let b2 = within("bind2", mux.next_bind_request()).await.unwrap();
    peer.send_frame(Frame::new_push(0x33, b"hello")).await;
    peer.send_frame(Frame::new_push(0x33, b"world")).await;
    tokio::time::sleep(Duration::from_millis(20)).await;

    let _ = start_late;
    // everything below is queued before the drop; the peer reads nothing meanwhile
    s1.write_all(b"1").await.unwrap(); // uses the only credit
    s5.write_all(b"five-a").await.unwrap();
    s5.write_all(b"five-b").await.unwrap();
    s6.write_all(b"six").await.unwrap();
    s6.shutdown().await.unwrap();
    drop(s7);
    mux.send_datagram(Datagram {
        flow_id: 0xdd,
        target_host: Bytes::from_static(b"h"),
        target_port: 1,
        data: Bytes::from_static(b"dgram"),
    })
    .await
    .unwrap();
    b1.reply(true).unwrap();
    drop(b2);
    s5.write_all(b"five-c").await.unwrap();
    let blocked_writer = tokio::spawn(async move {
        let r = s1.write_all(b"y").await;
        (r, s1)
    });
    let blocked_reader = tokio::spawn(async move {
        let mut v = Vec::new();
        let r = s2.read_to_end(&mut v).await;
        (r, v, s2)
    });
    tokio::time::sleep(Duration::from_millis(20)).await;
    drop(mux);

    // The peer: reads slowly, sends more data for s2 meanwhile, and answers the Close
    let mut got = Vec::new();
    let mut sent_more = false;
    loop {
        if slow_ms > 0 {
            tokio::time::sleep(Duration::from_millis(slow_ms)).await;
        }
        match peer.recv_t(3000).await.expect("peer: nothing arrives") {
            Some(Ok(Message::Binary(b))) => {
                let op = b[0] & 0x0f;
                let id = u32::from_be_bytes([b[1], b[2], b[3], b[4]]);
                got.push((op, id, b.slice(5..)));
            }
            Some(Ok(Message::Close)) => break,
            Some(Ok(_)) => {}
            other => panic!("peer: {other:?}"),
        }
        if !sent_more {
            sent_more = true;
            peer.send_frame(Frame::new_push(0x22, b"late1")).await;
            peer.send_frame(Frame::new_push(0x22, b"late2")).await;
        }
    }
    if !sent_more {
        peer.send_frame(Frame::new_push(0x22, b"late1")).await;
        peer.send_frame(Frame::new_push(0x22, b"late2")).await;
    }
    eprintln!("peer got {got:?}");
    let expect: Vec<(u8, u32, &[u8])> = vec![
        (PUSH, 0x11, b"1"),
        (PUSH, 0x55, b"five-a"),
        (PUSH, 0x55, b"five-b"),
        (PUSH, 0x66, b"six"),
        (FINISH, 0x66, b""),
        (DGRAM, 0xdd, b"\x01\x00\x01hdgram"),
        (FINISH, 0x88, b""),
        (RESET, 0x99, b""),
        (PUSH, 0x55, b"five-c"),
    ];
    // the Reset of s7 is produced by the task: anywhere, but present
    let mut rest: Vec<_> = got.clone();
    let pos = rest.iter().position(|(op, id, _)| (*op, *id) == (RESET, 0x77));
    assert!(pos.is_some(), "Reset of the dropped stream missing");
    rest.remove(pos.unwrap());
    // acknowledges are not in the expected list
    rest.retain(|(op, _, _)| *op != ACK);
    let rest: Vec<(u8, u32, &[u8])> = rest.iter().map(|(o, i, b)| (*o, *i, &b[..])).collect();
    assert_eq!(rest, expect);
    // answer the close
    std::future::poll_fn(|cx| peer.0.poll_close_unpin(cx)).await.unwrap();
    within("task", task).await.unwrap().unwrap();
    let (r, _s1) = within("blocked writer", blocked_writer).await.unwrap();
    assert_eq!(r.unwrap_err().kind(), std::io::ErrorKind::BrokenPipe);
    let (r, v, _s2) = within("blocked reader", blocked_reader).await.unwrap();
    r.unwrap();
    assert_eq!(v, b"late1late2");
    let mut v = Vec::new();
    within("s3 read", s3.read_to_end(&mut v)).await.unwrap();
    assert_eq!(v, b"helloworld");
}

#[tokio::test(flavor = "multi_thread", worker_threads = 3)]
async fn local_drop_flushes() {
    for cap in [1usize, 2, 64] {
        for linger in [false, true] {
            for slow in [0u64, 5] {
                eprintln!("--- cap={cap} linger={linger} slow={slow}");
                scenario_local_drop(cap, linger, slow, false).await;
            }
        }
    }
}

// ---------------------------------------------------------------------------------------
// Two real endpoints, random workload, one event at a random moment: everything must resolve
// ---------------------------------------------------------------------------------------
use rand::RngExt;

#[derive(Clone, Copy, Debug, PartialEq, Eq)]
enum Ev2 {
    DropA,
    DropBoth,
    RxErrA,
    RxEofA,
    TxErrA,
    StallBoth,
    InvalidToA,
    CloseToA,
}

async fn fuzz_once(seed: u64) {
    let mut rng = SmallRng::seed_from_u64(seed);
    let evs = [
        Ev2::DropA,
        Ev2::DropBoth,
        Ev2::RxErrA,
        Ev2::RxEofA,
        Ev2::TxErrA,
        Ev2::StallBoth,
        Ev2::InvalidToA,
        Ev2::CloseToA,
    ];
    let ev = evs[rng.random_range(0..evs.len())];
    let cap_ab = [1usize, 2, 8, 64][rng.random_range(0..4)];
    let cap_ba = [1usize, 2, 8, 64][rng.random_range(0..4)];
    let linger = rng.random_bool(0.5);
    let (a, b) = link(cap_ab, cap_ba, linger);
    let (a_tx, a_rx) = (a.tx.clone(), a.rx.clone());
    let mk = |rng: &mut SmallRng| {
        let mut o = Options::new()
            .rwnd([1u32, 2, 4][rng.random_range(0..3)])
            .default_rwnd_threshold([1u32, 2, 8][rng.random_range(0..3)])
            .stream_buffer_size([1usize, 4][rng.random_range(0..2)])
            .bind_buffer_size([0usize, 1, 4][rng.random_range(0..3)])
            .datagram_buffer_size([1usize, 8][rng.random_range(0..2)]);
        if ev == Ev2::StallBoth || ev == Ev2::TxErrA || rng.random_bool(0.3) {
            o = o
                .keepalive_interval(Duration::from_millis(60).into())
                .keepalive_timeout(Duration::from_millis(120).into());
        }
        o
    };
    let (oa, ob) = (mk(&mut rng), mk(&mut rng));
    let (mux_a, ta) =
        Multiplexor::new_detailed::<_, std::time::Instant>(a, oa, SmallRng::seed_from_u64(seed ^ 1));
    let (mux_b, tb) =
        Multiplexor::new_detailed::<_, std::time::Instant>(b, ob, SmallRng::seed_from_u64(seed ^ 2));
    let ta = tokio::spawn(ta.into_task());
    let tb = tokio::spawn(tb.into_task());
    let mux_a = Arc::new(mux_a);
    let mux_b = Arc::new(mux_b);
    let mut tasks: Vec<(String, tokio::task::JoinHandle<()>)> = Vec::new();

    // B: accept loop; each stream: echo / sink / idle / bridge
    {
        let mb = mux_b.clone();
        let mode_seed = rng.random::<u64>();
        tasks.push((
            "B accept loop".into(),
            tokio::spawn(async move {
                let mut r = SmallRng::seed_from_u64(mode_seed);
                let mut subs = Vec::new();
                while let Ok(mut s) = mb.accept_stream_channel().await {
                    let mode = r.random_range(0..4);
                    subs.push(tokio::spawn(async move {
                        match mode {
                            0 => {
                                // echo
                                let mut buf = [0u8; 64];
                                loop {
                                    match s.read(&mut buf).await {
                                        Ok(0) | Err(_) => break,
                                        Ok(n) => {
                                            if s.write_all(&buf[..n]).await.is_err() {
                                                break;
                                            }
                                        }
                                    }
                                }
                                // later ops
                                assert!(s.write(b"z").await.is_err() || true);
                            }
                            1 => {
                                let mut v = Vec::new();
                                let _ = s.read_to_end(&mut v).await;
                            }
                            2 => {
                                // idle: never reads; writes until it fails
                                loop {
                                    if s.write_all(b"idle-writer").await.is_err() {
                                        break;
                                    }
                                    tokio::task::yield_now().await;
                                }
                            }
                            _ => {
                                let (l, mut other) = tokio::io::duplex(64);
                                let feeder = tokio::spawn(async move {
                                    let mut buf = [0u8; 32];
                                    loop {
                                        match other.read(&mut buf).await {
                                            Ok(0) | Err(_) => break,
                                            Ok(n) => {
                                                if other.write_all(&buf[..n]).await.is_err() {
                                                    break;
                                                }
                                            }
                                        }
                                    }
                                });
                                let _ = s.into_copy_bidirectional(l).await;
                                let _ = feeder.await;
                            }
                        }
                    }));
                }
                for s in subs {
                    s.await.unwrap();
                }
            }),
        ));
    }
    // B: bind responder, datagram echo
    {
        let mb = mux_b.clone();
        tasks.push((
            "B bind loop".into(),
            tokio::spawn(async move {
                let mut i = 0;
                let mut held = Vec::new();
                loop {
                    match mb.next_bind_request().await {
                        Ok(r) => {
                            i += 1;
                            match i % 3 {
                                0 => {
                                    let _ = r.reply(true);
                                }
                                1 => drop(r),
                                _ => held.push(r),
                            }
                        }
                        Err(_) => break,
                    }
                }
            }),
        ));
        let mb = mux_b.clone();
        tasks.push((
            "B dgram loop".into(),
            tokio::spawn(async move {
                while let Ok(d) = mb.get_datagram().await {
                    if mb.send_datagram(d).await.is_err() {
                        break;
                    }
                }
            }),
        ));
    }
    // A: openers
    let k = rng.random_range(1..5);
    let mut a_tasks: Vec<(String, tokio::task::JoinHandle<()>)> = Vec::new();
    for i in 0..k {
        let ma = mux_a.clone();
        let s = rng.random::<u64>();
        a_tasks.push((
            format!("A stream {i}"),
            tokio::spawn(async move {
                let mut r = SmallRng::seed_from_u64(s);
                let Ok(st) = ma.new_stream_channel(b"host", 1).await else {
                    return;
                };
                drop(ma);
                let (mut rd, mut wr) = tokio::io::split(st);
                let half_close = r.random_bool(0.3);
                let n_writes = r.random_range(0..40);
                let w = tokio::spawn(async move {
                    for _ in 0..n_writes {
                        if wr.write_all(b"0123456789").await.is_err() {
                            return;
                        }
                    }
                    if half_close {
                        let _ = wr.shutdown().await;
                    } else {
                        // keep writing until it fails
                        loop {
                            if wr.write_all(b"more").await.is_err() {
                                return;
                            }
                            tokio::time::sleep(Duration::from_millis(1)).await;
                        }
                    }
                });
                let mut v = Vec::new();
                let _ = rd.read_to_end(&mut v).await;
                if half_close {
                    let _ = w.await;
                } else {
                    w.await.unwrap();
                }
            }),
        ));
    }
    for i in 0..2 {
        let ma = mux_a.clone();
        a_tasks.push((
            format!("A dgram waiter {i}"),
            tokio::spawn(async move { while ma.get_datagram().await.is_ok() {} }),
        ));
    }
    {
        let ma = mux_a.clone();
        a_tasks.push((
            "A accept waiter".into(),
            tokio::spawn(async move { while ma.accept_stream_channel().await.is_ok() {} }),
        ));
        let ma = mux_a.clone();
        a_tasks.push((
            "A binder".into(),
            tokio::spawn(async move {
                loop {
                    match ma.request_bind(b"::", 1, BindType::Datagram).await {
                        Err(_) => break,
                        Ok(_) => tokio::time::sleep(Duration::from_millis(1)).await,
                    }
                }
            }),
        ));
        let ma = mux_a.clone();
        a_tasks.push((
            "A dgram sender".into(),
            tokio::spawn(async move {
                loop {
                    let d = Datagram {
                        flow_id: 5,
                        target_host: Bytes::from_static(b"h"),
                        target_port: 1,
                        data: Bytes::from_static(b"d"),
                    };
                    if ma.send_datagram(d).await.is_err() {
                        break;
                    }
                    tokio::time::sleep(Duration::from_millis(2)).await;
                }
            }),
        ));
    }
    let delay = rng.random_range(0..25);
    tokio::time::sleep(Duration::from_millis(delay)).await;
    let mut holders: Vec<Arc<Multiplexor>> = vec![];
    match ev {
        Ev2::DropA | Ev2::DropBoth => {
            // pending Multiplexor calls keep the Arc alive: abort them first
            for (n, t) in a_tasks.drain(..) {
                if !n.starts_with("A stream") {
                    t.abort();
                    let _ = t.await;
                } else {
                    tasks.push((n, t));
                }
            }
            // openers still waiting for their stream hold the Arc too; give them a moment
            tokio::time::sleep(Duration::from_millis(5)).await;
            if Arc::strong_count(&mux_a) != 1 {
                // cannot drop in this run
                holders.push(mux_a.clone());
            }
            drop(mux_a);
            if ev == Ev2::DropBoth {
                // B's loops hold the Arc: abort them
                let mut keep = Vec::new();
                for (n, t) in tasks.drain(..) {
                    if n.starts_with("B ") {
                        t.abort();
                        let _ = t.await;
                    } else {
                        keep.push((n, t));
                    }
                }
                tasks = keep;
                drop(mux_b);
            } else {
                holders.push(mux_b);
            }
        }
        _ => {
            match ev {
                Ev2::RxErrA => set_fault(&a_rx, Fault::RxErr),
                Ev2::RxEofA => set_fault(&a_rx, Fault::RxEof),
                Ev2::TxErrA => set_fault(&a_tx, Fault::TxErr),
                Ev2::StallBoth => {
                    set_fault(&a_rx, Fault::Stall);
                    set_fault(&a_tx, Fault::Stall);
                }
                Ev2::InvalidToA => {
                    let mut d = a_rx.lock().unwrap();
                    d.q.push_back(Message::Binary(Bytes::from_static(&[0x7f, 0, 0, 0, 1])));
                    d.wake_all();
                }
                Ev2::CloseToA => {
                    let mut d = a_rx.lock().unwrap();
                    d.q.push_back(Message::Close);
                    d.close_sent = true;
                    d.wake_all();
                }
                _ => unreachable!(),
            }
            holders.push(mux_a);
            holders.push(mux_b);
        }
    }
    if holders.iter().any(|_| false) {
        unreachable!();
    }
    let what = format!("seed {seed} {ev:?} cap {cap_ab}/{cap_ba} linger {linger}");
    match tokio::time::timeout(Duration::from_secs(5), ta).await {
        Ok(r) => {
            let _ = r.unwrap();
        }
        Err(_) => panic!("BLOCKED task A: {what}"),
    }
    match tokio::time::timeout(Duration::from_secs(5), tb).await {
        Ok(r) => {
            let _ = r.unwrap();
        }
        Err(_) => panic!("BLOCKED task B: {what}"),
    }
    for (n, t) in tasks.into_iter().chain(a_tasks) {
        match tokio::time::timeout(Duration::from_secs(5), t).await {
            Ok(r) => r.unwrap(),
            Err(_) => panic!("BLOCKED {n}: {what}"),
        }
    }
    drop(holders);
}

#[tokio::test(flavor = "multi_thread", worker_threads = 4)]
async fn fuzz_two_endpoints() {
    let n: u64 = std::env::var("N").ok().and_then(|s| s.parse().ok()).unwrap_or(300);
    let base: u64 = std::env::var("BASE").ok().and_then(|s| s.parse().ok()).unwrap_or(0);
    for seed in base..base + n {
        fuzz_once(seed).await;
    }
}

#[derive(Clone, Copy, Debug, PartialEq, Eq)]
enum Ev3 {
    Keepalive,
    TxErr,
    Drop,
}

async fn scenario_hol(ev: Ev3, bind: bool) {
    let (a, b) = link(8, 8, false);
    let (a_tx, a_rx) = (a.tx.clone(), a.rx.clone());
    let mut peer = Peer(b);
    let o = opts()
        .stream_buffer_size(1)
        .bind_buffer_size(1)
        .keepalive_interval(Duration::from_millis(100).into())
        .keepalive_timeout(Duration::from_millis(150).into());
    let (mux, task) =
        Multiplexor::new_detailed::<_, std::time::Instant>(a, o, SmallRng::seed_from_u64(1));
    let task = tokio::spawn(task.into_task());
    let mut s0 = open_from_peer(&mut peer, &mux, 0x10, 4).await;
    peer.send_frame(Frame::new_push(0x10, b"data0")).await;
    let mux = Arc::new(mux);
    let m = mux.clone();
    let open = tokio::spawn(async move { m.new_stream_channel(b"h", 1).await.map(|_| ()) });
    let (op, _, _) = peer.recv_frame().await;
    assert_eq!(op, CONNECT);
    let m = mux.clone();
    let dg = tokio::spawn(async move { m.get_datagram().await.map(|_| ()) });
    // fill the queue and block the receive loop
    for i in 0..3u32 {
        if bind {
            peer.send_frame(Frame::new_bind(0x100 + i, BindType::Stream, b"::", 1)).await;
        } else {
            peer.send_frame(Frame::new_connect(b"t", 1, 0x100 + i, 4)).await;
        }
    }
    // behind the blocked frame
    peer.send_frame(Frame::new_push(0x10, b"data1")).await;
    tokio::time::sleep(Duration::from_millis(30)).await;
    let mut dropped = false;
    match ev {
        Ev3::Keepalive => {
            set_fault(&a_rx, Fault::Stall);
            set_fault(&a_tx, Fault::Stall);
        }
        Ev3::TxErr => set_fault(&a_tx, Fault::TxErr),
        Ev3::Drop => {
            open.abort();
            dg.abort();
            while !(open.is_finished() && dg.is_finished()) {
                tokio::time::sleep(Duration::from_millis(1)).await;
            }
            dropped = true;
        }
    }
    let mux = if dropped {
        let m = Arc::try_unwrap(mux).ok().expect("sole owner");
        drop(m);
        None
    } else {
        Some(mux)
    };
    if dropped {
        // the peer answers the close
        loop {
            match peer.recv_t(3000).await.expect("peer: nothing") {
                Some(Ok(Message::Close)) => break,
                Some(Ok(_)) => {}
                o => panic!("{o:?}"),
            }
        }
        std::future::poll_fn(|cx| peer.0.poll_close_unpin(cx)).await.unwrap();
    }
    let r = within("task", task).await.unwrap();
    eprintln!("{ev:?} bind={bind}: {r:?}");
    let mut v = Vec::new();
    within("s0 read", s0.read_to_end(&mut v)).await.unwrap();
    eprintln!("s0 got {:?}", String::from_utf8_lossy(&v));
    assert!(v.starts_with(b"data0"));
    if !dropped {
        assert!(matches!(within("open", open).await.unwrap(), Err(Error::Closed)));
        assert!(matches!(within("dg", dg).await.unwrap(), Err(Error::Closed)));
        let mux = mux.unwrap();
        if !bind {
            let _ = within("accept1", mux.accept_stream_channel()).await.unwrap();
            assert!(within("accept2", mux.accept_stream_channel()).await.is_err());
        } else {
            let _ = within("nb1", mux.next_bind_request()).await.unwrap();
            assert!(within("nb2", mux.next_bind_request()).await.is_err());
        }
    }
}

#[tokio::test(flavor = "multi_thread", worker_threads = 3)]
async fn head_of_line_then_event() {
    for ev in [Ev3::Keepalive, Ev3::TxErr, Ev3::Drop] {
        for bind in [false, true] {
            scenario_hol(ev, bind).await;
        }
    }
}

// ---------------------------------------------------------------------------------------
// The same over the real tungstenite WebSocket and a byte pipe that can be cut
// ---------------------------------------------------------------------------------------
mod tung {
    use super::*;
    use std::pin::Pin;
    use tokio::io::{AsyncRead, AsyncWrite, DuplexStream, ReadBuf};
    use tokio_tungstenite::WebSocketStream;
    use tokio_tungstenite::tungstenite::protocol::Role;
    use tokio_tungstenite::tungstenite::Message as TMsg;
    use futures_util::{SinkExt, StreamExt};

    #[derive(Clone, Copy, Debug, PartialEq, Eq)]
    pub enum Mode {
        Ok,
        Err,
        Eof,
        Stall,
    }
    #[derive(Debug)]
    pub struct CutState {
        pub read: Mode,
        pub write: Mode,
        wakers: Vec<Waker>,
    }
    pub struct Cut {
        inner: DuplexStream,
        st: Arc<Mutex<CutState>>,
    }
    pub fn set(st: &Arc<Mutex<CutState>>, read: Mode, write: Mode) {
        let mut s = st.lock().unwrap();
        s.read = read;
        s.write = write;
        for w in s.wakers.drain(..) {
            w.wake();
        }
    }
    impl AsyncRead for Cut {
        fn poll_read(
            mut self: Pin<&mut Self>,
            cx: &mut Context<'_>,
            buf: &mut ReadBuf<'_>,
        ) -> Poll<std::io::Result<()>> {
            {
                let mut s = self.st.lock().unwrap();
                match s.read {
                    Mode::Ok => {}
                    Mode::Err => return Poll::Ready(Err(std::io::ErrorKind::ConnectionReset.into())),
                    Mode::Eof => return Poll::Ready(Ok(())),
                    Mode::Stall => {
                        s.wakers.push(cx.waker().clone());
                        return Poll::Pending;
                    }
                }
                s.wakers.push(cx.waker().clone());
            }
            Pin::new(&mut self.inner).poll_read(cx, buf)
        }
    }
    impl AsyncWrite for Cut {
        fn poll_write(
            mut self: Pin<&mut Self>,
            cx: &mut Context<'_>,
            buf: &[u8],
        ) -> Poll<std::io::Result<usize>> {
            {
                let mut s = self.st.lock().unwrap();
                match s.write {
                    Mode::Ok | Mode::Eof => {}
                    Mode::Err => return Poll::Ready(Err(std::io::ErrorKind::BrokenPipe.into())),
                    Mode::Stall => {
                        s.wakers.push(cx.waker().clone());
                        return Poll::Pending;
                    }
                }
                s.wakers.push(cx.waker().clone());
            }
            Pin::new(&mut self.inner).poll_write(cx, buf)
        }
        fn poll_flush(mut self: Pin<&mut Self>, cx: &mut Context<'_>) -> Poll<std::io::Result<()>> {
            Pin::new(&mut self.inner).poll_flush(cx)
        }
        fn poll_shutdown(
            mut self: Pin<&mut Self>,
            cx: &mut Context<'_>,
        ) -> Poll<std::io::Result<()>> {
            Pin::new(&mut self.inner).poll_shutdown(cx)
        }
    }

    pub struct TPeer(pub WebSocketStream<DuplexStream>);
    impl TPeer {
        pub async fn send_frame(&mut self, f: Frame<'_>) {
            self.0.send(TMsg::Binary(Bytes::from(f))).await.unwrap();
        }
        pub async fn recv_frame(&mut self) -> (u8, u32, Bytes) {
            loop {
                let m = tokio::time::timeout(Duration::from_secs(3), self.0.next())
                    .await
                    .expect("tpeer: timeout");
                match m {
                    Some(Ok(TMsg::Binary(b))) => {
                        let op = b[0] & 0x0f;
                        let id = u32::from_be_bytes([b[1], b[2], b[3], b[4]]);
                        return (op, id, b.slice(5..));
                    }
                    Some(Ok(TMsg::Ping(_))) | Some(Ok(TMsg::Pong(_))) => {}
                    other => panic!("tpeer: unexpected {other:?}"),
                }
            }
        }
    }

    pub async fn pair(
        buf: usize,
        a_client: bool,
    ) -> (WebSocketStream<Cut>, TPeer, Arc<Mutex<CutState>>) {
        let (x, y) = tokio::io::duplex(buf);
        let st = Arc::new(Mutex::new(CutState {
            read: Mode::Ok,
            write: Mode::Ok,
            wakers: vec![],
        }));
        let a = WebSocketStream::from_raw_socket(
            Cut {
                inner: x,
                st: st.clone(),
            },
            if a_client { Role::Client } else { Role::Server },
            None,
        )
        .await;
        let b = WebSocketStream::from_raw_socket(
            y,
            if a_client { Role::Server } else { Role::Client },
            None,
        )
        .await;
        (a, TPeer(b), st)
    }

    async fn open_from_peer(peer: &mut TPeer, mux: &Multiplexor, id: u32, rwnd: u32) -> MuxStream {
        peer.send_frame(Frame::new_connect(b"t", 1, id, rwnd)).await;
        let (op, i, _) = peer.recv_frame().await;
        assert_eq!((op, i), (ACK, id));
        within("accept", mux.accept_stream_channel()).await.unwrap()
    }

    async fn scenario_all_pending(ev: Event, a_client: bool, buf: usize) {
        let (a, mut peer, st) = pair(buf, a_client).await;
        let mut o = opts();
        if ev == Event::Keepalive || ev == Event::TxErr {
            o = o
                .keepalive_interval(Duration::from_millis(100).into())
                .keepalive_timeout(Duration::from_millis(150).into());
        }
        let (mux, task) =
            Multiplexor::new_detailed::<_, std::time::Instant>(a, o, SmallRng::seed_from_u64(1));
        let task = tokio::spawn(task.into_task());
        let mux = Arc::new(mux);

        let m = mux.clone();
        let open1 = tokio::spawn(async move { m.new_stream_channel(b"h", 1).await });
        let (op, id1, _) = peer.recv_frame().await;
        assert_eq!(op, CONNECT);
        peer.send_frame(Frame::new_acknowledge(id1, 1)).await;
        let mut s1 = within("open1", open1).await.unwrap().unwrap();
        s1.write_all(b"x").await.unwrap();
        let (op, _, _) = peer.recv_frame().await;
        assert_eq!(op, PUSH);
        let blocked_writer = tokio::spawn(async move {
            let r = s1.write_all(b"y").await;
            (r, s1)
        });
        let mut s2 = open_from_peer(&mut peer, &mux, 0x22, 4).await;
        let blocked_reader = tokio::spawn(async move {
            let mut v = Vec::new();
            let r = s2.read_to_end(&mut v).await;
            (r, v, s2)
        });
        let mut s3 = open_from_peer(&mut peer, &mux, 0x33, 4).await;
        peer.send_frame(Frame::new_push(0x33, b"hello")).await;
        peer.send_frame(Frame::new_push(0x33, b"world")).await;
        peer.send_frame(Frame::new_connect(b"t", 4, 0x44, 4)).await;
        let (op, id, _) = peer.recv_frame().await;
        assert_eq!((op, id), (ACK, 0x44));
        let m = mux.clone();
        let open2 = tokio::spawn(async move { m.new_stream_channel(b"h", 2).await.map(|_| ()) });
        let (op, _id2, _) = peer.recv_frame().await;
        assert_eq!(op, CONNECT);
        let m = mux.clone();
        let bind = tokio::spawn(async move { m.request_bind(b"::", 9, BindType::Stream).await });
        let (op, _idb, _) = peer.recv_frame().await;
        assert_eq!(op, BIND);
        let m = mux.clone();
        let dg1 = tokio::spawn(async move { m.get_datagram().await.map(|_| ()) });
        let m = mux.clone();
        let nb = tokio::spawn(async move { m.next_bind_request().await.map(|_| ()) });
        tokio::time::sleep(Duration::from_millis(30)).await;

        let mut peer = Some(peer);
        match ev {
            Event::PeerClose => {
                let mut p = peer.take().unwrap();
                p.0.send(TMsg::Close(None)).await.unwrap();
                // the peer goes on reading and never closes the byte stream by itself
                tokio::spawn(async move {
                    while let Some(Ok(_)) = p.0.next().await {}
                    tokio::time::sleep(Duration::from_secs(10)).await;
                    drop(p);
                });
            }
            Event::RxErr => set(&st, Mode::Err, Mode::Ok),
            Event::RxEof => set(&st, Mode::Eof, Mode::Ok),
            Event::TxErr => set(&st, Mode::Ok, Mode::Err),
            Event::Keepalive => set(&st, Mode::Stall, Mode::Stall),
            Event::Invalid => {
                peer.as_mut()
                    .unwrap()
                    .0
                    .send(TMsg::Binary(Bytes::from_static(&[0x7f, 0, 0, 0, 1])))
                    .await
                    .unwrap();
            }
        }
        if let Some(mut p) = peer.take() {
            tokio::spawn(async move {
                while let Some(Ok(_)) = p.0.next().await {}
                tokio::time::sleep(Duration::from_secs(10)).await;
                drop(p);
            });
        }
        let r = within("task", task).await.unwrap();
        eprintln!("tungstenite {ev:?} client={a_client}: task result {r:?}");
        let (r, _s1) = within("blocked writer", blocked_writer).await.unwrap();
        assert_eq!(r.unwrap_err().kind(), std::io::ErrorKind::BrokenPipe);
        let (r, v, _s2) = within("blocked reader", blocked_reader).await.unwrap();
        assert_eq!(r.unwrap(), 0);
        assert!(v.is_empty());
        let mut v = Vec::new();
        within("s3 read", s3.read_to_end(&mut v)).await.unwrap();
        assert_eq!(v, b"helloworld");
        assert!(matches!(within("open2", open2).await.unwrap(), Err(Error::Closed)));
        let b = within("bind", bind).await.unwrap();
        assert!(matches!(b, Err(Error::Closed) | Ok(false)), "{b:?}");
        assert!(matches!(within("dg1", dg1).await.unwrap(), Err(Error::Closed)));
        assert!(matches!(within("nb", nb).await.unwrap(), Err(Error::Closed)));
        let _s4 = within("accept s4", mux.accept_stream_channel()).await.unwrap();
        assert!(matches!(
            within("accept", mux.accept_stream_channel()).await,
            Err(Error::Closed)
        ));
    }

    #[tokio::test(flavor = "multi_thread", worker_threads = 3)]
    async fn tung_all_pending_every_event() {
        for ev in [
            Event::PeerClose,
            Event::RxErr,
            Event::RxEof,
            Event::TxErr,
            Event::Keepalive,
            Event::Invalid,
        ] {
            for a_client in [false, true] {
                for buf in [16usize, 4096] {
                    eprintln!("--- tungstenite {ev:?} client={a_client} buf={buf}");
                    scenario_all_pending(ev, a_client, buf).await;
                }
            }
        }
    }

    async fn scenario_local_drop(a_client: bool, buf: usize, slow_ms: u64, big: usize) {
        let (a, mut peer, _st) = pair(buf, a_client).await;
        let (mux, task) =
            Multiplexor::new_detailed::<_, std::time::Instant>(a, opts(), SmallRng::seed_from_u64(1));
        let task = tokio::spawn(task.into_task());
        let mut s1 = open_from_peer(&mut peer, &mux, 0x11, 1).await;
        let mut s2 = open_from_peer(&mut peer, &mux, 0x22, 4).await;
        let mut s5 = open_from_peer(&mut peer, &mux, 0x55, 4).await;
        let mut s6 = open_from_peer(&mut peer, &mux, 0x66, 4).await;
        let s7 = open_from_peer(&mut peer, &mux, 0x77, 4).await;
        tokio::time::sleep(Duration::from_millis(20)).await;
        let bigdata = vec![7u8; big];
        s1.write_all(b"1").await.unwrap();
        s5.write_all(&bigdata).await.unwrap();
        s5.write_all(b"five-b").await.unwrap();
        s6.write_all(b"six").await.unwrap();
        s6.shutdown().await.unwrap();
        drop(s7);
        mux.send_datagram(Datagram {
            flow_id: 0xdd,
            target_host: Bytes::from_static(b"h"),
            target_port: 1,
            data: Bytes::from_static(b"dgram"),
        })
        .await
        .unwrap();
        s5.write_all(b"five-c").await.unwrap();
        let blocked_writer = tokio::spawn(async move {
            let r = s1.write_all(b"y").await;
            (r, s1)
        });
        let blocked_reader = tokio::spawn(async move {
            let mut v = Vec::new();
            let r = s2.read_to_end(&mut v).await;
            (r, v, s2)
        });
        tokio::time::sleep(Duration::from_millis(20)).await;
        drop(mux);
        let mut got = Vec::new();
        let mut sent_more = false;
        loop {
            if slow_ms > 0 {
                tokio::time::sleep(Duration::from_millis(slow_ms)).await;
            }
            let t0 = std::time::Instant::now();
            let m = tokio::time::timeout(Duration::from_secs(60), peer.0.next())
                .await
                .expect("tpeer: nothing arrives");
            if t0.elapsed() > Duration::from_secs(2) {
                eprintln!("SLOW: one message took {:?}", t0.elapsed());
            }
            match m {
                Some(Ok(TMsg::Binary(b))) => {
                    let op = b[0] & 0x0f;
                    let id = u32::from_be_bytes([b[1], b[2], b[3], b[4]]);
                    got.push((op, id, b.slice(5..)));
                }
                Some(Ok(TMsg::Close(_))) => break,
                Some(Ok(_)) => {}
                other => panic!("tpeer: {other:?}"),
            }
            if !sent_more {
                sent_more = true;
                peer.send_frame(Frame::new_push(0x22, b"late1")).await;
                peer.send_frame(Frame::new_push(0x22, b"late2")).await;
            }
        }
        let mut rest: Vec<_> = got.clone();
        let pos = rest.iter().position(|(op, id, _)| (*op, *id) == (RESET, 0x77));
        assert!(pos.is_some(), "Reset of the dropped stream missing");
        rest.remove(pos.unwrap());
        rest.retain(|(op, _, _)| *op != ACK);
        let expect: Vec<(u8, u32, &[u8])> = vec![
            (PUSH, 0x11, b"1"),
            (PUSH, 0x55, &bigdata),
            (PUSH, 0x55, b"five-b"),
            (PUSH, 0x66, b"six"),
            (FINISH, 0x66, b""),
            (DGRAM, 0xdd, b"\x01\x00\x01hdgram"),
            (PUSH, 0x55, b"five-c"),
        ];
        let rest: Vec<(u8, u32, &[u8])> = rest.iter().map(|(o, i, b)| (*o, *i, &b[..])).collect();
        assert_eq!(rest.len(), expect.len());
        assert!(rest == expect);
        // tungstenite has queued the answer to the close; keep reading so that it goes out
        tokio::spawn(async move {
            while let Some(Ok(_)) = peer.0.next().await {}
            tokio::time::sleep(Duration::from_secs(10)).await;
            drop(peer);
        });
        within("task", task).await.unwrap().unwrap();
        let (r, _s1) = within("blocked writer", blocked_writer).await.unwrap();
        assert_eq!(r.unwrap_err().kind(), std::io::ErrorKind::BrokenPipe);
        let (r, v, _s2) = within("blocked reader", blocked_reader).await.unwrap();
        r.unwrap();
        assert_eq!(v, b"late1late2");
    }

    #[tokio::test(flavor = "multi_thread", worker_threads = 3)]
    async fn tung_local_drop_flushes() {
        for a_client in [false, true] {
            for buf in [16usize, 4096] {
                for slow in [0u64, 3] {
                    for big in [10usize, 300_000] {
                        eprintln!("--- tungstenite drop client={a_client} buf={buf} slow={slow} big={big}");
                        scenario_local_drop(a_client, buf, slow, big).await;
                    }
                }
            }
        }
    }
}
