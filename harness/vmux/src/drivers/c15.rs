//! C15 — bind requests resolve exactly once with the peer's decision.

use super::c05::push_viol;
use super::common::{Case, Plan, run_cases};
use crate::Args;
use crate::apps::{BindAnswer, EndPlan, Ev, Op, SideCfg, World, dgram, opts};
use crate::codec::RFrame;
use crate::explore::{Cost, RunOutput, choose};
use crate::link::UNBOUNDED_CAP;
use crate::report::Report;
use crate::sim::{Fnv, Step};
use crate::wiremon::WireMon;
use std::collections::BTreeMap;
use std::time::Duration;

const W_TRUE: u64 = 1;
const W_FALSE: u64 = 2;
const W_NEVER_PENDING: u64 = 4;
const W_OUT_OF_ORDER: u64 = 8;
const W_DISABLED: u64 = 16;
const W_FAULT: u64 = 32;
const W_QUEUE_FULL_WAIT: u64 = 64;
const W_CANCELLED: u64 = 128;
const W_COLLIDED: u64 = 256;
const W_SAME_ID_AGAIN: u64 = 512;
const W_LATE_REQUEST: u64 = 1024;

#[derive(Clone, Debug)]
struct Req {
    btype: u8,
    host: Vec<u8>,
    port: u16,
}

#[derive(Clone, Debug)]
struct Scn {
    reqs: Vec<Req>,
    answers: Vec<BindAnswer>,
    order: Vec<usize>,
    /// bind_buffer_size of the responder (0 = binds disabled)
    buf: usize,
    with_traffic: bool,
    /// also issue one request in the opposite direction
    both_sides: bool,
    faults: bool,
    /// the responder side opens a stream at the same moment, and its generator draws the very id the requester's
    /// generator drew for the first bind request (a Connect arrives for an id held by a pending bind request)
    collide: bool,
    /// the requests are issued one after the other by one task, and the requester's generator draws the SAME flow id
    /// for each (the id is free again once the previous request has resolved); the responder answers each at once
    sequential_same_id: bool,
    /// (with `sequential_same_id`, two requests) the responder answers the first request with `reply(false)` but KEEPS the
    /// request object; it lets go of it only when the second request (same flow id) has been shown to it, then accepts that one
    reject_hold: bool,
    /// the responder application has one task per expected request waiting in `next_bind_request` at the same time
    /// (each takes one request and answers it at once) instead of one task that collects them all
    many_responders: bool,
    /// script of the requester's flow-id generator for concurrent requests (empty = no collisions): ids that are taken
    /// by a pending request, and 0, are proposed and must be passed over
    draws: &'static [u32],
    /// with `faults`: one more request is issued this many steps after the connection end was injected (while the
    /// endpoint is still winding down); usize::MAX = only once everything has settled
    late_after: usize,
}

#[derive(Clone, Copy, Debug, PartialEq, Eq)]
enum Fault {
    CutBoth,
    DropRequesterMux,
    DropResponderMux,
    /// not a connection end: the requester abandons its first request (drops the future)
    CancelFirstRequest,
}
const FAULTS: [Fault; 4] = [Fault::CutBoth, Fault::DropRequesterMux, Fault::DropResponderMux, Fault::CancelFirstRequest];

fn req_pool() -> Vec<Req> {
    vec![
        Req { btype: 1, host: b"h".to_vec(), port: 0 },
        Req { btype: 3, host: vec![], port: 65535 },
        Req { btype: 1, host: (0..255u32).map(|i| 0x80 | (i as u8 & 0x3f)).collect(), port: 8080 },
    ]
}

fn exec(sc: &Scn, render: bool) -> RunOutput {
    // A = requester, B = responder
    let a = SideCfg { opts: opts(2, 1).bind_buffer_size(if sc.both_sides { 2 } else { 0 }), rng: if !sc.draws.is_empty() { sc.draws.to_vec() } else if sc.collide { vec![5] } else if sc.sequential_same_id { vec![5; 8] } else { vec![] } };
    let b = SideCfg { opts: opts(2, 1).bind_buffer_size(sc.buf), rng: if sc.collide { vec![5] } else { vec![] } };
    let mut w = World::two(UNBOUNDED_CAP, &a, &b);
    if sc.sequential_same_id {
        let mux = w.mux(0);
        let obs = w.obs.clone();
        let reqs = sc.reqs.clone();
        obs.borrow_mut().begin("bindseq.a");
        w.sim.spawn("bindseq.a", crate::apps::group_of(0), async move {
            for (i, r) in reqs.iter().enumerate() {
                let bt = crate::apps::btype_of(r.btype);
                let res = mux.request_bind(&r.host, r.port, bt).await;
                obs.borrow_mut().ev(Ev::BindResult { side: 0, n: i as u32, res: res.map_err(|e| format!("{e:?}")) });
            }
            obs.borrow_mut().end("bindseq.a");
        });
        if sc.reject_hold {
            let mux = w.mux(1);
            let obs = w.obs.clone();
            obs.borrow_mut().begin("bindresp.hold.b");
            w.sim.spawn("bindresp.hold.b", crate::apps::group_of(1), async move {
                let seen = |obs: &crate::apps::ObsRef, req: &penguin_mux::BindRequest<'static>| obs.borrow_mut().ev(Ev::BindSeen { side: 1, flow: req.flow_id(), btype: req.bind_type() as u8, host: req.host().to_vec(), port: req.port() });
                let Ok(first) = mux.next_bind_request().await else { return };
                seen(&obs, &first);
                let flow = first.flow_id();
                let _ = first.reply(false);
                obs.borrow_mut().ev(Ev::BindAnswered { side: 1, flow, how: "reject" });
                let Ok(second) = mux.next_bind_request().await else { return };
                seen(&obs, &second);
                // only now does the application let go of the request it answered long ago
                drop(first);
                let flow = second.flow_id();
                let _ = second.reply(true);
                obs.borrow_mut().ev(Ev::BindAnswered { side: 1, flow, how: "accept" });
                drop(second);
                obs.borrow_mut().end("bindresp.hold.b");
            });
        } else {
            // every request is answered as soon as it is seen
            w.spawn_bind_responder(1, 0, vec![], vec![sc.answers[0]]);
        }
    } else {
        for (i, r) in sc.reqs.iter().enumerate() {
            w.spawn_bind_requester(0, i as u32, r.btype, r.host.clone(), r.port);
        }
        if sc.many_responders {
            // (which task gets which request is up to the schedule; all answers are the same in these scenarios)
            for k in 0..sc.reqs.len() {
                w.spawn_bind_responder_named(1, &format!("{}", k + 1), 1, vec![0], vec![sc.answers[k]]);
            }
        } else {
            // the responder collects all requests first, then answers in the scripted order
            w.spawn_bind_responder(1, sc.reqs.len(), sc.order.clone(), sc.answers.clone());
        }
    }
    if sc.both_sides {
        w.spawn_bind_requester(1, 100, 3, b"back".to_vec(), 1);
        w.spawn_bind_responder(0, 1, vec![0], vec![BindAnswer::Accept]);
    }
    if sc.with_traffic {
        let mut plans = BTreeMap::new();
        plans.insert(1u8, EndPlan::Seq(vec![Op::ReadToEof(4), Op::W(2), Op::Shutdown]));
        w.spawn_acceptor(1, 1, plans);
        w.spawn_opener(0, 1, vec![1], 1, EndPlan::Seq(vec![Op::W(3), Op::Shutdown, Op::ReadToEof(4)]));
        w.spawn_dgram_receiver(1, "dgecho.b", usize::MAX, true);
        w.spawn_dgram_sender(0, "dgping.a", vec![dgram(5, b"d", 1, b"x")], 1, true);
    }
    if sc.collide {
        let mut plans = BTreeMap::new();
        plans.insert(7u8, EndPlan::Seq(vec![Op::ReadToEof(4), Op::W(2), Op::Shutdown]));
        w.spawn_acceptor(0, 1, plans);
        w.spawn_opener(1, 7, vec![7], 7, EndPlan::Seq(vec![Op::W(3), Op::Shutdown, Op::ReadToEof(4)]));
    }
    let mut mon = WireMon::new();
    let mut viol: Vec<(String, String)> = Vec::new();
    let mut fps = Vec::new();
    let mut wit = 0u64;
    let mut fault: Option<Fault> = None;
    let mut horizon = false;
    let fault_kinds = [Cost::Fault; 4];
    let mut fault_taken = false;
    let mut cancelled: Option<usize> = None;
    let mut late_issued = false;
    let mut since_fault: Option<usize> = None;
    loop {
        if w.sim.steps >= 5000 {
            horizon = true;
            break;
        }
        let en = w.sim.enabled();
        let mut kinds: Vec<Cost> = vec![Cost::Sched; en.len().max(1)];
        if sc.faults && !fault_taken {
            kinds.extend_from_slice(&fault_kinds);
        }
        if en.is_empty() && (fault_taken || !sc.faults) {
            // the connection has ended and everything has settled: a request issued NOW must resolve as well
            // (with false or Closed), it must not be left pending for ever
            if matches!(fault, Some(Fault::CutBoth | Fault::DropResponderMux)) && !late_issued && w.mux[0].is_some() {
                late_issued = true;
                w.spawn_bind_requester(0, 200, 1, b"late".to_vec(), 9);
                continue;
            }
            break;
        }
        if let Some(n) = since_fault.as_mut() {
            if *n == sc.late_after && !late_issued && w.mux[0].is_some() {
                // the application asks again while the endpoint is still taking the connection down
                late_issued = true;
                w.spawn_bind_requester(0, 200, 1, b"late".to_vec(), 9);
                continue;
            }
            *n += 1;
        }
        let c = choose(&kinds);
        let nsched = en.len().max(1);
        if c >= nsched {
            let f = FAULTS[c - nsched];
            match f {
                Fault::CutBoth => {
                    w.sim.link.cut(0);
                    w.sim.link.cut(1);
                    mon.on_cut(0);
                    mon.on_cut(1);
                }
                Fault::DropRequesterMux => w.drop_mux(0),
                Fault::DropResponderMux => w.drop_mux(1),
                Fault::CancelFirstRequest => {
                    if let Some(i) = w.sim.tasks.iter().position(|t| t.name == "bindreq0.a" && !t.done) {
                        w.sim.cancel_task(i);
                        w.obs.borrow_mut().end("bindreq0.a");
                        cancelled = Some(0);
                    }
                }
            }
            fault_taken = true;
            if f != Fault::CancelFirstRequest {
                fault = Some(f);
                if matches!(f, Fault::CutBoth | Fault::DropResponderMux) {
                    since_fault = Some(0);
                }
            }
            wit |= W_FAULT;
            w.sim.log.push(Step::Extra(c - nsched));
            continue;
        }
        if en.is_empty() {
            break;
        }
        let step = en[c].clone();
        let item = w.sim.apply(&step);
        {
            let l = w.sim.link.lock();
            mon.absorb(&l);
        }
        if let (Step::Deliver(d), Some(it)) = (&step, item.as_ref()) {
            mon.on_delivered(*d, it);
        }
        let obs = w.obs.borrow();
        // a request is never answered twice
        for i in 0..sc.reqs.len() as u32 {
            let n = obs.events.iter().filter(|e| matches!(e, Ev::BindResult { side: 0, n, .. } if *n == i)).count();
            if n > 1 {
                push_viol(&mut viol, "bind.resolved-twice", format!("request {i} resolved {n} times"));
            }
        }
        let mut h = Fnv::default();
        h.u64(obs.events.len() as u64);
        for side in 0..2 {
            if let Some(m) = w.mux[side].as_ref() {
                for f in m.verif_flow_digest() {
                    h.u64(u64::from(f.id));
                    h.byte(f.kind);
                }
            }
            h.byte(0xac);
        }
        {
            let l = w.sim.link.lock();
            for d in 0..2 {
                h.u64(l.dirs[d].inflight.len() as u64);
                h.u64(l.dirs[d].ready.len() as u64);
            }
        }
        h.byte(fault.map_or(0xff, |f| f as u8));
        for (i, t) in w.sim.tasks.iter().enumerate() {
            h.byte(u8::from(t.done) | u8::from(w.sim.is_runnable(i)) << 1);
        }
        fps.push(h.0);
    }
    // ---------------------------------------------------------------- verdict
    let obs = w.obs.borrow();
    if horizon {
        push_viol(&mut viol, "livelock", "step horizon reached".into());
    }
    // flow id of each request, from the wire (Bind frames sent by A carry host/port)
    let bind_frames: Vec<(u32, u8, u16, Vec<u8>)> = mon.frames.iter().filter(|(s, _)| *s == 0).filter_map(|(_, f)| if let RFrame::Bind { id, btype, port, host } = f { Some((*id, *btype, *port, host.clone())) } else { None }).collect();
    let seen: Vec<(u32, u8, Vec<u8>, u16)> = obs.events.iter().filter_map(|e| if let Ev::BindSeen { side: 1, flow, btype, host, port } = e { Some((*flow, *btype, host.clone(), *port)) } else { None }).collect();
    // the responder application is shown exactly what is on the wire
    for (flow, btype, host, port) in &seen {
        if !bind_frames.iter().any(|(id, t, p, h)| id == flow && t == btype && p == port && h == host) {
            push_viol(&mut viol, "bind.shown-wrong", format!("the responder application was shown (flow {flow:#x}, type {btype}, host {} B, port {port}) which matches no Bind frame on the wire {:?}", host.len(), bind_frames.iter().map(|(i, t, p, h)| (*i, *t, *p, h.len())).collect::<Vec<_>>()));
        }
    }
    let mut ids = Vec::new();
    for (i, r) in sc.reqs.iter().enumerate() {
        let fid = bind_frames.iter().find(|(_, t, p, h)| *t == r.btype && *p == r.port && *h == r.host).map(|x| x.0);
        ids.push(fid);
        let res = obs.events.iter().find_map(|e| if let Ev::BindResult { side: 0, n, res } = e { (*n == i as u32).then(|| res.clone()) } else { None });
        if cancelled == Some(i) && res.is_none() {
            // abandoned by the requester: no result is owed; the others must be unaffected
            wit |= W_CANCELLED;
            continue;
        }
        let Some(fid) = fid else {
            if fault.is_none() {
                push_viol(&mut viol, "bind.not-sent", format!("request {i} never appeared on the wire; result {res:?}"));
            }
            continue;
        };
        let shown = seen.iter().any(|(f, ..)| *f == fid);
        // (requests issued one after the other may use the same flow id: the k-th decision taken on an id belongs to the
        // k-th request that used it)
        let prior = ids[..i].iter().filter(|x| **x == Some(fid)).count();
        let how = obs.events.iter().filter_map(|e| if let Ev::BindAnswered { side: 1, flow, how } = e { (*flow == fid).then_some(*how) } else { None }).nth(prior);
        if sc.buf == 0 {
            wit |= W_DISABLED;
            if fault.is_none() && res != Some(Ok(false)) {
                push_viol(&mut viol, "bind.disabled-result", format!("peer does not accept binds; request {i} resolved {res:?} instead of Ok(false)"));
            }
            if shown {
                push_viol(&mut viol, "bind.disabled-shown", format!("binds are disabled on the responder but request {i} reached its application"));
            }
            continue;
        }
        match (&res, how, fault) {
            (Some(Ok(true)), Some("accept"), _) => wit |= W_TRUE,
            (Some(Ok(true)), other, _) => push_viol(&mut viol, "bind.true-without-accept", format!("request {i} (flow {fid:#x}) resolved true but the peer application's decision for that request was {other:?}")),
            (Some(Ok(false)), Some("reject" | "drop"), _) => wit |= W_FALSE,
            (Some(Ok(false)), Some("accept"), None) => push_viol(&mut viol, "bind.false-despite-accept", format!("request {i} (flow {fid:#x}) resolved false although the peer application accepted it and the connection is up")),
            (Some(Ok(false)), Some("never") | None, None) => push_viol(
                &mut viol,
                "bind.false-without-decision",
                format!("request {i} (flow {fid:#x}) resolved false although the peer application {} and the connection is up", if shown { "never answered it" } else { "was never shown it" }),
            ),
            (Some(Err(e)), _, None) => push_viol(&mut viol, "bind.error-while-up", format!("request {i} failed with {e} while the connection is up")),
            (Some(Err(e)), _, Some(_)) if e != "Closed" => push_viol(&mut viol, "bind.error-kind", format!("request {i} failed with {e} instead of Closed")),
            (None, Some("never"), None) => wit |= W_NEVER_PENDING,
            // the scripted responder collects all requests before answering; if the abandoned one never
            // reached it, it is still waiting for it and has taken no decision yet
            (None, None, None) if cancelled.is_some() && seen.len() < sc.reqs.len() => {}
            (None, how, None) => push_viol(&mut viol, "bind.unresolved", format!("request {i} (flow {fid:#x}) never resolved although the peer application's decision was {how:?} and the system is quiescent")),
            // the requesting futures themselves were cancelled together with their multiplexor
            (None, _, Some(Fault::DropRequesterMux)) => {}
            (None, _, Some(f)) => push_viol(&mut viol, "bind.hang-after-end", format!("request {i} never resolved after {f:?}")),
            _ => {}
        }
        // the application must be shown every request it is asked to decide (when binds are enabled and nothing failed)
        if fault.is_none() && !shown {
            push_viol(&mut viol, "bind.never-shown", format!("request {i} (flow {fid:#x}) was never shown to the peer application"));
        }
        // the flow id is free afterwards
        if res.is_some() && fault.is_none() {
            if let Some(m) = w.mux[0].as_ref() {
                if m.verif_flow_digest().iter().any(|f| f.id == fid) {
                    push_viol(&mut viol, "bind.slot-leaked", format!("request {i} resolved but the requester still holds a slot for flow {fid:#x}"));
                }
            }
        }
    }
    if sc.sequential_same_id && ids.len() >= 2 && ids.iter().all(|i| *i == Some(5)) {
        wit |= W_SAME_ID_AGAIN;
    }
    if late_issued {
        let r = obs.events.iter().find_map(|e| if let Ev::BindResult { side: 0, n: 200, res } = e { Some(res.clone()) } else { None });
        match r {
            Some(Ok(false)) => wit |= W_LATE_REQUEST,
            Some(Err(e)) if e == "Closed" => wit |= W_LATE_REQUEST,
            Some(other) => push_viol(&mut viol, "bind.late-request-result", format!("a bind request issued after the connection had ended ({fault:?}) resolved {other:?}; only false or Closed are possible")),
            None => push_viol(&mut viol, "bind.late-request-hangs", format!("a bind request issued after the connection had ended ({fault:?}) and everything had settled never resolved")),
        }
    }
    // answers out of arrival order were exercised?
    if sc.order.windows(2).any(|p| p[0] > p[1]) {
        wit |= W_OUT_OF_ORDER;
    }
    if sc.buf > 0 && sc.buf < sc.reqs.len() {
        wit |= W_QUEUE_FULL_WAIT;
    }
    if sc.both_sides && fault.is_none() {
        let r = obs.events.iter().find_map(|e| if let Ev::BindResult { side: 1, n: 100, res } = e { Some(res.clone()) } else { None });
        if r != Some(Ok(true)) {
            push_viol(&mut viol, "bind.reverse-direction", format!("the request issued by the other side (accepted by its peer) resolved {r:?}"));
        }
    }
    if sc.with_traffic && fault.is_none() {
        for dir in 0..2u8 {
            let d = obs.dirs.get(&(1, dir)).cloned().unwrap_or_default();
            if !(d.shutdown && d.eof && d.read == d.written) {
                push_viol(&mut viol, "traffic.disturbed", format!("the stream sharing the connection did not complete (dir {dir}: written {} read {} eof={})", d.written.len(), d.read.len(), d.eof));
            }
        }
        if obs.futures.get("dgping.a") != Some(&true) {
            push_viol(&mut viol, "traffic.disturbed", "the datagram exchange sharing the connection did not complete".into());
        }
    }
    if sc.collide && fault.is_none() {
        // the stream whose first proposal collided with the pending bind request still comes up (on a fresh id) and works
        let connects: Vec<u32> = mon.frames.iter().filter(|(s, _)| *s == 1).filter_map(|(_, f)| if let RFrame::Connect { id, .. } = f { Some(*id) } else { None }).collect();
        if connects.first() == Some(&5) && ids.first() == Some(&Some(5)) {
            wit |= W_COLLIDED;
        }
        for dir in 0..2u8 {
            let d = obs.dirs.get(&(7, dir)).cloned().unwrap_or_default();
            if !(d.shutdown && d.eof && d.read == d.written && !d.written.is_empty()) {
                push_viol(&mut viol, "collision.stream-broken", format!("the stream opened by the responder side while the bind request was pending did not complete (dir {dir}: written {} read {} eof={}; Connect ids {connects:x?})", d.written.len(), d.read.len(), d.eof));
            }
        }
    }
    if fault.is_none() {
        for side in 0..2 {
            if w.task_done(side) {
                push_viol(&mut viol, "task.ended", format!("connection task {side} ended: {:?}", w.task_result[side].borrow()));
            }
        }
    }
    for t in &w.sim.tasks {
        if let Some(p) = &t.panicked {
            push_viol(&mut viol, "panic", format!("{} panicked: {p}", t.name));
        }
    }
    let mut h = Fnv::default();
    for e in &obs.events {
        // flow ids are generator output, not behaviour
        match e {
            Ev::BindSeen { btype, host, port, .. } => h.str(&format!("seen {btype} {} {port}", host.len())),
            Ev::BindAnswered { how, .. } => h.str(how),
            other => h.str(&format!("{other:?}")),
        }
    }
    h.byte(fault.map_or(0xff, |f| f as u8));
    drop(obs);
    let out = RunOutput { blocked: false,
        steps: w.sim.steps,
        fingerprints: fps,
        outcome: h.0,
        violations: viol,
        witnesses: wit,
        horizon,
        rendering: render.then(|| w.sim.log.iter().map(|s| match s { Step::Extra(k) => format!("EVENT({:?})", FAULTS[*k]), o => w.sim.describe(o) }).collect::<Vec<_>>().join(" ")),
    };
    w.sim.teardown();
    out
}

fn perms(n: usize) -> Vec<Vec<usize>> {
    if n == 1 {
        return vec![vec![0]];
    }
    let mut out = Vec::new();
    for p in perms(n - 1) {
        for pos in 0..=p.len() {
            let mut q = p.clone();
            q.insert(pos, n - 1);
            out.push(q);
        }
    }
    out
}

pub fn run(args: &Args) -> Report {
    let mut rep = Report::new("C15", &args.tier, "psim", "model_checking");
    let thorough = args.thorough();
    let al = [BindAnswer::Accept, BindAnswer::Reject, BindAnswer::DropIt, BindAnswer::Never];
    let pool = req_pool();
    let mut cases = Vec::new();
    let mut add = |sc: Scn| {
        let label = format!(
            "{} request(s) answers={:?} order={:?} bind_buffer={} traffic={} both_sides={} faults={} id_collision_with_peer_open={} sequential_same_id={} reject_hold={}{}",
            sc.reqs.len(),
            sc.answers,
            sc.order,
            sc.buf,
            sc.with_traffic,
            sc.both_sides,
            sc.faults,
            sc.collide,
            sc.sequential_same_id,
            sc.reject_hold,
            if sc.many_responders { " one responder task per request, all waiting in next_bind_request at the same time".to_string() } else if sc.late_after != usize::MAX { format!(" one more request issued {} step(s) after the connection end was injected", sc.late_after) } else if sc.draws.is_empty() { String::new() } else { format!(" requester's flow-id draws {:?}", sc.draws) }
        );
        // the plain scenarios of one or two requests once more with a responder that waits inside a select-like loop: a
        // fresh next_bind_request future for every poll, dropped when it is not ready (documented as cancel safe)
        if sc.reqs.len() <= 2 && !sc.faults && !sc.collide && !sc.sequential_same_id && !sc.many_responders && sc.draws.is_empty() && sc.buf == 1 {
            let sc2 = sc.clone();
            cases.push(Case {
                try_unbounded: false,
                max_k: 1,
                label: format!("{label} | the responder re-creates its next_bind_request future at every poll"),
                exec: Box::new(move |r| {
                    let _restart = crate::apps::RestartWaits::set(true);
                    exec(&sc2, r)
                }),
            });
        }
        cases.push(Case { try_unbounded: false, max_k: u32::MAX, label, exec: Box::new(move |r| exec(&sc, r)) });
    };
    for n in 1..=3usize {
        let total = al.len().pow(n as u32);
        for code in 0..total {
            let answers: Vec<BindAnswer> = (0..n).map(|i| al[(code / al.len().pow(i as u32)) % al.len()]).collect();
            for order in perms(n) {
                if !thorough && n == 3 && !(order == [0, 1, 2] || order == [2, 1, 0] || order == [1, 2, 0]) {
                    continue;
                }
                for buf in [1usize, 4] {
                    if !thorough && n == 3 && buf == 4 && code % 3 != 0 {
                        continue;
                    }
                    add(Scn { reqs: pool[..n].to_vec(), answers: answers.clone(), order: order.clone(), buf, with_traffic: n == 2 && code % 5 == 0, both_sides: thorough && n == 2 && code % 7 == 0, faults: false, collide: false, sequential_same_id: false, reject_hold: false, many_responders: false, draws: &[], late_after: usize::MAX });
                }
            }
            if n <= 2 {
                add(Scn { reqs: pool[..n].to_vec(), answers: answers.clone(), order: (0..n).collect(), buf: 1, with_traffic: false, both_sides: false, faults: false, collide: true, sequential_same_id: false, reject_hold: false, many_responders: false, draws: &[], late_after: usize::MAX });
                add(Scn { reqs: pool[..n].to_vec(), answers: answers.clone(), order: (0..n).collect(), buf: 1, with_traffic: false, both_sides: false, faults: true, collide: false, sequential_same_id: false, reject_hold: false, many_responders: false, draws: &[], late_after: usize::MAX });
            }
        }
        // a request issued WHILE the endpoint takes the connection down (0..=10 steps after the end was injected, the end
        // itself at every point): it resolves like one issued afterwards
        if n == 1 {
            for late_after in 0..=10usize {
                add(Scn { reqs: pool[..n].to_vec(), answers: vec![BindAnswer::Accept], order: vec![0], buf: 1, with_traffic: false, both_sides: false, faults: true, collide: false, sequential_same_id: false, reject_hold: false, many_responders: false, draws: &[], late_after });
            }
        }
        // one task issues the requests one after the other and draws the same flow id every time
        if n >= 2 {
            for a in [BindAnswer::Accept, BindAnswer::Reject, BindAnswer::DropIt] {
                add(Scn { reqs: pool[..n].to_vec(), answers: vec![a; n], order: (0..n).collect(), buf: 1, with_traffic: false, both_sides: false, faults: false, collide: false, sequential_same_id: true, reject_hold: false, many_responders: false, draws: &[], late_after: usize::MAX });
            }
        }
        // ... and the responder answers the first one `false`, holds on to the request object, and drops it only when the
        // second request has reached it (which it accepts)
        if n == 2 {
            add(Scn { reqs: pool[..n].to_vec(), answers: vec![BindAnswer::Reject, BindAnswer::Accept], order: (0..n).collect(), buf: 1, with_traffic: false, both_sides: false, faults: false, collide: false, sequential_same_id: true, reject_hold: true, many_responders: false, draws: &[], late_after: usize::MAX });
        }
        // a pool of responder tasks, all waiting in next_bind_request at the same time (uniform answers)
        if n >= 2 {
            for a in [BindAnswer::Accept, BindAnswer::Reject] {
                for buf in [1usize, 4] {
                    add(Scn { reqs: pool[..n].to_vec(), answers: vec![a; n], order: (0..n).collect(), buf, with_traffic: false, both_sides: false, faults: false, collide: false, sequential_same_id: false, reject_hold: false, many_responders: true, draws: &[], late_after: usize::MAX });
                }
            }
        }
        // concurrent requests whose generator proposes 0 and ids held by requests that are still pending
        if n == 2 {
            for draws in [&[5u32, 5, 6][..], &[5, 0, 5, 6], &[0, 5, 0, 0, 5, 7]] {
                for answers in [[BindAnswer::Accept, BindAnswer::Reject], [BindAnswer::Reject, BindAnswer::Accept], [BindAnswer::Never, BindAnswer::Accept], [BindAnswer::Accept, BindAnswer::Accept]] {
                    for order in [vec![0usize, 1], vec![1, 0]] {
                        add(Scn { reqs: pool[..n].to_vec(), answers: answers.to_vec(), order, buf: 4, with_traffic: false, both_sides: false, faults: false, collide: false, sequential_same_id: false, reject_hold: false, many_responders: false, draws, late_after: usize::MAX });
                    }
                }
            }
        }
        // binds disabled on the responder
        add(Scn { reqs: pool[..n].to_vec(), answers: vec![BindAnswer::Accept; n], order: (0..n).collect(), buf: 0, with_traffic: n == 2, both_sides: false, faults: false, collide: false, sequential_same_id: false, reject_hold: false, many_responders: false, draws: &[], late_after: usize::MAX });
    }
    let plan = Plan {
        ks: if thorough { vec![0, 1, 2, 3, 4, 5] } else { vec![0, 1, 2] },
        env: 0,
        fault: 1,
        total_wall: Duration::from_secs(if thorough { 1500 } else { 100 }),
        max_execs_per_case: 500_000,
        required_witnesses: W_TRUE | W_FALSE | W_NEVER_PENDING | W_OUT_OF_ORDER | W_DISABLED | W_FAULT | W_QUEUE_FULL_WAIT | W_CANCELLED | W_COLLIDED | W_SAME_ID_AGAIN | W_LATE_REQUEST,
        adaptive: thorough,
        witness_names: &[("resolved_true", W_TRUE), ("resolved_false", W_FALSE), ("unanswered_stays_pending", W_NEVER_PENDING), ("answers_out_of_arrival_order", W_OUT_OF_ORDER), ("binds_disabled", W_DISABLED), ("connection_end_injected", W_FAULT), ("more_requests_than_bind_buffer", W_QUEUE_FULL_WAIT), ("request_abandoned_by_requester", W_CANCELLED), ("peer_open_collides_with_pending_bind_id", W_COLLIDED), ("sequential_requests_drew_the_same_id", W_SAME_ID_AGAIN), ("request_issued_after_the_connection_ended_resolved", W_LATE_REQUEST)],
    };
    rep.rule = "psim: requester issues 1..3 concurrent request_bind (types 1/3, hosts {1 B, empty, 255 B}, ports {0, 8080, 65535}); the responder application (bind_buffer_size 1 or 4, or binds disabled) collects the requests and answers them following EVERY answer vector over {accept, reject, drop the request, never answer} in (every / selected) permutation order; optional stream + datagram exchange alongside, optional request in the opposite direction, optional stream opened by the responder side whose generator draws the id of the pending first request (Connect on an id held by a bind request: must be rejected, the bind unaffected, the stream must come up on a fresh id), optional pool of responder tasks all waiting in next_bind_request at the same time (one per request, answering at once), optional sequential issue of the requests by one task whose generator draws the same flow id every time (each request must still get its own answer), optional connection end (cut both, drop either Multiplexor) or abandonment of the first request by its requester (future dropped) at every point; every schedule <= k deviations. Oracle: each request resolves at most once; true iff the peer application accepted that very flow id; false iff it rejected/dropped it or binds are disabled; unanswered requests stay pending while the connection is up; after a connection end only false/Closed, also for a request issued after the end once everything has settled; the peer application is shown exactly type/host/port/id of a Bind frame on the wire and every request; resolved requests leave no slot behind".into();
    rep.assumptions = vec!["flow ids are paired through the Bind frames seen on the wire (reference decoder)".into()];
    run_cases(args, &mut rep, cases, &plan);
    rep
}
