//! C13 hunt: demonstrations against `MuxStream::into_copy_bidirectional*`.
//!
//! Everything here goes through the public API only: a pair of `Multiplexor`s joined by an
//! in-memory `WebSocket` (or by `tokio-tungstenite` over a `tokio::io::duplex` where the
//! transport matters), the bridge under test on the client side, and the plain `MuxStream`
//! on the server side playing the peer.

use bytes::Bytes;
use penguin_mux::ws::{Message, WebSocket};
use penguin_mux::{Multiplexor, MuxStream};
use std::io;
use std::pin::Pin;
use std::sync::Arc;
use std::sync::atomic::{AtomicBool, AtomicUsize, Ordering};
use std::task::{Context, Poll};
use std::time::Duration;
use tokio::io::{AsyncBufRead, AsyncRead, AsyncReadExt, AsyncWrite, AsyncWriteExt, ReadBuf};
use tokio::sync::mpsc;
use tokio::time::timeout;

/// In-memory message pipe implementing the crate's `WebSocket` trait.
struct ChanWs(
    Option<mpsc::UnboundedSender<Message>>,
    mpsc::UnboundedReceiver<Message>,
);

impl WebSocket for ChanWs {
    fn poll_ready_unpin(&mut self, _cx: &mut Context<'_>) -> Poll<Result<(), penguin_mux::Error>> {
        Poll::Ready(if self.0.is_some() {
            Ok(())
        } else {
            Err(penguin_mux::Error::Closed)
        })
    }
    fn start_send_unpin(&mut self, item: Message) -> Result<(), penguin_mux::Error> {
        self.0
            .as_ref()
            .ok_or(penguin_mux::Error::Closed)?
            .send(item)
            .or(Err(penguin_mux::Error::Closed))
    }
    fn poll_flush_unpin(&mut self, _cx: &mut Context<'_>) -> Poll<Result<(), penguin_mux::Error>> {
        Poll::Ready(Ok(()))
    }
    fn poll_close_unpin(&mut self, _cx: &mut Context<'_>) -> Poll<Result<(), penguin_mux::Error>> {
        self.0.take();
        Poll::Ready(Ok(()))
    }
    fn poll_next_unpin(
        &mut self,
        cx: &mut Context<'_>,
    ) -> Poll<Option<Result<Message, penguin_mux::Error>>> {
        self.1.poll_recv(cx).map(|x| x.map(Ok))
    }
}

fn chan_pair() -> (ChanWs, ChanWs) {
    let (tx1, rx1) = mpsc::unbounded_channel();
    let (tx2, rx2) = mpsc::unbounded_channel();
    (ChanWs(Some(tx1), rx2), ChanWs(Some(tx2), rx1))
}

/// A connected pair of streams: (`client_mux`, `server_mux`, client end, server end)
async fn stream_pair() -> (Multiplexor, Multiplexor, MuxStream, MuxStream) {
    let (c, s) = chan_pair();
    let client_mux = Multiplexor::new(c);
    let server_mux = Multiplexor::new(s);
    let (cs, ss) = tokio::join!(
        client_mux.new_stream_channel(b"", 0),
        server_mux.accept_stream_channel()
    );
    (client_mux, server_mux, cs.unwrap(), ss.unwrap())
}

// ---------------------------------------------------------------------------------------------
// Finding 1: bytes relayed mux -> local are only flushed from the *other* direction's idle path.
// ---------------------------------------------------------------------------------------------

/// Schedule 1a. The local side half-closes first (request, then EOF) and then waits for the
/// answer; the peer answers and keeps its direction open. The local side is wrapped in a
/// `tokio::io::BufStream`, i.e. a writer for which `poll_flush` is not a no-op (the `penguin`
/// binary has one too: `stdio:` remotes bridge to `tokio::io::Stdout`).
#[tokio::test]
async fn f1a_answer_after_local_half_close_reaches_buffered_local_side() {
    let (_cm, _sm, client_stream, mut peer) = stream_pair().await;
    let (local_near, mut local_far) = tokio::io::duplex(65536);
    let bridge = tokio::spawn(
        client_stream.into_copy_bidirectional_with_buf(tokio::io::BufStream::new(local_near)),
    );

    // local -> peer: request, then EOF
    local_far.write_all(b"request").await.unwrap();
    local_far.shutdown().await.unwrap();
    let mut req = Vec::new();
    timeout(Duration::from_secs(5), peer.read_to_end(&mut req))
        .await
        .expect("peer never saw the half-close")
        .unwrap();
    assert_eq!(req, b"request");

    // peer -> local: the answer. The peer does NOT finish its direction.
    peer.write_all(b"response").await.unwrap();
    let mut got = [0u8; 8];
    let r = timeout(Duration::from_secs(2), local_far.read_exact(&mut got)).await;

    // Diagnostics: the bytes are not lost, they sit in the local side's write buffer and only
    // come out once the peer finishes (the bridge then calls `poll_shutdown`, which flushes).
    if r.is_err() {
        peer.shutdown().await.unwrap();
        let late = timeout(Duration::from_secs(2), local_far.read_exact(&mut got)).await;
        eprintln!(
            "after the peer sent Finish: {late:?} {:?}; bridge: {:?}",
            String::from_utf8_lossy(&got),
            timeout(Duration::from_secs(2), bridge).await
        );
    }
    assert!(
        r.is_ok(),
        "the peer's 8 bytes were accepted by the bridge but never flushed to the local side \
         while the peer's direction stayed open"
    );
    assert_eq!(&got, b"response");
}

struct Flag(AtomicBool);
impl std::task::Wake for Flag {
    fn wake(self: Arc<Self>) {
        self.0.store(true, Ordering::SeqCst);
    }
}
/// Poll `fut` the way an executor would: once per wake-up of the waker it was given.
fn poll_while_woken<F>(fut: &mut Pin<&mut F>, flag: &Arc<Flag>, polls: &mut usize)
where
    F: Future,
    F::Output: std::fmt::Debug,
{
    let waker = std::task::Waker::from(flag.clone());
    while flag.0.swap(false, Ordering::SeqCst) {
        *polls += 1;
        let r = fut.as_mut().poll(&mut Context::from_waker(&waker));
        assert!(r.is_pending(), "bridge finished: {r:?}");
    }
}

/// Schedule 1b. Nobody half-closes. Between two polls of the bridge, a `Push` from the peer
/// arrives AND the local side becomes readable. In that single poll the bridge writes the peer's
/// bytes to the local side, forwards the local bytes, sees the local side `Pending`, and goes to
/// sleep without flushing.
///
/// The bridge is driven like a task of its own: it is polled when, and only when, the waker it
/// was given has been woken.
#[tokio::test]
async fn f1b_peer_data_arriving_together_with_local_data_is_flushed() {
    let (_cm, _sm, client_stream, mut peer) = stream_pair().await;
    let (local_near, mut local_far) = tokio::io::duplex(65536);
    let mut bridge = std::pin::pin!(
        client_stream.into_copy_bidirectional_with_buf(tokio::io::BufStream::new(local_near))
    );
    let flag = Arc::new(Flag(AtomicBool::new(true)));
    let mut polls = 0;
    // First poll: nothing to do on either side
    poll_while_woken(&mut bridge, &flag, &mut polls);
    assert_eq!(polls, 1);

    // Both things happen before the bridge's "task" gets to run again
    peer.write_all(b"response").await.unwrap();
    tokio::time::sleep(Duration::from_millis(100)).await; // let the mux tasks deliver it
    local_far.write_all(b"more").await.unwrap();

    // Run the "task" whenever it is woken, for two seconds, while waiting for the bytes
    let mut got = [0u8; 8];
    let r = timeout(Duration::from_secs(2), async {
        tokio::select! {
            () = async { loop {
                poll_while_woken(&mut bridge, &flag, &mut polls);
                tokio::time::sleep(Duration::from_millis(5)).await;
            }} => unreachable!(),
            r = local_far.read_exact(&mut got) => r.unwrap(),
        }
    })
    .await;
    eprintln!("bridge was polled {polls} times in total and is asleep");
    // The other direction did work
    let mut fwd = [0u8; 4];
    timeout(Duration::from_secs(2), peer.read_exact(&mut fwd))
        .await
        .unwrap()
        .unwrap();
    assert_eq!(&fwd, b"more");
    assert!(
        r.is_ok(),
        "the peer's 8 bytes were written to the local side in the same poll in which local data \
         was forwarded, and were never flushed"
    );
    assert_eq!(&got, b"response");
}

// ---------------------------------------------------------------------------------------------
// Finding 2: a local side whose `poll_write` returns `Ok(0)` makes the bridge spin forever
// inside a single `poll`.
// ---------------------------------------------------------------------------------------------

/// Local side: never readable; `poll_write` reports "cannot accept bytes any more" (`Ok(0)`).
/// To keep the demo finite it gives up with an error after `LIMIT` consecutive calls.
struct FullSink {
    calls: Arc<AtomicUsize>,
}
const LIMIT: usize = 100_000;

impl AsyncRead for FullSink {
    fn poll_read(
        self: Pin<&mut Self>,
        _cx: &mut Context<'_>,
        _buf: &mut ReadBuf<'_>,
    ) -> Poll<io::Result<()>> {
        Poll::Pending
    }
}
impl AsyncBufRead for FullSink {
    fn poll_fill_buf(self: Pin<&mut Self>, _cx: &mut Context<'_>) -> Poll<io::Result<&[u8]>> {
        Poll::Pending
    }
    fn consume(self: Pin<&mut Self>, _amt: usize) {}
}
impl AsyncWrite for FullSink {
    fn poll_write(
        self: Pin<&mut Self>,
        _cx: &mut Context<'_>,
        _buf: &[u8],
    ) -> Poll<io::Result<usize>> {
        if self.calls.fetch_add(1, Ordering::Relaxed) >= LIMIT {
            return Poll::Ready(Err(io::Error::other("demo gave up: bridge is spinning")));
        }
        Poll::Ready(Ok(0))
    }
    fn poll_flush(self: Pin<&mut Self>, _cx: &mut Context<'_>) -> Poll<io::Result<()>> {
        Poll::Ready(Ok(()))
    }
    fn poll_shutdown(self: Pin<&mut Self>, _cx: &mut Context<'_>) -> Poll<io::Result<()>> {
        Poll::Ready(Ok(()))
    }
}

#[tokio::test]
async fn f2_write_zero_on_local_side_terminates_the_bridge() {
    let (_cm, _sm, client_stream, mut peer) = stream_pair().await;
    let calls = Arc::new(AtomicUsize::new(0));
    let bridge = tokio::spawn(client_stream.into_copy_bidirectional_with_buf(FullSink {
        calls: calls.clone(),
    }));
    peer.write_all(b"x").await.unwrap();
    let res = timeout(Duration::from_secs(10), bridge)
        .await
        .expect("bridge did not complete")
        .unwrap();
    let n = calls.load(Ordering::Relaxed);
    eprintln!("bridge result: {res:?}; poll_write was called {n} times");
    assert!(res.is_err(), "a 1-byte relay into a full sink cannot succeed");
    assert!(
        n < 16,
        "the bridge called poll_write {n} times for one byte: it re-offers the same buffer in a \
         tight loop inside one poll() for as long as the writer answers Ok(0)"
    );
}

// ---------------------------------------------------------------------------------------------
// Finding 3: the local -> mux coalescing loop has no bound.
// ---------------------------------------------------------------------------------------------

/// 17 MiB that are readable without ever hitting `Pending` are relayed over the transport the
/// crate ships with (`tokio-tungstenite`, default configuration, exactly as `penguin` sets it
/// up). A second, unrelated stream on the same connection must not be harmed either.
#[tokio::test]
async fn f3_large_always_ready_local_side_is_relayed() {
    use tokio_tungstenite::{WebSocketStream, tungstenite::protocol::Role};
    const LEN: usize = 17 * 1024 * 1024;
    // `RUST_LOG=penguin_mux=warn` shows why the connection goes down
    tracing_subscriber::fmt()
        .with_env_filter(tracing_subscriber::EnvFilter::from_default_env())
        .try_init()
        .ok();
    let (c, s) = tokio::io::duplex(1 << 20);
    let c = WebSocketStream::from_raw_socket(c, Role::Client, None).await;
    let s = WebSocketStream::from_raw_socket(s, Role::Server, None).await;
    let client_mux = Multiplexor::new(c);
    let server_mux = Multiplexor::new(s);
    let (cs, ss) = tokio::join!(
        client_mux.new_stream_channel(b"", 0),
        server_mux.accept_stream_channel()
    );
    let (client_stream, mut peer) = (cs.unwrap(), ss.unwrap());
    // The unrelated stream
    let (cs2, ss2) = tokio::join!(
        client_mux.new_stream_channel(b"", 0),
        server_mux.accept_stream_channel()
    );
    let (mut other_c, mut other_s) = (cs2.unwrap(), ss2.unwrap());

    let data: Vec<u8> = (0..LEN).map(|i| (i % 251) as u8).collect();
    // Local side: an in-memory blob to send (every read is immediately ready, then EOF); whatever
    // the peer sends back is discarded.
    let local = tokio::io::join(io::Cursor::new(data.clone()), tokio::io::sink());
    let bridge = tokio::spawn(client_stream.into_copy_bidirectional(local));

    let mut got = Vec::with_capacity(LEN);
    let r = timeout(Duration::from_secs(60), peer.read_to_end(&mut got)).await;
    eprintln!("peer read_to_end: {:?}, {} bytes", r, got.len());
    // Is the connection still usable for the unrelated stream?
    let other = timeout(Duration::from_secs(5), async {
        other_c.write_all(b"ping").await?;
        let mut b = [0u8; 4];
        other_s.read_exact(&mut b).await?;
        io::Result::Ok(b)
    })
    .await;
    eprintln!("unrelated stream: {other:?}");
    peer.shutdown().await.ok();
    eprintln!(
        "bridge: {:?}",
        timeout(Duration::from_secs(5), bridge).await
    );
    assert_eq!(
        got.len(),
        LEN,
        "the peer received {} of {LEN} bytes the local side produced",
        got.len()
    );
    assert!(got == data);
    assert_eq!(&other.unwrap().unwrap(), b"ping");
}

// ---------------------------------------------------------------------------------------------
// Finding 4: a zero-length `Push` from the peer is taken for end-of-stream.
// ---------------------------------------------------------------------------------------------

/// The peer is hand-driven here: it speaks the wire protocol directly. PROTOCOL.md allows any
/// `data` in a `Push`, including none (and penguin-mux itself sent such frames for zero-length
/// writes until recently).
#[tokio::test]
async fn f4_zero_length_push_is_not_end_of_stream() {
    use penguin_mux::frame::Frame;
    let (c, mut raw_peer) = chan_pair();
    let client_mux = Multiplexor::new(c);
    let opener = tokio::spawn(async move {
        let s = client_mux.new_stream_channel(b"", 0).await;
        (client_mux, s)
    });
    // Answer the `Connect`
    let Some(Message::Binary(con)) = raw_peer.1.recv().await else {
        panic!()
    };
    assert_eq!(con[0] & 0x0F, 0, "expected Connect");
    let id = u32::from_be_bytes(con[1..5].try_into().unwrap());
    let send = |f: Frame<'_>| {
        raw_peer
            .0
            .as_ref()
            .unwrap()
            .send(Message::Binary(Bytes::from(f)))
            .unwrap();
    };
    send(Frame::new_acknowledge(id, 16));
    let (_client_mux, client_stream) = opener.await.unwrap();
    let client_stream = client_stream.unwrap();

    let (local_near, mut local_far) = tokio::io::duplex(65536);
    let bridge = tokio::spawn(client_stream.into_copy_bidirectional(local_near));

    send(Frame::new_push(id, b""));
    send(Frame::new_push(id, b"hello"));
    send(Frame::new_finish(id));

    let mut got = Vec::new();
    let r = timeout(Duration::from_secs(5), local_far.read_to_end(&mut got)).await;
    eprintln!("local side read_to_end: {r:?}, got {:?}", String::from_utf8_lossy(&got));
    local_far.shutdown().await.ok();
    let b = timeout(Duration::from_secs(5), bridge).await;
    eprintln!("bridge: {b:?}");
    assert_eq!(
        got, b"hello",
        "the local side must receive exactly the bytes the peer wrote before its Finish"
    );
    assert!(matches!(b, Ok(Ok(Ok((5, 0))))), "bridge outcome: {b:?}");
}
