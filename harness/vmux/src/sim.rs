//! Hand-rolled single-threaded executor whose every step is chosen by the
//! explorer.  One `poll` of a task is one atomic step.

use crate::explore::{Cost, choose};
use crate::link::{Item, Link};
use std::cell::RefCell;
use std::future::Future;
use std::panic::{AssertUnwindSafe, catch_unwind};
use std::pin::Pin;
use std::rc::Rc;
use std::sync::Arc;
use std::sync::Mutex;
use std::sync::atomic::{AtomicBool, Ordering};
use std::task::{Context, Poll, Wake, Waker};

pub struct WakeFlag {
    woken: AtomicBool,
    /// woken too when a flag is set: lets an outer runtime notice (timer mode)
    outer: Mutex<Option<Waker>>,
}

impl Wake for WakeFlag {
    fn wake(self: Arc<Self>) {
        self.wake_by_ref();
    }
    fn wake_by_ref(self: &Arc<Self>) {
        self.woken.store(true, Ordering::SeqCst);
        let w = self.outer.lock().unwrap().take();
        if let Some(w) = w {
            w.wake();
        }
    }
}

pub type LocalFut = Pin<Box<dyn Future<Output = ()>>>;

pub struct TaskSlot {
    pub name: String,
    fut: Option<LocalFut>,
    flag: Arc<WakeFlag>,
    pub done: bool,
    pub panicked: Option<String>,
    pub polls: u32,
    /// group used to cancel all tasks that hold a given multiplexor
    pub group: u8,
    /// endpoint the task belongs to (0 = A, 1 = B, 2 = unknown/both), from its name
    pub side: u8,
}

/// 11-bit code of a task name (step identity for the partial-order mode)
fn name_code(n: &str) -> u16 {
    let mut h = Fnv::default();
    h.str(n);
    (h.0 % 0x07f0) as u16
}

fn side_of_name(n: &str) -> u8 {
    if n.ends_with('A') || n.ends_with(".a") || n.contains(".a.") {
        0
    } else if n.ends_with('B') || n.ends_with(".b") || n.contains(".b.") {
        1
    } else {
        2
    }
}

/// Tasks spawned from inside running tasks are queued here.
#[derive(Clone, Default)]
pub struct Spawner(Rc<RefCell<Vec<(String, u8, LocalFut)>>>);

impl Spawner {
    pub fn spawn(&self, name: impl Into<String>, group: u8, fut: impl Future<Output = ()> + 'static) {
        self.0.borrow_mut().push((name.into(), group, Box::pin(fut)));
    }
}

#[derive(Clone, Debug, PartialEq, Eq)]
pub enum Step {
    Poll(usize),
    Deliver(usize),
    /// driver-defined extra step (raw peer frame, fault, ...)
    Extra(usize),
}

/// A second transport whose deliveries are explorer steps as well (the byte pipes under the real tungstenite
/// WebSocket, `bytepipe.rs`). When one is installed the endpoints do not use `link` (it stays empty) and
/// `Step::Deliver(d)` means "deliver on direction d of that transport".
pub trait ByteXport {
    fn can_deliver(&self, dir: usize) -> bool;
    fn deliver(&self, dir: usize);
}

pub struct Sim {
    pub tasks: Vec<TaskSlot>,
    pub link: Link,
    pub xport: Option<Rc<dyn ByteXport>>,
    pub spawner: Spawner,
    pub steps: u64,
    pub log: Vec<Step>,
    /// side whose incoming deliveries are consumed directly by a raw peer (not a WebSocket reader)
    pub raw_side: Option<usize>,
}

pub const GROUP_NONE: u8 = 0;

thread_local! {
    static LAST_PANIC: RefCell<Option<String>> = const { RefCell::new(None) };
}

/// Install a quiet panic hook once per process: panics inside subject code are
/// observations, not crashes; their message is kept for the oracle.
pub fn install_quiet_panic_hook() {
    static ONCE: std::sync::Once = std::sync::Once::new();
    ONCE.call_once(|| {
        let default = std::panic::take_hook();
        std::panic::set_hook(Box::new(move |info| {
            if info.payload().downcast_ref::<crate::explore::Divergence>().is_some()
                || std::env::var_os("VERIF_LOUD_PANICS").is_some()
            {
                default(info);
                return;
            }
            let msg = if let Some(s) = info.payload().downcast_ref::<&str>() {
                (*s).to_string()
            } else if let Some(s) = info.payload().downcast_ref::<String>() {
                s.clone()
            } else {
                "<non-string panic>".to_string()
            };
            let loc = info
                .location()
                .map(|l| format!("{}:{}", l.file(), l.line()))
                .unwrap_or_default();
            LAST_PANIC.with(|p| *p.borrow_mut() = Some(format!("{msg} @ {loc}")));
        }));
    });
}

pub fn take_last_panic() -> Option<String> {
    LAST_PANIC.with(|p| p.borrow_mut().take())
}

impl Sim {
    pub fn new(link: Link) -> Self {
        install_quiet_panic_hook();
        Self {
            tasks: Vec::new(),
            link,
            xport: None,
            spawner: Spawner::default(),
            steps: 0,
            log: Vec::new(),
            raw_side: None,
        }
    }

    pub fn spawn(&mut self, name: impl Into<String>, group: u8, fut: impl Future<Output = ()> + 'static) -> usize {
        let name: String = name.into();
        let side = side_of_name(&name);
        self.tasks.push(TaskSlot {
            side,
            name,
            fut: Some(Box::pin(fut)),
            flag: Arc::new(WakeFlag {
                woken: AtomicBool::new(true),
                outer: Mutex::new(None),
            }),
            done: false,
            panicked: None,
            polls: 0,
            group,
        });
        self.tasks.len() - 1
    }

    fn check_codes(&self) {
        let mut seen = std::collections::HashMap::new();
        for t in &self.tasks {
            if let Some(o) = seen.insert(name_code(&t.name), t.name.clone()) {
                if o != t.name {
                    panic!("task name codes collide: {o} / {}", t.name);
                }
            }
        }
    }

    fn absorb_spawned(&mut self) {
        let new: Vec<_> = self.spawner.0.borrow_mut().drain(..).collect();
        for (name, group, fut) in new {
            self.tasks.push(TaskSlot {
                side: side_of_name(&name),
                name,
                fut: Some(fut),
                flag: Arc::new(WakeFlag {
                    woken: AtomicBool::new(true),
                    outer: Mutex::new(None),
                }),
                done: false,
                panicked: None,
                polls: 0,
                group,
            });
        }
        if !self.tasks.is_empty() && self.tasks.len() < 64 {
            self.check_codes();
        }
    }

    /// Scheduling steps enabled now, in canonical order.
    pub fn enabled(&self) -> Vec<Step> {
        let mut v = Vec::new();
        for (i, t) in self.tasks.iter().enumerate() {
            if !t.done && t.flag.woken.load(Ordering::SeqCst) {
                v.push(Step::Poll(i));
            }
        }
        for d in 0..2 {
            if self.link.can_deliver(d) || self.xport.as_ref().is_some_and(|x| x.can_deliver(d)) {
                v.push(Step::Deliver(d));
            }
        }
        v
    }

    /// Identity of a scheduler step for the partial-order mode: a delivery towards an endpoint belongs
    /// to that endpoint (it pops the head of a queue the sender only appends to).
    pub fn step_ident(&self, s: &Step) -> u16 {
        match s {
            // the identity must not depend on the order in which tasks happened to be spawned
            Step::Poll(i) => crate::explore::step_id(self.tasks[*i].side, name_code(&self.tasks[*i].name)),
            Step::Deliver(d) => crate::explore::step_id(1 - *d as u8, 0x0ff0 + *d as u16),
            Step::Extra(k) => crate::explore::step_id(2, 0x0fe0 + *k as u16),
        }
    }

    /// Let the explorer pick one of the enabled steps (`None`: every one of them is asleep).
    pub fn choose_enabled(&self, en: &[Step]) -> Option<usize> {
        let ids: Vec<u16> = en.iter().map(|s| self.step_ident(s)).collect();
        crate::explore::choose_step(&ids)
    }

    pub fn is_runnable(&self, i: usize) -> bool {
        let t = &self.tasks[i];
        !t.done && t.flag.woken.load(Ordering::SeqCst)
    }

    pub fn task_named(&self, name: &str) -> Option<&TaskSlot> {
        self.tasks.iter().find(|t| t.name == name)
    }

    /// Poll task `i` once.
    pub fn poll_task(&mut self, i: usize) {
        let t = &mut self.tasks[i];
        t.flag.woken.store(false, Ordering::SeqCst);
        t.polls += 1;
        let waker = Waker::from(t.flag.clone());
        let mut cx = Context::from_waker(&waker);
        let Some(fut) = t.fut.as_mut() else { return };
        let r = catch_unwind(AssertUnwindSafe(|| fut.as_mut().poll(&mut cx)));
        match r {
            Ok(Poll::Ready(())) => {
                t.done = true;
                // drop the future (and what it owns) in a controlled place
                let f = t.fut.take();
                let _ = catch_unwind(AssertUnwindSafe(move || drop(f)));
            }
            Ok(Poll::Pending) => {}
            Err(e) => {
                if e.downcast_ref::<crate::explore::Divergence>().is_some() {
                    std::panic::resume_unwind(e);
                }
                t.done = true;
                t.panicked = Some(take_last_panic().unwrap_or_else(|| "panic".into()));
                let f = t.fut.take();
                let _ = catch_unwind(AssertUnwindSafe(move || drop(f)));
            }
        }
        self.absorb_spawned();
    }

    /// Cancel (drop the future of) every unfinished task in `group`.
    pub fn cancel_group(&mut self, group: u8) {
        for t in &mut self.tasks {
            if t.group == group && !t.done {
                t.done = true;
                let f = t.fut.take();
                let _ = catch_unwind(AssertUnwindSafe(move || drop(f)));
            }
        }
        self.absorb_spawned();
    }

    pub fn cancel_task(&mut self, i: usize) {
        let t = &mut self.tasks[i];
        if !t.done {
            t.done = true;
            let f = t.fut.take();
            let _ = catch_unwind(AssertUnwindSafe(move || drop(f)));
        }
        self.absorb_spawned();
    }

    pub fn apply(&mut self, s: &Step) -> Option<Item> {
        self.steps += 1;
        self.log.push(s.clone());
        match s {
            Step::Poll(i) => {
                self.poll_task(*i);
                None
            }
            Step::Deliver(d) => match &self.xport {
                Some(x) => {
                    x.deliver(*d);
                    None
                }
                None => self.link.deliver(*d),
            },
            Step::Extra(_) => None,
        }
    }

    /// Choose and apply one scheduling step among the enabled ones plus
    /// `extra` driver-defined alternatives (with their cost kinds).  Returns
    /// `None` at quiescence (nothing enabled and no extra alternative taken).
    pub fn step_with(&mut self, extra: &[Cost]) -> Option<Step> {
        let en = self.enabled();
        if en.is_empty() && extra.is_empty() {
            return None;
        }
        let mut kinds: Vec<Cost> = Vec::with_capacity(en.len() + extra.len() + 1);
        kinds.extend(std::iter::repeat_n(Cost::Sched, en.len()));
        if en.is_empty() {
            // default alternative: stay quiescent (stop)
            kinds.push(Cost::Sched);
        }
        kinds.extend_from_slice(extra);
        let c = choose(&kinds);
        let base = if en.is_empty() { 1 } else { en.len() };
        let step = if c < en.len() {
            en[c].clone()
        } else if en.is_empty() && c == 0 {
            return None;
        } else {
            Step::Extra(c - base)
        };
        self.apply(&step);
        Some(step)
    }

    /// Run until nothing is enabled or the horizon is hit; returns true on horizon.
    pub fn run(&mut self, horizon: u64, mut after: impl FnMut(&mut Sim, &Step)) -> bool {
        loop {
            if self.steps >= horizon {
                return true;
            }
            match self.step_with(&[]) {
                None => return false,
                Some(s) => after(self, &s),
            }
        }
    }

    /// Run deterministically (canonical order, no choice points) to quiescence.
    pub fn run_canonical(&mut self, horizon: u64, mut after: impl FnMut(&mut Sim, &Step)) -> bool {
        loop {
            if self.steps >= horizon {
                return true;
            }
            let en = self.enabled();
            let Some(s) = en.first().cloned() else {
                return false;
            };
            self.apply(&s);
            after(self, &s);
        }
    }

    pub fn describe(&self, s: &Step) -> String {
        match s {
            Step::Poll(i) => format!("poll({})", self.tasks[*i].name),
            Step::Deliver(0) => "deliver(a2b)".into(),
            Step::Deliver(_) => "deliver(b2a)".into(),
            Step::Extra(k) => format!("extra({k})"),
        }
    }

    pub fn render_log(&self) -> Vec<String> {
        self.log.iter().map(|s| self.describe(s)).collect()
    }

    /// Set the waker that is notified whenever any task gets woken (timer mode).
    pub fn set_outer_waker(&self, w: &Waker) {
        for t in &self.tasks {
            if !t.done {
                *t.flag.outer.lock().unwrap() = Some(w.clone());
            }
        }
    }

    pub fn all_done(&self) -> bool {
        self.tasks.iter().all(|t| t.done)
    }

    /// Drop every remaining future (end of an execution).
    pub fn teardown(&mut self) {
        for t in &mut self.tasks {
            let f = t.fut.take();
            let _ = catch_unwind(AssertUnwindSafe(move || drop(f)));
        }
        self.spawner.0.borrow_mut().clear();
    }
}

/// A tiny hasher for fingerprints (FNV-1a, 64 bit).
#[derive(Clone, Copy)]
pub struct Fnv(pub u64);
impl Default for Fnv {
    fn default() -> Self {
        Self(0xcbf2_9ce4_8422_2325)
    }
}
impl Fnv {
    pub fn byte(&mut self, b: u8) {
        self.0 ^= u64::from(b);
        self.0 = self.0.wrapping_mul(0x0000_0100_0000_01b3);
    }
    pub fn bytes(&mut self, bs: &[u8]) {
        for &b in bs {
            self.byte(b);
        }
        self.byte(0xfe);
    }
    pub fn u64(&mut self, v: u64) {
        self.bytes(&v.to_le_bytes());
    }
    pub fn str(&mut self, s: &str) {
        self.bytes(s.as_bytes());
    }
}
