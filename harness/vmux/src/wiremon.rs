//! Black-box accounting of everything that crosses the in-memory WebSocket,
//! decoded with the reference codec.  One automaton per flow id.

use crate::codec::{self, RFrame};
use crate::link::{Item, LinkState};
use penguin_mux::ws::Message;
use std::collections::BTreeMap;

#[derive(Clone, Debug, Default, PartialEq, Eq, Hash)]
pub struct FlowAcct {
    /// side that sent the `Connect` (latest incarnation)
    pub opener: Option<usize>,
    /// `Acknowledge` of the handshake seen
    pub established: bool,
    /// window advertised BY side x (Connect.rwnd for the opener, handshake Acknowledge for the acceptor)
    pub window: [Option<u32>; 2],
    /// Push frames put on the wire by side x
    pub pushes_sent: [u64; 2],
    /// Push frames of side x that have been delivered to the peer's socket
    pub pushes_delivered: [u64; 2],
    /// credit returned by side x through post-handshake Acknowledge frames (on the wire)
    pub acks_sent: [u64; 2],
    /// credit of side x's Acknowledge frames that has been delivered to the peer's socket
    pub acks_delivered: [u64; 2],
    pub finish_sent: [bool; 2],
    pub reset_sent: [u32; 2],
    pub connects: u32,
    pub host: Vec<u8>,
    pub port: u16,
    /// a Bind request is outstanding on this id (sent by side)
    pub bind_by: Option<usize>,
    /// number of completed incarnations (for id re-use)
    pub generation: u32,
    /// both sides sent Connect with this id at the same time
    pub crossed: bool,
    pub crossed_window: [Option<u32>; 2],
    /// the handshake Acknowledge sent by side x has not been delivered yet
    pub hs_ack_in_flight: [bool; 2],
    /// credit of side x's Acknowledge frames that the peer's task has taken from its socket
    pub acks_consumed: [u64; 2],
    /// Push frames of side x that the peer's task has taken from its socket
    pub pushes_consumed: [u64; 2],
}

#[derive(Clone, Debug, PartialEq, Eq, Hash)]
pub struct WireViolation {
    pub key: String,
    pub desc: String,
}

#[derive(Default)]
pub struct WireMon {
    pub flows: BTreeMap<u32, FlowAcct>,
    seen: usize,
    /// per direction: messages that entered the link and have not been delivered yet (mirrors the FIFO)
    pending: [std::collections::VecDeque<Option<RFrame>>; 2],
    /// per direction: delivered to the receiver's socket, not yet taken by its task
    readyq: [std::collections::VecDeque<Option<(RFrame, bool)>>; 2],
    consumed_seen: [u64; 2],
    /// frames in the order the receiving tasks took them out of their sockets: (direction, frame)
    pub consumed_log: Vec<(usize, RFrame)>,
    pub frames: Vec<(usize, RFrame)>,
    pub closes: [u32; 2],
    pub pings: [u32; 2],
    pub pongs: [u32; 2],
    pub undecodable: u32,
    pub violations: Vec<WireViolation>,
    /// configured rwnd per side, if the driver wants the handshake values checked
    pub expect_rwnd: [Option<u32>; 2],
    /// check the credit rule (both sides conforming)
    pub check_credit: [bool; 2],
}

impl WireMon {
    pub fn new() -> Self {
        Self { check_credit: [true, true], ..Self::default() }
    }

    fn viol(&mut self, key: &str, desc: String) {
        if !self.violations.iter().any(|v| v.key == key) {
            self.violations.push(WireViolation { key: key.into(), desc });
        }
    }

    /// Absorb the wire events recorded since the last call.
    pub fn absorb(&mut self, l: &LinkState) {
        while self.seen < l.wire.len() {
            let ev = l.wire[self.seen].clone();
            self.seen += 1;
            match &ev.msg {
                Message::Binary(b) => match codec::decode(b) {
                    Ok(f) => {
                        self.on_sent(ev.dir, &f);
                        self.frames.push((ev.dir, f.clone()));
                        self.pending[ev.dir].push_back(Some(f));
                    }
                    Err(_) => {
                        self.undecodable += 1;
                        self.pending[ev.dir].push_back(None);
                    }
                },
                Message::Close => {
                    self.closes[ev.dir] += 1;
                    self.pending[ev.dir].push_back(None);
                }
                Message::Ping => {
                    self.pings[ev.dir] += 1;
                    self.pending[ev.dir].push_back(None);
                }
                Message::Pong => {
                    self.pongs[ev.dir] += 1;
                    self.pending[ev.dir].push_back(None);
                }
            }
        }
    }

    /// A `deliver(dir)` step moved `item` to the receiver: account for it.
    pub fn on_delivered(&mut self, dir: usize, item: &Item) {
        if matches!(item, Item::Eof) {
            return;
        }
        let Some(f) = self.pending[dir].pop_front() else { return };
        let Some(f) = f else {
            self.readyq[dir].push_back(None);
            return;
        };
        let fl = self.flows.entry(f.id()).or_default();
        let mut hs = false;
        match &f {
            RFrame::Push { .. } => fl.pushes_delivered[dir] += 1,
            RFrame::Acknowledge { n, .. } => {
                // the handshake acknowledge is not credit
                if fl.hs_ack_pending_delivery(dir) {
                    fl.mark_hs_delivered(dir);
                    hs = true;
                } else {
                    fl.acks_delivered[dir] += u64::from(*n);
                }
            }
            _ => {}
        }
        self.readyq[dir].push_back(Some((f, hs)));
    }

    /// Account for what the receiving tasks have taken out of their sockets.
    pub fn absorb_consumed(&mut self, l: &LinkState) {
        for dir in 0..2 {
            while self.consumed_seen[dir] < l.dirs[dir].consumed {
                self.consumed_seen[dir] += 1;
                if let Some(Some((f, hs))) = self.readyq[dir].pop_front() {
                    self.consumed_log.push((dir, f.clone()));
                    let fl = self.flows.entry(f.id()).or_default();
                    match f {
                        RFrame::Push { .. } => fl.pushes_consumed[dir] += 1,
                        RFrame::Acknowledge { n, .. } if !hs => fl.acks_consumed[dir] += u64::from(n),
                        _ => {}
                    }
                }
            }
        }
    }

    /// A cut discarded everything in flight in `dir`.
    pub fn on_cut(&mut self, dir: usize) {
        self.pending[dir].clear();
    }

    fn on_sent(&mut self, side: usize, f: &RFrame) {
        let peer = 1 - side;
        let id = f.id();
        match f {
            RFrame::Connect { rwnd, host, port, .. } => {
                if id == 0 && self.check_credit[side] {
                    self.viol("connect.id0", format!("side {side} proposed flow id 0"));
                }
                let expect = self.expect_rwnd[side];
                let fl = self.flows.entry(id).or_default();
                if fl.opener.is_some() && (fl.established || fl.opener == Some(side)) && !fl.closed() && self.check_credit[side] {
                    let d = format!("side {side} sent Connect on flow {id:#x} which it already uses");
                    self.viol("connect.live-id", d);
                    return;
                }
                let fl = self.flows.entry(id).or_default();
                if fl.opener.is_some() && !fl.closed() && fl.opener != Some(side) {
                    // simultaneous open with the same id: both Connects are in flight; the
                    // acceptor side of each will reject. Keep a separate "crossed" marker.
                    fl.crossed = true;
                    fl.crossed_window[side] = Some(*rwnd);
                    return;
                }
                let generation = fl.generation + u32::from(fl.opener.is_some());
                *fl = FlowAcct { generation, ..FlowAcct::default() };
                fl.opener = Some(side);
                fl.window[side] = Some(*rwnd);
                fl.connects += 1;
                fl.host = host.clone();
                fl.port = *port;
                if let Some(e) = expect {
                    if e != *rwnd {
                        self.viol("handshake.connect-rwnd", format!("Connect on flow {id:#x} advertises rwnd {rwnd}, configured {e}"));
                    }
                }
            }
            RFrame::Acknowledge { n, .. } => {
                let expect = self.expect_rwnd[side];
                let check = self.check_credit[side];
                let fl = self.flows.entry(id).or_default();
                if fl.opener == Some(peer) && !fl.established && !fl.closed() {
                    // handshake acknowledge
                    fl.established = true;
                    fl.window[side] = Some(*n);
                    fl.hs_ack_in_flight[side] = true;
                    if let Some(e) = expect {
                        if e != *n {
                            self.viol("handshake.ack-rwnd", format!("handshake Acknowledge on flow {id:#x} advertises {n}, configured {e}"));
                        }
                    }
                } else if fl.established {
                    fl.acks_sent[side] += u64::from(*n);
                    // never acknowledge more than what reached this side's socket
                    if check && fl.acks_sent[side] > fl.pushes_delivered[peer] {
                        let d = format!(
                            "side {side} acknowledged {} frames on flow {id:#x} but only {} Push frames ever reached it",
                            fl.acks_sent[side], fl.pushes_delivered[peer]
                        );
                        self.viol("ack.unreceived", d);
                    }
                }
            }
            RFrame::Push { .. } => {
                let check = self.check_credit[side];
                let fl = self.flows.entry(id).or_default();
                fl.pushes_sent[side] += 1;
                if check {
                    if !fl.established && fl.opener.is_none() {
                        let d = format!("side {side} sent Push on flow {id:#x} that was never opened");
                        self.viol("push.unknown-flow", d);
                    } else if let Some(w) = fl.window[peer] {
                        let allowed = u64::from(w) + fl.acks_delivered[peer];
                        if fl.pushes_sent[side] > allowed {
                            let d = format!(
                                "side {side} put Push #{} on flow {id:#x}: window advertised by the peer is {w}, credit returned to it so far {} -> only {allowed} allowed",
                                fl.pushes_sent[side], fl.acks_delivered[peer]
                            );
                            self.viol("credit.overrun", d);
                        }
                    }
                }
            }
            RFrame::Finish { .. } => {
                let fl = self.flows.entry(id).or_default();
                fl.finish_sent[side] = true;
            }
            RFrame::Reset { .. } => {
                let fl = self.flows.entry(id).or_default();
                fl.reset_sent[side] += 1;
            }
            RFrame::Bind { .. } => {
                let fl = self.flows.entry(id).or_default();
                fl.bind_by = Some(side);
            }
            RFrame::Datagram { .. } => {}
        }
    }

    pub fn count(&self, side: usize, op: u8) -> usize {
        self.frames.iter().filter(|(s, f)| *s == side && f.op() == op).count()
    }
    pub fn count_on(&self, side: usize, op: u8, id: u32) -> usize {
        self.frames.iter().filter(|(s, f)| *s == side && f.op() == op && f.id() == id).count()
    }
}

impl FlowAcct {
    pub fn closed(&self) -> bool {
        self.reset_sent[0] + self.reset_sent[1] > 0 || (self.finish_sent[0] && self.finish_sent[1])
    }
    fn hs_ack_pending_delivery(&self, dir: usize) -> bool {
        self.hs_ack_in_flight[dir]
    }
    fn mark_hs_delivered(&mut self, dir: usize) {
        self.hs_ack_in_flight[dir] = false;
    }
}
