//! C17: "replacing the server identity at run time changes what later
//! handshakes see".
//!
//! `run_listener` takes its snapshot of the hot-swappable `TlsIdentity` when
//! the TCP connection is ACCEPTED, not when the TLS handshake starts.  A peer
//! that opens the TCP connection, waits for the operator to replace the
//! identity (new server certificate, new client CA -- i.e. the old client CA
//! is revoked), and only then sends its ClientHello performs a handshake that
//! starts strictly AFTER the replacement and is nevertheless served with the
//! OLD certificate and authenticated against the OLD client CA.
//!
//! The window is the server's `--timeout` (default 60 s; unbounded with
//! `--timeout 0`).

use rcgen::{
    BasicConstraints, CertificateParams, CertifiedIssuer, DnType, ExtendedKeyUsagePurpose, IsCa,
    KeyPair, KeyUsagePurpose,
};
use rusty_penguin_lib::server::{State, run_listener};
use rusty_penguin_lib::tls::{
    init_crypto_provider, make_tls_identity, reload_tls_identity, tls_connect,
};
use std::path::Path;
use std::time::Duration;
use tokio::io::{AsyncReadExt, AsyncWriteExt};
use tokio::net::{TcpListener, TcpStream};

fn make_ca(cn: &str) -> CertifiedIssuer<'static, KeyPair> {
    let mut params = CertificateParams::new(Vec::<String>::new()).unwrap();
    params.distinguished_name.push(DnType::CommonName, cn);
    params.is_ca = IsCa::Ca(BasicConstraints::Unconstrained);
    params.key_usages = vec![KeyUsagePurpose::KeyCertSign, KeyUsagePurpose::CrlSign];
    CertifiedIssuer::self_signed(params, KeyPair::generate().unwrap()).unwrap()
}

/// Returns (certificate PEM, key PEM, certificate DER)
fn leaf(
    ca: &CertifiedIssuer<'static, KeyPair>,
    cn: &str,
    sans: &[&str],
    client: bool,
) -> (String, String, Vec<u8>) {
    let mut params =
        CertificateParams::new(sans.iter().map(|s| (*s).to_string()).collect::<Vec<_>>()).unwrap();
    params.distinguished_name.push(DnType::CommonName, cn);
    params.extended_key_usages = vec![if client {
        ExtendedKeyUsagePurpose::ClientAuth
    } else {
        ExtendedKeyUsagePurpose::ServerAuth
    }];
    let key = KeyPair::generate().unwrap();
    let cert = params.signed_by(&key, ca).unwrap();
    (cert.pem(), key.serialize_pem(), cert.der().to_vec())
}

fn write(dir: &Path, name: &str, content: &str) -> String {
    let p = dir.join(name);
    std::fs::write(&p, content).unwrap();
    p.to_str().unwrap().to_string()
}

/// TLS handshake on an already-open TCP connection, then `GET /health`.
/// `Some(server certificate DER)` if the server answered, `None` if the
/// handshake (either direction of authentication) failed.
async fn handshake_and_get(
    tcp: TcpStream,
    client_cert: &(String, String),
    ca: &str,
) -> Option<Vec<u8>> {
    let fut = async {
        let mut s = tls_connect(
            tcp,
            "server.test",
            Some(&client_cert.0),
            Some(&client_cert.1),
            Some(ca),
            false,
        )
        .await
        .ok()?;
        let peer = s.get_ref().1.peer_certificates()?[0].to_vec();
        s.write_all(b"GET /health HTTP/1.1\r\nHost: server.test\r\n\r\n")
            .await
            .ok()?;
        s.flush().await.ok()?;
        // In TLS 1.3 the server's verdict on the client certificate arrives
        // only now.
        let mut buf = [0u8; 12];
        s.read_exact(&mut buf).await.ok()?;
        (&buf == b"HTTP/1.1 200").then_some(peer)
    };
    tokio::time::timeout(Duration::from_secs(10), fut)
        .await
        .expect("no answer at all")
}

#[tokio::test]
async fn handshake_started_after_reload_sees_the_new_identity() {
    init_crypto_provider();
    let tmp = tempfile::tempdir().unwrap();
    let d = tmp.path();

    // One CA for server certificates (the client trusts it throughout), and
    // two client CAs: `old` is configured first and then replaced by `new`.
    let server_ca = make_ca("server CA");
    let old_client_ca = make_ca("OLD client CA (to be revoked)");
    let new_client_ca = make_ca("NEW client CA");
    let server_ca_pem = write(d, "server_ca.pem", &server_ca.pem());

    let (c, k, old_server_cert) = leaf(&server_ca, "old server cert", &["server.test"], false);
    let cert_path = write(d, "cert.pem", &c);
    let key_path = write(d, "key.pem", &k);
    let client_ca_path = write(d, "client_ca.pem", &old_client_ca.pem());

    let (c, k, _) = leaf(&old_client_ca, "client under OLD CA", &[], true);
    let old_client = (write(d, "old_cli.crt", &c), write(d, "old_cli.key", &k));
    let (c, k, _) = leaf(&new_client_ca, "client under NEW CA", &[], true);
    let new_client = (write(d, "new_cli.crt", &c), write(d, "new_cli.key", &k));

    // The server, exactly as `server_main` starts it.
    let identity = make_tls_identity(&cert_path, &key_path, Some(&client_ca_path))
        .await
        .unwrap();
    let listener = TcpListener::bind("127.0.0.1:0").await.unwrap();
    let addr = listener.local_addr().unwrap();
    let server = tokio::spawn(run_listener(
        listener,
        Some(identity.clone()),
        State::new().await.unwrap(),
    ));

    // Sanity before the reload.
    let tcp = TcpStream::connect(addr).await.unwrap();
    assert_eq!(
        handshake_and_get(tcp, &old_client, &server_ca_pem).await,
        Some(old_server_cert.clone()),
        "before the reload the old client CA is accepted and the old certificate is shown"
    );
    let tcp = TcpStream::connect(addr).await.unwrap();
    assert_eq!(
        handshake_and_get(tcp, &new_client, &server_ca_pem).await,
        None,
        "before the reload the new client CA is unknown"
    );

    // Two peers open their TCP connections now and stay silent.
    let idle_old = TcpStream::connect(addr).await.unwrap();
    let idle_new = TcpStream::connect(addr).await.unwrap();
    tokio::time::sleep(Duration::from_millis(500)).await;

    // The operator replaces server certificate, key and client CA, and sends
    // SIGUSR1 (which calls exactly this).
    let (c, k, new_server_cert) = leaf(&server_ca, "new server cert", &["server.test"], false);
    std::fs::write(&cert_path, c).unwrap();
    std::fs::write(&key_path, k).unwrap();
    std::fs::write(&client_ca_path, new_client_ca.pem()).unwrap();
    reload_tls_identity(&identity, &cert_path, &key_path, Some(&client_ca_path))
        .await
        .unwrap();
    tokio::time::sleep(Duration::from_millis(500)).await;

    // Fresh connections see the replacement (this part holds).
    let tcp = TcpStream::connect(addr).await.unwrap();
    assert_eq!(
        handshake_and_get(tcp, &old_client, &server_ca_pem).await,
        None,
        "after the reload a fresh connection under the old client CA is refused"
    );
    let tcp = TcpStream::connect(addr).await.unwrap();
    assert_eq!(
        handshake_and_get(tcp, &new_client, &server_ca_pem).await,
        Some(new_server_cert.clone()),
        "after the reload a fresh connection sees the new identity"
    );

    // Handshakes that START only now, long after the reload has completed.
    let got_new = handshake_and_get(idle_new, &new_client, &server_ca_pem).await;
    let got_old = handshake_and_get(idle_old, &old_client, &server_ca_pem).await;
    server.abort();
    let describe = |got: &Option<Vec<u8>>| match got {
        None => "refused",
        Some(c) if *c == old_server_cert => "accepted, shown the OLD server certificate",
        Some(c) if *c == new_server_cert => "accepted, shown the NEW server certificate",
        Some(_) => "accepted, unknown certificate",
    };
    assert_eq!(
        (describe(&got_old), describe(&got_new)),
        ("refused", "accepted, shown the NEW server certificate"),
        "handshakes started after the reload: (client under the REPLACED client CA, client under the NEW client CA)"
    );
}
