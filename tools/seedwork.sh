#!/bin/bash
cd /verif
tools/confirm_all.sh
SKIP_DONE=1 tools/seed_matrix.sh
python3 tools/seed_index.py
echo SEEDWORK-DONE
