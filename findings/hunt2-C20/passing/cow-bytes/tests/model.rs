//! Model-based check of `CowBytes` and `LongChain` against plain byte vectors.
#![allow(clippy::all)]

use bytes::{Buf, Bytes};
use cow_bytes::{CowBytes, LongChain};
use std::collections::hash_map::DefaultHasher;
use std::hash::{Hash, Hasher};
use std::io::Read;
use std::panic::{AssertUnwindSafe, catch_unwind};

static DATA: [u8; 256] = {
    let mut a = [0u8; 256];
    let mut i = 0;
    while i < 256 {
        a[i] = i as u8;
        i += 1;
    }
    a
};

fn quiet() {
    std::panic::set_hook(Box::new(|_| {}));
}

fn mk(kind: u8, off: usize, len: usize) -> CowBytes<'static> {
    let s = &DATA[off..off + len];
    match kind {
        0 => CowBytes::Temporary(s),
        1 => CowBytes::Static(Bytes::from_static(s)),
        // heap-backed, promotable vtable
        2 => CowBytes::Static(Bytes::from(s.to_vec())),
        // shared vtable
        _ => {
            let b = Bytes::from(s.to_vec());
            let c = b.clone();
            drop(b);
            CowBytes::Static(c)
        }
    }
}

#[derive(Clone, Debug)]
enum Op {
    Push(u8, usize),
    Insert(usize, u8, usize),
    Pop,
    Remove(usize),
    SplitTo(usize),
    SplitOff(usize),
    Truncate(usize),
    Advance(usize),
    Clear,
    CopyToBytes(usize),
}

type Model = Vec<Vec<u8>>;

fn flat(m: &Model) -> Vec<u8> {
    m.iter().flatten().copied().collect()
}

fn check(chain: &LongChain<'static>, model: &Model, ctx: &dyn Fn() -> String) {
    let want = flat(model);
    let r = catch_unwind(AssertUnwindSafe(|| {
        let chunks: &[CowBytes<'_>] = chain.as_ref();
        let cat: Vec<u8> = chunks.iter().flat_map(|c| c.as_ref().iter().copied()).collect();
        assert_eq!(cat, want, "concatenation");
        assert_eq!(chain.len(), want.len(), "len");
        assert_eq!(chain.remaining(), want.len(), "remaining");
        assert_eq!(chain.is_empty(), want.is_empty(), "is_empty");
        assert_eq!(chain.has_remaining(), !want.is_empty(), "has_remaining");
        for c in chunks {
            assert!(!c.is_empty(), "empty chunk stored");
        }
        // chunk list equals the model chunk list
        let got_chunks: Vec<Vec<u8>> = chunks.iter().map(|c| c.to_vec()).collect();
        assert_eq!(&got_chunks, model, "chunk list");
        if want.is_empty() {
            assert!(chain.chunk().is_empty());
        } else {
            assert!(!chain.chunk().is_empty(), "empty chunk() while bytes remain");
            assert_eq!(chain.chunk(), &model[0][..]);
        }
        // drain a clone through Buf
        let mut c = chain.clone();
        let mut out = Vec::new();
        let mut guard = 0;
        while c.has_remaining() {
            let ch = c.chunk();
            assert!(!ch.is_empty(), "empty chunk while draining");
            out.push(ch[0]);
            c.advance(1);
            guard += 1;
            assert!(guard < 10_000);
        }
        assert_eq!(out, want, "drain");
        assert_eq!(c.len(), 0);
        assert!(c.chunk().is_empty());
        // copy_to_bytes on a clone
        let mut c = chain.clone();
        let b = c.copy_to_bytes(want.len());
        assert_eq!(&b[..], &want[..]);
        assert_eq!(c.remaining(), 0);
        // vectored
        let mut ios = [std::io::IoSlice::new(&[]); 4];
        let n = chain.chunks_vectored(&mut ios);
        if want.is_empty() {
            assert_eq!(n, 0);
        } else {
            assert!(n >= 1);
            let mut v = Vec::new();
            for s in &ios[..n] {
                assert!(!s.is_empty());
                v.extend_from_slice(s);
            }
            assert_eq!(&v[..], &want[..v.len()]);
        }
    }));
    if let Err(e) = r {
        let msg = e
            .downcast_ref::<String>()
            .cloned()
            .or_else(|| e.downcast_ref::<&str>().map(|s| s.to_string()))
            .unwrap_or_default();
        // restore default hook so the message is visible
        let _ = std::panic::take_hook();
        panic!("VIOLATION: {msg}\n  history: {}", ctx());
    }
}

/// Apply `op` to the model. Returns None if the op is out of range (may panic / must not change)
fn apply_model(model: &mut Model, op: &Op, off: &mut usize) -> Option<Option<Vec<u8>>> {
    let total: usize = model.iter().map(Vec::len).sum();
    match *op {
        Op::Push(_, len) => {
            if len > 0 {
                model.push(DATA[*off..*off + len].to_vec());
            }
            Some(None)
        }
        Op::Insert(idx, _, len) => {
            if idx > model.len() {
                return None;
            }
            if len > 0 {
                model.insert(idx, DATA[*off..*off + len].to_vec());
            }
            Some(None)
        }
        Op::Pop => Some(model.pop()),
        Op::Remove(idx) => {
            if idx >= model.len() {
                return None;
            }
            Some(Some(model.remove(idx)))
        }
        Op::SplitTo(at) | Op::Advance(at) | Op::CopyToBytes(at) => {
            if at > total {
                return None;
            }
            let mut rem = at;
            let mut taken = Vec::new();
            while rem > 0 {
                let l = model[0].len();
                if l <= rem {
                    taken.extend(model.remove(0));
                    rem -= l;
                } else {
                    taken.extend(model[0].drain(..rem));
                    rem = 0;
                }
            }
            Some(Some(taken))
        }
        Op::SplitOff(at) | Op::Truncate(at) => {
            if at > total {
                if matches!(op, Op::Truncate(_)) {
                    return Some(Some(Vec::new()));
                }
                return None;
            }
            let mut rem = at;
            let mut i = 0;
            let mut tail = Vec::new();
            while i < model.len() {
                let l = model[i].len();
                if rem >= l {
                    rem -= l;
                    i += 1;
                } else if rem == 0 {
                    break;
                } else {
                    tail.extend(model[i].drain(rem..));
                    i += 1;
                    break;
                }
            }
            for c in model.drain(i..) {
                tail.extend(c);
            }
            Some(Some(tail))
        }
        Op::Clear => {
            model.clear();
            Some(None)
        }
    }
}

fn chain_bytes(c: &LongChain<'static>) -> Vec<u8> {
    let chunks: &[CowBytes<'_>] = c.as_ref();
    chunks.iter().flat_map(|c| c.as_ref().iter().copied()).collect()
}

/// Returns true when op was applied, false if it panicked
fn step(
    chain: &mut LongChain<'static>,
    model: &mut Model,
    op: &Op,
    off: &mut usize,
    hist: &dyn Fn() -> String,
) -> bool {
    let before = model.clone();
    let expect = apply_model(model, op, off);
    let o = *off;
    let res = catch_unwind(AssertUnwindSafe(|| -> Option<Vec<u8>> {
        match *op {
            Op::Push(k, len) => {
                chain.push(mk(k, o, len));
                None
            }
            Op::Insert(i, k, len) => {
                chain.insert(i, mk(k, o, len));
                None
            }
            Op::Pop => chain.pop().map(|c| c.to_vec()),
            Op::Remove(i) => Some(chain.remove(i).to_vec()),
            Op::SplitTo(at) => {
                let other = chain.split_to(at);
                check_side(&other, hist);
                Some(chain_bytes(&other))
            }
            Op::SplitOff(at) => {
                let other = chain.split_off(at);
                check_side(&other, hist);
                Some(chain_bytes(&other))
            }
            Op::Truncate(n) => {
                chain.truncate(n);
                None
            }
            Op::Advance(n) => {
                chain.advance(n);
                None
            }
            Op::Clear => {
                chain.clear();
                None
            }
            Op::CopyToBytes(n) => Some(chain.copy_to_bytes(n).to_vec()),
        }
    }));
    if let Op::Push(_, l) | Op::Insert(_, _, l) = *op {
        *off = (*off + l) % 200;
    }
    match (expect, res) {
        (Some(exp), Ok(got)) => {
            match op {
                Op::Pop | Op::Remove(_) | Op::SplitTo(_) | Op::SplitOff(_) | Op::CopyToBytes(_) => {
                    if exp != got {
                        let _ = std::panic::take_hook();
                        panic!("VIOLATION: returned {got:?} expected {exp:?}\n  history: {}", hist());
                    }
                }
                _ => {}
            }
            check(chain, model, hist);
            true
        }
        (None, Err(_)) => {
            // allowed panic: the surviving value must be self-consistent. We allow any
            // consistent content; find what it holds.
            *model = before;
            let chunks: Vec<Vec<u8>> = {
                let c: &[CowBytes<'_>] = chain.as_ref();
                c.iter().map(|c| c.to_vec()).collect()
            };
            check(chain, &chunks, &|| format!("{} [after allowed panic]", hist()));
            if chunks != *model {
                let _ = std::panic::take_hook();
                panic!(
                    "NOTE: value changed by a panicking op: {chunks:?} vs {model:?}\n  history: {}",
                    hist()
                );
            }
            false
        }
        (None, Ok(_)) => {
            // out of range, no panic: must be unchanged
            *model = before;
            check(chain, model, &|| format!("{} [out-of-range no panic]", hist()));
            true
        }
        (Some(_), Err(e)) => {
            let msg = e
                .downcast_ref::<String>()
                .cloned()
                .or_else(|| e.downcast_ref::<&str>().map(|s| s.to_string()))
                .unwrap_or_default();
            let _ = std::panic::take_hook();
            panic!("VIOLATION: in-range op panicked: {msg}\n  history: {}", hist());
        }
    }
}

fn check_side(other: &LongChain<'static>, hist: &dyn Fn() -> String) {
    let chunks: Vec<Vec<u8>> = {
        let c: &[CowBytes<'_>] = other.as_ref();
        c.iter().map(|c| c.to_vec()).collect()
    };
    // Its own chunk list must be self-consistent (no empties, len right)
    check(other, &chunks, &|| format!("{} [returned half]", hist()));
}

fn ops_for(model: &Model, kinds: &[u8], lens: &[usize]) -> Vec<Op> {
    let total: usize = model.iter().map(Vec::len).sum();
    let n = model.len();
    let mut v = Vec::new();
    for &k in kinds {
        for &l in lens {
            v.push(Op::Push(k, l));
            for i in 0..=n + 1 {
                v.push(Op::Insert(i, k, l));
            }
        }
    }
    v.push(Op::Pop);
    for i in 0..=n {
        v.push(Op::Remove(i));
    }
    for a in 0..=total + 1 {
        v.push(Op::SplitTo(a));
        v.push(Op::SplitOff(a));
        v.push(Op::Truncate(a));
        v.push(Op::Advance(a));
        v.push(Op::CopyToBytes(a));
    }
    v.push(Op::Truncate(usize::MAX));
    v.push(Op::SplitOff(usize::MAX));
    v.push(Op::SplitTo(usize::MAX));
    v.push(Op::Advance(usize::MAX));
    v.push(Op::Insert(usize::MAX, 0, 1));
    v.push(Op::Remove(usize::MAX));
    v.push(Op::Clear);
    v
}

fn dfs(
    chain: &LongChain<'static>,
    model: &Model,
    off: usize,
    depth: usize,
    hist: &mut Vec<Op>,
    init: &str,
    kinds: &[u8],
    lens: &[usize],
    count: &mut u64,
) {
    if depth == 0 {
        return;
    }
    for op in ops_for(model, kinds, lens) {
        let mut c = chain.clone();
        let mut m = model.clone();
        let mut o = off;
        hist.push(op.clone());
        {
            let h = &*hist;
            step(&mut c, &mut m, &op, &mut o, &|| format!("init={init} ops={h:?}"));
        }
        *count += 1;
        dfs(&c, &m, o, depth - 1, hist, init, kinds, lens, count);
        hist.pop();
    }
}

#[test]
fn chain_exhaustive_from_empty() {
    quiet();
    let mut count = 0;
    dfs(
        &LongChain::new(),
        &Vec::new(),
        0,
        4,
        &mut Vec::new(),
        "[]",
        &[0, 2],
        &[0, 2],
        &mut count,
    );
    let _ = std::panic::take_hook();
    eprintln!("from-empty sequences: {count}");
}

#[test]
fn chain_exhaustive_from_lists() {
    quiet();
    let mut count = 0;
    // all chunk lists with up to 3 chunks of sizes 1..=3, 2 kinds per chunk
    let sizes = [1usize, 2, 3];
    let kinds = [0u8, 1, 2, 3];
    let mut lists: Vec<Vec<(u8, usize)>> = vec![vec![]];
    let mut frontier = lists.clone();
    for _ in 0..3 {
        let mut next = Vec::new();
        for l in &frontier {
            for &k in &kinds {
                for &s in &sizes {
                    let mut n = l.clone();
                    n.push((k, s));
                    next.push(n);
                }
            }
        }
        lists.extend(next.iter().cloned());
        frontier = next;
    }
    for l in &lists {
        let mut chain = LongChain::with_capacity(l.len());
        let mut model = Vec::new();
        let mut off = 0;
        for &(k, s) in l {
            chain.push(mk(k, off, s));
            model.push(DATA[off..off + s].to_vec());
            off += s;
        }
        let init = format!("{l:?}");
        check(&chain, &model, &|| init.clone());
        dfs(&chain, &model, off, 2, &mut Vec::new(), &init, &[0, 3], &[0, 1], &mut count);
    }
    let _ = std::panic::take_hook();
    eprintln!("from-lists sequences: {count}");
}

struct Rng(u64);
impl Rng {
    fn next(&mut self) -> u64 {
        self.0 ^= self.0 << 13;
        self.0 ^= self.0 >> 7;
        self.0 ^= self.0 << 17;
        self.0
    }
    fn below(&mut self, n: usize) -> usize {
        (self.next() % n as u64) as usize
    }
}

#[test]
fn chain_random_long() {
    quiet();
    for seed in 1..=20_000u64 {
        let mut rng = Rng(seed.wrapping_mul(0x9E37_79B9_7F4A_7C15) | 1);
        let mut chain = LongChain::new();
        let mut model: Model = Vec::new();
        let mut off = 0;
        let mut hist: Vec<Op> = Vec::new();
        for _ in 0..60 {
            let total: usize = model.iter().map(Vec::len).sum();
            let n = model.len();
            let k = rng.below(4) as u8;
            let op = match rng.below(14) {
                0..=3 => Op::Push(k, rng.below(6)),
                4 | 5 => Op::Insert(rng.below(n + 2), k, rng.below(6)),
                6 => Op::Pop,
                7 => Op::Remove(rng.below(n + 1)),
                8 => Op::SplitTo(rng.below(total + 2)),
                9 => Op::SplitOff(rng.below(total + 2)),
                10 => Op::Truncate(rng.below(total + 2)),
                11 => Op::Advance(rng.below(total + 2)),
                12 => Op::CopyToBytes(rng.below(total + 2)),
                _ => {
                    if rng.below(8) == 0 {
                        Op::Clear
                    } else {
                        Op::Advance(rng.below(total.min(3) + 1))
                    }
                }
            };
            hist.push(op.clone());
            let h = &hist;
            step(&mut chain, &mut model, &op, &mut off, &|| format!("seed={seed} ops={h:?}"));
        }
    }
    let _ = std::panic::take_hook();
}

// ---------------------------------------------------------------- CowBytes

#[derive(Clone, Debug)]
enum COp {
    SplitTo(usize),
    SplitOff(usize),
    Truncate(usize),
    Advance(usize),
    Read(usize),
    CopyToBytes(usize),
    GetU8,
}

fn hash_of<T: Hash + ?Sized>(t: &T) -> u64 {
    let mut h = DefaultHasher::new();
    t.hash(&mut h);
    h.finish()
}

fn cow_check(vals: &[CowBytes<'static>], want: &[u8], ctx: &dyn Fn() -> String) {
    let others: Vec<Vec<u8>> = vec![
        vec![],
        want.to_vec(),
        {
            let mut v = want.to_vec();
            v.push(0);
            v
        },
        {
            let mut v = want.to_vec();
            v.pop();
            v
        },
        {
            let mut v = want.to_vec();
            if let Some(l) = v.last_mut() {
                *l = l.wrapping_add(1);
            }
            v
        },
        vec![0],
        vec![255, 255, 255, 255, 255, 255],
    ];
    let r = catch_unwind(AssertUnwindSafe(|| {
        for v in vals {
            assert_eq!(v.len(), want.len());
            assert_eq!(v.is_empty(), want.is_empty());
            assert_eq!(v.as_ref(), want);
            assert_eq!(&**v, want);
            assert_eq!(v.remaining(), want.len());
            assert_eq!(v.chunk(), want);
            let b: &[u8] = std::borrow::Borrow::borrow(v);
            assert_eq!(b, want);
            assert_eq!(hash_of(v), hash_of(want));
            assert_eq!(format!("{v:x}"), want.iter().map(|b| format!("{b:02x}")).collect::<String>());
            assert_eq!(format!("{v:X}"), want.iter().map(|b| format!("{b:02X}")).collect::<String>());
            assert_eq!(format!("{v:#x}"), format!("{:#x}", vals[0]));
            assert_eq!(format!("{v:10x}"), format!("{:10x}", vals[0]));
            assert_eq!(&v.clone().into_static()[..], want);
            assert!(*v == *want);
            assert!(*v == want.to_vec());
            assert!(*v == Bytes::copy_from_slice(want));
            for w in vals {
                assert!(v == w);
                assert_eq!(v.partial_cmp(w), Some(std::cmp::Ordering::Equal));
            }
            for o in &others {
                let ob = Bytes::copy_from_slice(o);
                let ot = CowBytes::Temporary(&o[..]);
                let os = CowBytes::Static(ob.clone());
                assert_eq!(*v == o[..], want == &o[..]);
                assert_eq!(*v == *o, want == &o[..]);
                assert_eq!(*v == ob, want == &o[..]);
                assert_eq!(*v == ot, want == &o[..]);
                assert_eq!(*v == os, want == &o[..]);
                assert_eq!(ot == *v, want == &o[..]);
                assert_eq!(os == *v, want == &o[..]);
                assert_eq!(v.partial_cmp(&o[..]), want.partial_cmp(&o[..]));
                assert_eq!(v.partial_cmp(&ob), want.partial_cmp(&o[..]));
                assert_eq!(v.partial_cmp(&ot), want.partial_cmp(&o[..]));
                assert_eq!(v.partial_cmp(&os), want.partial_cmp(&o[..]));
                assert_eq!(ot.partial_cmp(v), o[..].partial_cmp(want));
                assert_eq!(os.partial_cmp(v), o[..].partial_cmp(want));
                assert_eq!(*v < ot, want < &o[..]);
                assert_eq!(*v <= os, want <= &o[..]);
                assert_eq!(*v > ob, want > &o[..]);
                assert_eq!(*v >= o[..], want >= &o[..]);
            }
            // arrays
            if want.len() == 2 {
                let a: [u8; 2] = [want[0], want[1]];
                assert!(*v == &a);
                let a2: [u8; 2] = [want[0], want[1].wrapping_add(1)];
                assert!(!(*v == &a2));
            }
            let a3 = [9u8; 7];
            assert!(!(*v == &a3));
            // Read on a clone
            let mut c = v.clone();
            let mut out = Vec::new();
            c.read_to_end(&mut out).unwrap();
            assert_eq!(out, want);
            assert_eq!(c.len(), 0);
            // Buf reader
            let mut out = Vec::new();
            v.clone().reader().read_to_end(&mut out).unwrap();
            assert_eq!(out, want);
        }
    }));
    if let Err(e) = r {
        let msg = e
            .downcast_ref::<String>()
            .cloned()
            .or_else(|| e.downcast_ref::<&str>().map(|s| s.to_string()))
            .unwrap_or_default();
        let _ = std::panic::take_hook();
        panic!("VIOLATION: {msg}\n  history: {}", ctx());
    }
}

fn cow_apply(v: &mut CowBytes<'static>, op: &COp) -> Result<Option<Vec<u8>>, ()> {
    catch_unwind(AssertUnwindSafe(|| match *op {
        COp::SplitTo(a) => Some(v.split_to(a).to_vec()),
        COp::SplitOff(a) => Some(v.split_off(a).to_vec()),
        COp::Truncate(a) => {
            v.truncate(a);
            None
        }
        COp::Advance(a) => {
            v.advance(a);
            None
        }
        COp::Read(a) => {
            let mut buf = vec![0xEE; a];
            let n = v.read(&mut buf).unwrap();
            buf.truncate(n);
            Some(buf)
        }
        COp::CopyToBytes(a) => Some(v.copy_to_bytes(a).to_vec()),
        COp::GetU8 => Some(vec![v.get_u8()]),
    }))
    .map_err(|_| ())
}

fn cow_model(m: &mut Vec<u8>, op: &COp) -> Option<Option<Vec<u8>>> {
    match *op {
        COp::SplitTo(a) | COp::CopyToBytes(a) => {
            if a > m.len() {
                return None;
            }
            Some(Some(m.drain(..a).collect()))
        }
        COp::SplitOff(a) => {
            if a > m.len() {
                return None;
            }
            Some(Some(m.split_off(a)))
        }
        COp::Truncate(a) => {
            m.truncate(a);
            Some(None)
        }
        COp::Advance(a) => {
            if a > m.len() {
                return None;
            }
            m.drain(..a);
            Some(None)
        }
        COp::Read(a) => {
            let n = a.min(m.len());
            Some(Some(m.drain(..n).collect()))
        }
        COp::GetU8 => {
            if m.is_empty() {
                return None;
            }
            Some(Some(vec![m.remove(0)]))
        }
    }
}

fn cow_dfs(vals: &[CowBytes<'static>], model: &[u8], depth: usize, hist: &mut Vec<COp>, count: &mut u64) {
    if depth == 0 {
        return;
    }
    let l = model.len();
    let mut ops = Vec::new();
    for a in (0..=l + 1).chain([usize::MAX]) {
        ops.push(COp::SplitTo(a));
        ops.push(COp::SplitOff(a));
        ops.push(COp::Truncate(a));
        ops.push(COp::Advance(a));
        if a != usize::MAX {
            ops.push(COp::Read(a));
            ops.push(COp::CopyToBytes(a));
        }
    }
    ops.push(COp::GetU8);
    for op in ops {
        hist.push(op.clone());
        let mut m = model.to_vec();
        let exp = cow_model(&mut m, &op);
        let mut vs: Vec<CowBytes<'static>> = vals.to_vec();
        let results: Vec<_> = vs.iter_mut().map(|v| cow_apply(v, &op)).collect();
        *count += 1;
        let h = &*hist;
        let ctx = || format!("start={model:?} ops={h:?}");
        match exp {
            Some(e) => {
                for (i, r) in results.iter().enumerate() {
                    match r {
                        Ok(g) => {
                            if *g != e {
                                let _ = std::panic::take_hook();
                                panic!("VIOLATION: variant {i} returned {g:?}, expected {e:?}\n {}", ctx());
                            }
                        }
                        Err(()) => {
                            let _ = std::panic::take_hook();
                            panic!("VIOLATION: variant {i} panicked on in-range op\n {}", ctx());
                        }
                    }
                }
                cow_check(&vs, &m, &ctx);
                cow_dfs(&vs, &m, depth - 1, hist, count);
            }
            None => {
                let panicked: Vec<bool> = results.iter().map(Result::is_err).collect();
                if panicked.iter().any(|p| *p != panicked[0]) {
                    let _ = std::panic::take_hook();
                    panic!("VIOLATION: variants differ on panic {panicked:?}\n {}", ctx());
                }
                // surviving values must agree with each other
                let first = vs[0].to_vec();
                cow_check(&vs, &first, &|| format!("{} [after out-of-range]", ctx()));
                if first != model {
                    let _ = std::panic::take_hook();
                    panic!("NOTE: out-of-range op changed the value: {first:?}\n {}", ctx());
                }
            }
        }
        hist.pop();
    }
}

#[test]
fn cow_exhaustive() {
    quiet();
    let mut count = 0;
    for len in 0..=4usize {
        let vals: Vec<CowBytes<'static>> = (0..4).map(|k| mk(k, 10, len)).collect();
        let model = DATA[10..10 + len].to_vec();
        cow_check(&vals, &model, &|| format!("initial {len}"));
        cow_dfs(&vals, &model, 3, &mut Vec::new(), &mut count);
    }
    // default value
    let d = CowBytes::default();
    cow_check(&[d, CowBytes::Temporary(&[])], &[], &|| "default".into());
    let _ = std::panic::take_hook();
    eprintln!("cow sequences: {count}");
}
