//! C14 wire-level probe: raw HTTP/1.x requests against `serve_connection`.
use http::HeaderValue;
use rusty_penguin_lib::server::{State, serve_connection};
use rusty_penguin_lib::tls::MaybeTlsStream;
use std::net::SocketAddr;
use std::time::Duration;
use tokio::io::{AsyncReadExt, AsyncWriteExt};
use tokio::net::{TcpListener, TcpStream};

static PSK: HeaderValue = HeaderValue::from_static("s3cret Key");

async fn start(state: State) -> SocketAddr {
    let l = TcpListener::bind("127.0.0.1:0").await.unwrap();
    let a = l.local_addr().unwrap();
    tokio::spawn(async move {
        loop {
            let (s, _) = l.accept().await.unwrap();
            tokio::spawn(serve_connection(MaybeTlsStream::Plain(s), state.clone()));
        }
    });
    a
}

/// Send raw bytes, read whatever comes back within 300 ms of silence (or EOF).
async fn raw(addr: SocketAddr, req: &[u8]) -> String {
    let mut s = TcpStream::connect(addr).await.unwrap();
    s.write_all(req).await.unwrap();
    let mut out = Vec::new();
    let mut buf = [0u8; 4096];
    loop {
        match tokio::time::timeout(Duration::from_millis(300), s.read(&mut buf)).await {
            Ok(Ok(0)) => {
                out.extend_from_slice(b"<EOF>");
                break;
            }
            Ok(Ok(n)) => out.extend_from_slice(&buf[..n]),
            Ok(Err(e)) => {
                out.extend_from_slice(format!("<ERR {e}>").as_bytes());
                break;
            }
            Err(_) => break,
        }
    }
    let s = String::from_utf8_lossy(&out).to_string();
    // normalise date
    s.lines()
        .filter(|l| !l.to_ascii_lowercase().starts_with("date:"))
        .collect::<Vec<_>>()
        .join("\n")
}

fn req(method: &str, path: &str, ver: &str, hdrs: &[(&str, &str)], tail: &str) -> Vec<u8> {
    let mut s = format!("{method} {path} {ver}\r\nHost: x\r\n");
    for (k, v) in hdrs {
        s.push_str(&format!("{k}: {v}\r\n"));
    }
    s.push_str("\r\n");
    s.push_str(tail);
    s.into_bytes()
}

const VALID: [(&str, &str); 6] = [
    ("Connection", "Upgrade"),
    ("Upgrade", "websocket"),
    ("Sec-WebSocket-Version", "13"),
    ("Sec-WebSocket-Protocol", "penguin-v7"),
    ("Sec-WebSocket-Key", "dGhlIHNhbXBsZSBub25jZQ=="),
    ("X-Penguin-PSK", "s3cret Key"),
];

#[tokio::test(flavor = "multi_thread")]
async fn c14_wire_matrix() {
    rusty_penguin_lib::tls::init_crypto_provider();
    for obfs in [false, true] {
        for psk in [false, true] {
            let state = State::new()
                .await
                .unwrap()
                .with_backend_http2_support(false)
                .with_not_found_resp("NF-body")
                .obfs(obfs)
                .with_ws_psk(if psk { Some(&PSK) } else { None });
            let addr = start(state).await;
            let mut cases: Vec<(String, Vec<(String, String)>, &str, &str, &str)> = Vec::new();
            let base: Vec<(String, String)> = VALID
                .iter()
                .map(|(k, v)| (k.to_string(), v.to_string()))
                .collect();
            cases.push(("valid".into(), base.clone(), "GET", "HTTP/1.1", ""));
            cases.push(("valid-http10".into(), base.clone(), "GET", "HTTP/1.0", ""));
            cases.push(("post".into(), base.clone(), "POST", "HTTP/1.1", ""));
            cases.push(("head".into(), base.clone(), "HEAD", "HTTP/1.1", ""));
            cases.push(("lower-get".into(), base.clone(), "get", "HTTP/1.1", ""));
            for i in 0..6 {
                let (k, v) = (&base[i].0, &base[i].1);
                let variants: Vec<(&str, Vec<(String, String)>)> = vec![
                    ("absent", vec![]),
                    ("upper", vec![(k.clone(), v.to_ascii_uppercase())]),
                    ("nearmiss", vec![(k.clone(), format!("{v}x"))]),
                    ("prefix", vec![(k.clone(), v[..v.len() - 1].to_string())]),
                    ("empty", vec![(k.clone(), String::new())]),
                    ("padded", vec![(k.clone(), format!("  {v}\t "))]),
                    ("dup-same", vec![(k.clone(), v.clone()), (k.clone(), v.clone())]),
                    ("dup-good-bad", vec![(k.clone(), v.clone()), (k.clone(), "zzz".into())]),
                    ("dup-bad-good", vec![(k.clone(), "zzz".into()), (k.clone(), v.clone())]),
                    ("list", vec![(k.clone(), format!("zzz, {v}"))]),
                ];
                for (name, repl) in variants {
                    let mut h = base.clone();
                    h.splice(i..=i, repl);
                    cases.push((format!("{k}:{name}"), h, "GET", "HTTP/1.1", ""));
                }
            }
            for (name, hdrs, method, ver, tail) in cases {
                let hv: Vec<(&str, &str)> =
                    hdrs.iter().map(|(a, b)| (a.as_str(), b.as_str())).collect();
                let r_ws = raw(addr, &req(method, "/ws", ver, &hv, tail)).await;
                let r_nx = raw(addr, &req(method, "/nonexistent", ver, &hv, tail)).await;
                let status = r_ws.lines().next().unwrap_or("").to_string();
                let same = r_ws == r_nx;
                println!(
                    "obfs={obfs} psk={psk} {name:45} /ws -> {status:30} same-as-unknown={same}"
                );
                if !status.contains("101") && !same {
                    println!("--- /ws:\n{r_ws}\n--- /nonexistent:\n{r_nx}");
                }
            }
            for p in ["/health", "/version", "/ws?x=1", "/ws/", "/WS", "//ws", "/ws%20", "/./ws"] {
                let hv: Vec<(&str, &str)> = VALID.to_vec();
                let r = raw(addr, &req("GET", p, "HTTP/1.1", &hv, "")).await;
                let r_nx = raw(addr, &req("GET", "/nonexistent", "HTTP/1.1", &hv, "")).await;
                println!(
                    "obfs={obfs} psk={psk} path {p:12} -> {:30} same-as-unknown={}",
                    r.lines().next().unwrap_or(""),
                    r == r_nx
                );
            }
        }
    }
}
