use crate::Args;
use crate::report::Report;

pub mod c01;
mod c01_env;
mod c01_proto;
mod c01_tcp;
mod c01_udp;
pub mod c14;
pub mod c17;
pub mod c18w;
pub mod c19;

pub fn dispatch(args: &Args) -> Report {
    match args.id.as_str() {
        "C01" => c01::run(args),
        "C14" => c14::run(args),
        "C17" => c17::run(args),
        "C18W" => c18w::run(args),
        "C19" => c19::run(args),
        other => panic!("no driver for {other}"),
    }
}
