//! C19 demo 2 (minor): a non-retryable error of the connection is retried forever,
//! with neither back-off nor retry limit, when a local stream request is pending.
//!
//! The server answers the client's first frame (the `Connect` of a local TCP
//! connection) with a frame that does not parse. The multiplexor task ends with
//! `penguin_mux::Error::InvalidFrame`, which `maybe_retryable.rs` classifies as
//! NOT retryable: the property says this "ends the client at once" (and the control
//! below shows that it does when no request is pending). But the pending request
//! only learns `Closed` from the dying multiplexor, `on_connected` returns that
//! (retryable) error instead of the task's, the back-off is reset because "we once
//! connected", the parked request is retried first on the next connection, and the
//! whole thing repeats every 200 ms for ever, `--max-retry-count` notwithstanding.
//
// SPDX-License-Identifier: Apache-2.0 OR GPL-3.0-or-later
#![allow(clippy::all, clippy::pedantic)]

use futures_util::{SinkExt, StreamExt};
use penguin_mux::timing::OptionalDuration;
use rusty_penguin_lib::arg::{ClientArgs, Remote, ServerUrl};
use rusty_penguin_lib::client::{self, HandlerResources};
use std::str::FromStr;
use std::sync::{Arc, Mutex};
use std::time::{Duration, Instant};
use tokio::net::{TcpListener, TcpStream};
use tokio_tungstenite::tungstenite::Message;
use tokio_tungstenite::tungstenite::handshake::server::{Request, Response};

fn cb(req: &Request, mut resp: Response) -> Result<Response, http::Response<Option<String>>> {
    if let Some(p) = req.headers().get("sec-websocket-protocol") {
        resp.headers_mut()
            .insert("sec-websocket-protocol", p.clone());
    }
    Ok(resp)
}

/// Eight octets with an opcode that does not exist: `InvalidFrame`
const GARBAGE: &[u8] = &[0xff; 8];

/// Fake server. `at_once`: send the bad frame right after the handshake; otherwise
/// send it in answer to the first binary message of the client.
async fn fake_server(at_once: bool) -> (std::net::SocketAddr, Arc<Mutex<Vec<Instant>>>) {
    let listener = TcpListener::bind("127.0.0.1:0").await.unwrap();
    let addr = listener.local_addr().unwrap();
    let log = Arc::new(Mutex::new(Vec::new()));
    let log2 = log.clone();
    tokio::spawn(async move {
        loop {
            let (tcp, _) = listener.accept().await.unwrap();
            log2.lock().unwrap().push(Instant::now());
            tokio::spawn(async move {
                let mut ws = tokio_tungstenite::accept_hdr_async(tcp, cb).await.unwrap();
                if at_once {
                    ws.send(Message::Binary(GARBAGE.into())).await.ok();
                }
                while let Some(Ok(m)) = ws.next().await {
                    if m.is_binary() {
                        ws.send(Message::Binary(GARBAGE.into())).await.ok();
                    }
                }
            });
        }
    });
    (addr, log)
}

async fn run(at_once: bool) -> (usize, Option<Result<(), client::Error>>) {
    let (addr, log) = fake_server(at_once).await;
    let lport = {
        let l = TcpListener::bind("127.0.0.1:0").await.unwrap();
        l.local_addr().unwrap().port()
    };
    let args: &'static ClientArgs = Box::leak(Box::new(ClientArgs {
        server: ServerUrl::from_str(&format!("ws://{addr}/ws")).unwrap(),
        remote: vec![Remote::from_str(&format!("127.0.0.1:{lport}:127.0.0.1:9")).unwrap()],
        keepalive: OptionalDuration::NONE,
        max_retry_count: 3,
        max_retry_interval: 1000,
        handshake_timeout: OptionalDuration::from_secs(2),
        channel_timeout: OptionalDuration::from_secs(2),
        ..Default::default()
    }));
    let (hr, stream_command_rx, datagram_rx) = HandlerResources::create();
    let hr: &'static HandlerResources = Box::leak(Box::new(hr));
    let client = tokio::spawn(client::client_main_inner(
        args,
        hr,
        stream_command_rx,
        datagram_rx,
    ));
    tokio::time::sleep(Duration::from_millis(500)).await;
    // One local TCP connection: its `Connect` is the client's first frame
    let _local = if at_once {
        None
    } else {
        Some(
            TcpStream::connect(("127.0.0.1", lport))
                .await
                .expect("local listener"),
        )
    };
    tokio::time::sleep(Duration::from_secs(4)).await;
    let attempts = log.lock().unwrap().len();
    let result = if client.is_finished() {
        Some(client.await.unwrap())
    } else {
        client.abort();
        None
    };
    (attempts, result)
}

/// Control: no request pending. The client ends at once with the non-retryable error. Passes.
#[tokio::test(flavor = "multi_thread", worker_threads = 2)]
async fn control_invalid_frame_ends_the_client() {
    let (attempts, result) = run(true).await;
    assert!(
        matches!(
            result,
            Some(Err(client::Error::Mux(penguin_mux::Error::InvalidFrame(_))))
        ),
        "{result:?}"
    );
    assert_eq!(attempts, 1);
}

/// The demo: FAILS on the unmodified tree (about 20 connection attempts in 4 s, client still running).
#[tokio::test(flavor = "multi_thread", worker_threads = 2)]
async fn invalid_frame_with_a_pending_request_ends_the_client() {
    let (attempts, result) = run(false).await;
    assert!(
        matches!(
            result,
            Some(Err(client::Error::Mux(penguin_mux::Error::InvalidFrame(_))))
        ),
        "the connection ended with the non-retryable `InvalidFrame`, but the client is {} \
         after {attempts} connection attempts in 4 s (max_retry_count = 3)",
        match &result {
            None => "still reconnecting".to_string(),
            Some(r) => format!("finished with {r:?}"),
        }
    );
    assert_eq!(attempts, 1);
}
