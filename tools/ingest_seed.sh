#!/bin/bash
# tools/ingest_seed.sh <ID> <round> "<check ids>": copy the seed a sub-agent left in /tmp/wt<round>-<ID>/seed to
# seeded/<ID>-seed<round>/, remove its scratch worktree, then confirm it and run the named checks against it
# (serialised through a lock: confirm_seed.sh and seed_matrix.sh use fixed scratch paths).
set -u
ID=$1; R=$2; CH=$3
WT=/tmp/wt$R-$ID; D=/verif/seeded/$ID-seed$R
[ -d $WT/seed ] || { echo "no $WT/seed"; exit 1; }
mkdir -p $D; cp -r $WT/seed/. $D/; echo "$CH" > $D/checks.txt
git -C /repo worktree remove --force $WT; rm -rf $WT
exec setsid /verif/tools/ingest2.sh $ID-seed$R
