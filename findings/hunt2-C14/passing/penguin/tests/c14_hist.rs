//! C14: histories on one connection; tunnel really starts (WebSocket ping -> pong).
use http::HeaderValue;
use rusty_penguin_lib::server::{State, serve_connection};
use rusty_penguin_lib::tls::MaybeTlsStream;
use std::net::SocketAddr;
use std::time::Duration;
use tokio::io::{AsyncReadExt, AsyncWriteExt};
use tokio::net::{TcpListener, TcpStream};

static PSK: HeaderValue = HeaderValue::from_static("s3cret Key");

async fn start(state: State) -> SocketAddr {
    let l = TcpListener::bind("127.0.0.1:0").await.unwrap();
    let a = l.local_addr().unwrap();
    tokio::spawn(async move {
        loop {
            let (s, _) = l.accept().await.unwrap();
            tokio::spawn(serve_connection(MaybeTlsStream::Plain(s), state.clone()));
        }
    });
    a
}

async fn read_some(s: &mut TcpStream) -> Vec<u8> {
    let mut out = Vec::new();
    let mut buf = [0u8; 4096];
    loop {
        match tokio::time::timeout(Duration::from_millis(300), s.read(&mut buf)).await {
            Ok(Ok(0)) => {
                out.extend_from_slice(b"<EOF>");
                break;
            }
            Ok(Ok(n)) => out.extend_from_slice(&buf[..n]),
            Ok(Err(e)) => {
                out.extend_from_slice(format!("<ERR {e}>").as_bytes());
                break;
            }
            Err(_) => break,
        }
    }
    out
}

fn req(method: &str, path: &str, psk: &str, extra: &str) -> Vec<u8> {
    format!("{method} {path} HTTP/1.1\r\nHost: x\r\nConnection: Upgrade\r\nUpgrade: websocket\r\nSec-WebSocket-Version: 13\r\nSec-WebSocket-Protocol: penguin-v7\r\nSec-WebSocket-Key: dGhlIHNhbXBsZSBub25jZQ==\r\nX-Penguin-PSK: {psk}\r\n{extra}\r\n").into_bytes()
}

fn ws_ping() -> Vec<u8> {
    let mask = [1u8, 2, 3, 4];
    let payload = b"hey";
    let mut f = vec![0x89, 0x80 | payload.len() as u8];
    f.extend_from_slice(&mask);
    f.extend(payload.iter().enumerate().map(|(i, b)| b ^ mask[i % 4]));
    f
}

fn show(b: &[u8]) -> String {
    String::from_utf8_lossy(b)
        .lines()
        .filter(|l| !l.starts_with("date:"))
        .collect::<Vec<_>>()
        .join(" | ")
}

#[tokio::test(flavor = "multi_thread")]
async fn c14_histories() {
    rusty_penguin_lib::tls::init_crypto_provider();
    let state = State::new()
        .await
        .unwrap()
        .with_backend_http2_support(false)
        .with_not_found_resp("NF-body")
        .obfs(true)
        .with_ws_psk(Some(&PSK));
    let addr = start(state).await;

    // 1. valid; ping afterwards
    let mut s = TcpStream::connect(addr).await.unwrap();
    s.write_all(&req("GET", "/ws", "s3cret Key", "")).await.unwrap();
    println!("1a {}", show(&read_some(&mut s).await));
    s.write_all(&ws_ping()).await.unwrap();
    let r = read_some(&mut s).await;
    println!("1b {:x?}", r);
    assert_eq!(&r[..2], &[0x8a, 3]);

    // 2. valid with ping coalesced in the same write
    let mut s = TcpStream::connect(addr).await.unwrap();
    let mut b = req("GET", "/ws", "s3cret Key", "");
    b.extend(ws_ping());
    s.write_all(&b).await.unwrap();
    let r = read_some(&mut s).await;
    println!("2 {}", show(&r));
    assert!(r.ends_with(&[0x8a, 3, b'h', b'e', b'y']));

    // 3. rejected (wrong psk) on /ws, then valid on same connection
    for first in ["/ws", "/nonexistent"] {
        let mut s = TcpStream::connect(addr).await.unwrap();
        s.write_all(&req("GET", first, "wrong", "")).await.unwrap();
        println!("3a[{first}] {}", show(&read_some(&mut s).await));
        s.write_all(&req("GET", "/ws", "s3cret Key", "")).await.unwrap();
        let r = read_some(&mut s).await;
        println!("3b[{first}] {}", show(&r));
        assert!(r.starts_with(b"HTTP/1.1 101"));
        s.write_all(&ws_ping()).await.unwrap();
        let r = read_some(&mut s).await;
        println!("3c[{first}] {:x?}", r);
        assert_eq!(&r[..2], &[0x8a, 3]);
    }

    // 4. pipelined: rejected + valid + ping in one write
    for first in ["/ws", "/nonexistent"] {
        let mut s = TcpStream::connect(addr).await.unwrap();
        let mut b = req("GET", first, "wrong", "");
        b.extend(req("GET", "/ws", "s3cret Key", ""));
        b.extend(ws_ping());
        s.write_all(&b).await.unwrap();
        let r = read_some(&mut s).await;
        println!("4[{first}] {}", show(&r));
        assert!(r.ends_with(&[0x8a, 3, b'h', b'e', b'y']));
    }

    // 5. valid followed by a pipelined second HTTP request (must not be answered as HTTP)
    let mut s = TcpStream::connect(addr).await.unwrap();
    let mut b = req("GET", "/ws", "s3cret Key", "");
    b.extend(req("GET", "/ws", "s3cret Key", ""));
    s.write_all(&b).await.unwrap();
    println!("5 {}", show(&read_some(&mut s).await));

    // 6. valid with a request body
    let mut s = TcpStream::connect(addr).await.unwrap();
    let mut b = req("GET", "/ws", "s3cret Key", "Content-Length: 5\r\n");
    b.extend(b"hello");
    s.write_all(&b).await.unwrap();
    println!("6a {}", show(&read_some(&mut s).await));
    s.write_all(&ws_ping()).await.unwrap();
    println!("6b {:x?}", read_some(&mut s).await);

    // 7. valid with Connection: close as a second header line
    let mut s = TcpStream::connect(addr).await.unwrap();
    s.write_all(&req("GET", "/ws", "s3cret Key", "Connection: close\r\n")).await.unwrap();
    println!("7a {}", show(&read_some(&mut s).await));
    s.write_all(&ws_ping()).await.unwrap();
    println!("7b {:x?}", read_some(&mut s).await);

    // 8. valid with Expect: 100-continue and chunked body
    let mut s = TcpStream::connect(addr).await.unwrap();
    s.write_all(&req("GET", "/ws", "s3cret Key", "Expect: 100-continue\r\nTransfer-Encoding: chunked\r\n")).await.unwrap();
    println!("8a {}", show(&read_some(&mut s).await));
    s.write_all(&ws_ping()).await.unwrap();
    println!("8b {:x?}", read_some(&mut s).await);
}
