#!/usr/bin/env python3
"""Second-generation bug hunt prompt: tools/seedprompts/hunt2gen.py <ID> -> /tmp/huntprompts/<ID>-3.txt
Like HUNT_TEMPLATE.txt, plus the list of everything earlier reviewers reported (findings/HUNT-TRIAGE.md) so that
only NEW defects are looked for."""
import json, sys, os
pid = sys.argv[1]
here = os.path.dirname(os.path.abspath(__file__))
t = open(os.path.join(here, 'HUNT_TEMPLATE.txt')).read()
props = {json.loads(l)['id']: json.loads(l) for l in open('/verif/properties.jsonl')}
wt = f'/tmp/hunt3-{pid}'
p = t.replace('@@PROPERTY_JSON@@', json.dumps(props[pid], indent=1)).replace('@@WT@@', wt)
p += """

## Additional rules
- NEVER use `git stash` (the stash is shared between all worktrees of the repository and other reviewers are working in sibling worktrees right now). To compare with/without a change use `git diff > file` and `git apply -R file`, or `git checkout -- <path>`.
- This is a THIRD review round. The tree already contains about 45 bug-fix commits (`git log --oneline | grep fix:` shows them; read the ones that touch your property's code, they tell you what has been found already). Below is the triage table of everything earlier reviewers reported, for all properties, with the verdicts. Do NOT report any of these again (neither the repaired ones nor the ones judged out of scope); look for defects that are NOT in this list: other code paths, other configurations, other combinations of events, the code of the fixes themselves (a fix can be incomplete or introduce a new problem), the less-read parts of the anchored files, the glue code in the `penguin` crate.
- Put your report in the final answer as well (in full), in case writing REPORT.md fails.

## Already reported (do not report again)
"""
p += open('/verif/findings/HUNT-TRIAGE.md').read()
os.makedirs('/tmp/huntprompts', exist_ok=True)
open(f'/tmp/huntprompts/{pid}-3.txt', 'w').write(p)
print(wt)
