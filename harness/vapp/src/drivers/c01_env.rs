//! C01 helper: brings up one real penguin server (`run_listener`) and one real penguin client
//! (`client_main_inner`) on loopback inside the current tokio runtime, hands out ports and
//! watches the two subject tasks.

use penguin_mux::timing::OptionalDuration;
use rusty_penguin_lib::arg::{ClientArgs, Remote, ServerUrl};
use rusty_penguin_lib::client::{self, HandlerResources};
use rusty_penguin_lib::server::{State, run_listener};
use std::collections::HashSet;
use std::net::SocketAddr;
use std::str::FromStr;
use std::sync::atomic::{AtomicBool, Ordering};
use std::sync::{Arc, Mutex};
use std::time::{Duration, Instant};
use tokio::net::{TcpListener, TcpStream, UnixStream};
use tokio::task::JoinHandle;

fn leak<T>(x: T) -> &'static T {
    Box::leak(Box::new(x))
}

// ---------------------------------------------------------------------------------------
// ports
// ---------------------------------------------------------------------------------------

static RESERVED: Mutex<Option<HashSet<(bool, u16)>>> = Mutex::new(None);

/// A port number that was free a moment ago and that no other scenario of this process uses.
/// The subject binds it itself (its API takes a fixed address); a lost race shows up as
/// `AddrInUse` from the subject and makes the caller retry the whole scenario.
pub struct PortLease {
    pub port: u16,
    udp: bool,
}

impl Drop for PortLease {
    fn drop(&mut self) {
        if let Some(s) = RESERVED.lock().unwrap_or_else(std::sync::PoisonError::into_inner).as_mut() {
            s.remove(&(self.udp, self.port));
        }
    }
}

/// Ports for the subject's own listeners are taken from BELOW the kernel's ephemeral range:
/// neither `bind(0)` nor `connect()` of any process ever picks them, so the window between
/// our probe and the subject's `bind` can only be hit by another fixed-port user, and a
/// connect-retry loop towards a port that is not listening yet can never self-connect (source
/// port == destination port). Ports named in the repository's own tests are left alone.
struct Pool {
    lo: u16,
    size: u16,
    excluded: HashSet<u16>,
    next: std::sync::atomic::AtomicU32,
}

static POOL: std::sync::OnceLock<Pool> = std::sync::OnceLock::new();

fn pool() -> &'static Pool {
    POOL.get_or_init(|| {
        let eph_lo = std::fs::read_to_string("/proc/sys/net/ipv4/ip_local_port_range").ok().and_then(|t| t.split_whitespace().next().and_then(|x| x.parse::<u32>().ok())).unwrap_or(32768);
        let hi = eph_lo.clamp(12000, 60000) as u16;
        let lo = hi - 10000;
        let mut excluded = HashSet::new();
        fn scan(dir: &std::path::Path, out: &mut HashSet<u16>, depth: u32) {
            let Ok(rd) = std::fs::read_dir(dir) else { return };
            for e in rd.flatten() {
                let p = e.path();
                if p.is_dir() {
                    if depth < 4 {
                        scan(&p, out, depth + 1);
                    }
                } else if p.extension().is_some_and(|x| x == "rs") {
                    if let Ok(t) = std::fs::read_to_string(&p) {
                        let b = t.as_bytes();
                        let mut i = 0;
                        while i < b.len() {
                            if b[i].is_ascii_digit() {
                                let st = i;
                                while i < b.len() && b[i].is_ascii_digit() {
                                    i += 1;
                                }
                                if (4..=5).contains(&(i - st)) {
                                    if let Ok(n) = t[st..i].parse::<u16>() {
                                        out.insert(n);
                                    }
                                }
                            } else {
                                i += 1;
                            }
                        }
                    }
                }
            }
        }
        for d in ["/repo/penguin/src", "/repo/penguin-mux/src", "/repo/async-acceptor/src", "/repo/penguin-socks/src"] {
            scan(std::path::Path::new(d), &mut excluded, 0);
        }
        let seed = std::process::id().wrapping_mul(7919) ^ std::time::SystemTime::now().duration_since(std::time::UNIX_EPOCH).map_or(0, |d| d.subsec_nanos());
        Pool { lo, size: 10000, excluded, next: std::sync::atomic::AtomicU32::new(seed) }
    })
}

pub fn port_pool_range() -> (u16, u16) {
    let p = pool();
    (p.lo, p.lo + (p.size - 1))
}

pub fn lease_port(udp: bool) -> PortLease {
    let p = pool();
    for _ in 0..5000 {
        // 7 is coprime to the pool size: every port comes up
        let k = p.next.fetch_add(7, Ordering::Relaxed);
        let port = p.lo + (k % u32::from(p.size)) as u16;
        if p.excluded.contains(&port) {
            continue;
        }
        {
            let mut g = RESERVED.lock().unwrap_or_else(std::sync::PoisonError::into_inner);
            if !g.get_or_insert_with(HashSet::new).insert((udp, port)) {
                continue;
            }
        }
        // free right now? (both protocols: the TCP and UDP name spaces are kept apart from other users alike)
        let free = if udp { std::net::UdpSocket::bind(("127.0.0.1", port)).is_ok() } else { std::net::TcpListener::bind(("127.0.0.1", port)).is_ok() };
        if free {
            return PortLease { port, udp };
        }
        if let Some(s) = RESERVED.lock().unwrap_or_else(std::sync::PoisonError::into_inner).as_mut() {
            s.remove(&(udp, port));
        }
    }
    panic!("cannot obtain a free loopback port");
}

/// Number of TCP sockets in TIME_WAIT in this network namespace.
pub fn time_wait_count() -> Option<u64> {
    let t = std::fs::read_to_string("/proc/net/sockstat").ok()?;
    let line = t.lines().find(|l| l.starts_with("TCP:"))?;
    let mut it = line.split_whitespace();
    while let Some(w) = it.next() {
        if w == "tw" {
            return it.next()?.parse().ok();
        }
    }
    None
}

/// Number of DISTINCT ephemeral ports held by TIME_WAIT sockets (those are the ones a new
/// `bind(0)` / `connect()` cannot get). Cheap pre-check through sockstat; the exact count (a scan
/// of /proc/net/tcp) is taken only when the total is high, and is shared for 300 ms.
pub fn ephemeral_ports_in_time_wait() -> Option<u64> {
    static CACHE: Mutex<Option<(Instant, u64)>> = Mutex::new(None);
    let total = time_wait_count()?;
    if total <= 15000 {
        return Some(total);
    }
    let mut g = CACHE.lock().unwrap_or_else(std::sync::PoisonError::into_inner);
    if let Some((t, v)) = *g {
        if t.elapsed() < Duration::from_millis(300) {
            return Some(v);
        }
    }
    let range = std::fs::read_to_string("/proc/sys/net/ipv4/ip_local_port_range").ok()?;
    let mut it = range.split_whitespace().filter_map(|x| x.parse::<u16>().ok());
    let (lo, hi) = (it.next()?, it.next()?);
    let text = std::fs::read_to_string("/proc/net/tcp").ok()?;
    let mut ports: HashSet<u16> = HashSet::new();
    for line in text.lines().skip(1) {
        let mut f = line.split_whitespace();
        let (Some(_), Some(local), Some(_), Some(st)) = (f.next(), f.next(), f.next(), f.next()) else { continue };
        if st != "06" {
            continue;
        }
        if let Some(p) = local.rsplit(':').next().and_then(|h| u16::from_str_radix(h, 16).ok()) {
            if (lo..=hi).contains(&p) {
                ports.insert(p);
            }
        }
    }
    let v = ports.len() as u64;
    *g = Some((Instant::now(), v));
    Some(v)
}

/// A TCP port on which connections are refused for as long as the value lives: the socket is
/// bound (so nobody else can take the port) but never listens.
pub struct RefusingPort {
    _sock: tokio::net::TcpSocket,
    pub addr: SocketAddr,
}

pub fn refusing_port() -> RefusingPort {
    let sock = tokio::net::TcpSocket::new_v4().expect("socket");
    sock.bind(SocketAddr::from(([127, 0, 0, 1], 0))).expect("bind");
    let addr = sock.local_addr().expect("local_addr");
    RefusingPort { _sock: sock, addr }
}

// ---------------------------------------------------------------------------------------
// process-wide environment
// ---------------------------------------------------------------------------------------

pub struct Env {
    state: State,
    /// host name used where the entry point takes a domain name; resolves to 127.0.0.1 only
    pub domain: String,
    pub tmp: std::path::PathBuf,
}

impl Env {
    pub fn new() -> Result<Self, String> {
        rusty_penguin_lib::tls::init_crypto_provider();
        let rt = tokio::runtime::Builder::new_current_thread().enable_all().build().map_err(|e| format!("runtime: {e}"))?;
        let state = rt.block_on(State::new()).map_err(|e| format!("State::new: {e}"))?.with_not_found_resp("404").with_backend_http2_support(false);
        // "localhost" is used as the domain-typed target when it means 127.0.0.1 and nothing else
        // (otherwise the server could legitimately try ::1 first, where somebody else may listen)
        let only_v4 = std::net::ToSocketAddrs::to_socket_addrs(&("localhost", 1)).map(|it| {
            let v: Vec<_> = it.collect();
            !v.is_empty() && v.iter().all(|a| a.ip() == std::net::IpAddr::from([127, 0, 0, 1]))
        });
        let domain = if only_v4.unwrap_or(false) { "localhost".to_string() } else { "127.0.0.1".to_string() };
        let tmp = std::env::temp_dir().join(format!("verif-c01-{}", std::process::id()));
        std::fs::create_dir_all(&tmp).map_err(|e| format!("tmp dir: {e}"))?;
        Ok(Self { state, domain, tmp })
    }
}

impl Drop for Env {
    fn drop(&mut self) {
        let _ = std::fs::remove_dir_all(&self.tmp);
    }
}

// ---------------------------------------------------------------------------------------
// one tunnel
// ---------------------------------------------------------------------------------------

pub struct Tunnel {
    client: Option<JoinHandle<Result<(), client::Error>>>,
    server: JoinHandle<()>,
    client_status: Option<SubjectExit>,
    /// set as soon as `client_main_inner` is over (return, error or panic)
    pub client_done: Arc<AtomicBool>,
}

struct SetOnDrop(Arc<AtomicBool>);
impl Drop for SetOnDrop {
    fn drop(&mut self) {
        self.0.store(true, Ordering::SeqCst);
    }
}

#[derive(Debug, Clone)]
pub struct SubjectExit {
    pub text: String,
    pub addr_in_use: bool,
    pub panicked: bool,
}

/// Start server and client. The server listener is bound (port 0) before the client starts, so
/// the client's first WebSocket handshake finds it.
pub async fn start_tunnel(env: &Env, remotes: &[String]) -> Result<Tunnel, String> {
    let listener = TcpListener::bind("127.0.0.1:0").await.map_err(|e| format!("bind server: {e}"))?;
    let saddr = listener.local_addr().map_err(|e| format!("server addr: {e}"))?;
    let server = tokio::spawn(run_listener(listener, None, env.state.clone()));
    let mut parsed = Vec::new();
    for r in remotes {
        parsed.push(Remote::from_str(r).map_err(|e| format!("remote spec {r:?}: {e}"))?);
    }
    let args = ClientArgs {
        server: ServerUrl::from_str(&format!("ws://127.0.0.1:{}/ws", saddr.port())).map_err(|e| format!("server url: {e}"))?,
        remote: parsed,
        keepalive: OptionalDuration::NONE,
        max_retry_count: 5,
        max_retry_interval: 400,
        handshake_timeout: OptionalDuration::from_secs(30),
        channel_timeout: OptionalDuration::from_secs(30),
        ..Default::default()
    };
    let args = leak(args);
    let (hr, stream_rx, dgram_rx) = HandlerResources::create();
    let hr = leak(hr);
    let client_done = Arc::new(AtomicBool::new(false));
    let guard = SetOnDrop(client_done.clone());
    let client = tokio::spawn(async move {
        let _g = guard;
        client::client_main_inner(args, hr, stream_rx, dgram_rx).await
    });
    Ok(Tunnel { client: Some(client), server, client_status: None, client_done })
}

impl Tunnel {
    /// How the client task ended, if it has (it must not, while the scenario runs).
    pub async fn client_exit(&mut self) -> Option<SubjectExit> {
        if self.client_status.is_none() && self.client.is_some() && self.client_done.load(Ordering::SeqCst) {
            let h = self.client.take().expect("handle");
            let st = match h.await {
                Ok(Ok(())) => SubjectExit { text: "client_main_inner returned Ok(())".into(), addr_in_use: false, panicked: false },
                Ok(Err(e)) => {
                    let text = format!("client_main_inner returned Err: {e}");
                    let aiu = text.contains("os error 98") || text.contains("Address already in use") || text.contains("Address in use");
                    SubjectExit { text, addr_in_use: aiu, panicked: false }
                }
                Err(je) => SubjectExit { text: format!("client task ended abnormally: {je}"), addr_in_use: false, panicked: je.is_panic() },
            };
            self.client_status = Some(st);
        }
        self.client_status.clone()
    }

    pub fn server_finished(&self) -> bool {
        self.server.is_finished()
    }

    pub fn stop(&mut self) {
        if let Some(c) = &self.client {
            c.abort();
        }
        self.server.abort();
    }
}

#[derive(Debug)]
pub enum ConnectFail {
    /// the client task ended (e.g. it lost the race for its listening port)
    ClientExited,
    Deadline(String),
}

/// Connect to a TCP entry point of the client, waiting for the client to have bound it.
pub async fn connect_tcp_entry(addr: SocketAddr, client_done: &AtomicBool, deadline: Instant) -> Result<TcpStream, ConnectFail> {
    loop {
        if client_done.load(Ordering::SeqCst) {
            return Err(ConnectFail::ClientExited);
        }
        let last = match TcpStream::connect(addr).await {
            Ok(s) => {
                // (cannot happen with pool ports; kept as a guard) a TCP self-connect is not the entry point
                if s.local_addr().ok() == s.peer_addr().ok() {
                    drop(s);
                    "self-connect".to_string()
                } else {
                    let _ = s.set_nodelay(true);
                    return Ok(s);
                }
            }
            Err(e) => format!("{:?}", e.kind()),
        };
        if Instant::now() >= deadline {
            return Err(ConnectFail::Deadline(last));
        }
        tokio::time::sleep(Duration::from_millis(2)).await;
    }
}

pub async fn connect_unix_entry(path: &std::path::Path, client_done: &AtomicBool, deadline: Instant) -> Result<UnixStream, ConnectFail> {
    loop {
        if client_done.load(Ordering::SeqCst) {
            return Err(ConnectFail::ClientExited);
        }
        let last = match UnixStream::connect(path).await {
            Ok(s) => return Ok(s),
            Err(e) => format!("{:?}", e.kind()),
        };
        if Instant::now() >= deadline {
            return Err(ConnectFail::Deadline(last));
        }
        tokio::time::sleep(Duration::from_millis(2)).await;
    }
}

/// Wait until a UDP socket is bound to 127.0.0.1:`port` (the subject gives no other signal;
/// a datagram sent earlier would simply be lost).
pub async fn wait_udp_bound(port: u16, client_done: &AtomicBool, deadline: Instant) -> Result<(), ConnectFail> {
    let needle = format!(" 0100007F:{port:04X} ");
    loop {
        if client_done.load(Ordering::SeqCst) {
            return Err(ConnectFail::ClientExited);
        }
        if let Ok(t) = std::fs::read_to_string("/proc/net/udp") {
            if t.contains(&needle) {
                return Ok(());
            }
        }
        if Instant::now() >= deadline {
            return Err(ConnectFail::Deadline("port never appeared in /proc/net/udp".into()));
        }
        tokio::time::sleep(Duration::from_millis(2)).await;
    }
}
