//! C14 in-process full product.
use bytes::Bytes;
use http::{HeaderValue, Method, Request, StatusCode};
use http_body_util::{BodyExt, Empty};
use hyper::service::Service;
use rusty_penguin_lib::server::State;

static PSK: HeaderValue = HeaderValue::from_static("s3cret Key");

#[derive(Clone, Copy, PartialEq, Debug)]
enum V {
    Absent,
    Valid,
    Case,
    Near,
    Empty,
    DupGoodBad,
    DupBadGood,
}
const VS: [V; 7] = [V::Absent, V::Valid, V::Case, V::Near, V::Empty, V::DupGoodBad, V::DupBadGood];
const NAMES: [&str; 6] = [
    "connection",
    "upgrade",
    "sec-websocket-version",
    "sec-websocket-protocol",
    "sec-websocket-key",
    "x-penguin-psk",
];
const VALS: [&str; 6] = ["upgrade", "websocket", "13", "penguin-v7", "dGhlIHNhbXBsZSBub25jZQ==", "s3cret Key"];

fn swapcase(s: &str) -> String {
    s.chars()
        .map(|c| if c.is_ascii_lowercase() { c.to_ascii_uppercase() } else { c.to_ascii_lowercase() })
        .collect()
}

#[tokio::test(flavor = "multi_thread")]
async fn c14_inproc_product() {
    rusty_penguin_lib::tls::init_crypto_provider();
    let mut n = 0u64;
    let mut n101 = 0u64;
    for psk in [false, true] {
        let state = State::new()
            .await
            .unwrap()
            .with_backend_http2_support(false)
            .with_not_found_resp("NF")
            .obfs(true)
            .with_ws_psk(if psk { Some(&PSK) } else { None });
        for method in [Method::GET, Method::POST] {
            for path in ["/ws", "/ws?a=b", "/other"] {
                for with_upgrade in [true, false] {
                    let mut idx = [0usize; 6];
                    loop {
                        let vs: Vec<V> = idx.iter().map(|&i| VS[i]).collect();
                        let mut b = Request::builder().method(method.clone()).uri(format!("http://x{path}"));
                        for h in 0..6 {
                            let (name, val) = (NAMES[h], VALS[h]);
                            match vs[h] {
                                V::Absent => {}
                                V::Valid => b = b.header(name, val),
                                V::Case => b = b.header(name, swapcase(val)),
                                V::Near => b = b.header(name, format!("{val} ")),
                                V::Empty => b = b.header(name, ""),
                                V::DupGoodBad => b = b.header(name, val).header(name, "zzz"),
                                V::DupBadGood => b = b.header(name, "zzz").header(name, val),
                            }
                        }
                        if with_upgrade {
                            b = b.extension(hyper::upgrade::on(Request::new(())));
                        }
                        let req = b.body(Empty::<Bytes>::new()).unwrap();
                        let resp = state.call(req).await.unwrap();
                        // what the implementation treats as "the" header: the first line
                        let ci_ok = |v: V| matches!(v, V::Valid | V::Case | V::DupGoodBad);
                        let expect101 = method == Method::GET
                            && path != "/other"
                            && with_upgrade
                            && ci_ok(vs[0])
                            && ci_ok(vs[1])
                            && ci_ok(vs[2])
                            && ci_ok(vs[3])
                            && vs[4] != V::Absent
                            && (!psk || matches!(vs[5], V::Valid | V::DupGoodBad));
                        n += 1;
                        if expect101 {
                            n101 += 1;
                            assert_eq!(resp.status(), StatusCode::SWITCHING_PROTOCOLS, "{method} {path} {vs:?} psk={psk}");
                            assert_eq!(resp.headers()["sec-websocket-protocol"], "penguin-v7");
                            assert_eq!(resp.headers()["connection"], "upgrade");
                            assert_eq!(resp.headers()["upgrade"], "websocket");
                            let want = match vs[4] {
                                V::Valid | V::DupGoodBad => "s3pPLMBiTxaQ9kYGzzhZRbK+xOo=",
                                _ => "",
                            };
                            if !want.is_empty() {
                                assert_eq!(resp.headers()["sec-websocket-accept"], want);
                            }
                            assert_eq!(resp.headers().len(), 4);
                        } else {
                            assert_eq!(resp.status(), StatusCode::NOT_FOUND, "{method} {path} {vs:?} psk={psk}");
                            assert_eq!(resp.headers().len(), 0);
                            let body = resp.into_body().collect().await.unwrap().to_bytes();
                            assert_eq!(body, "NF");
                        }
                        // next
                        let mut k = 0;
                        loop {
                            if k == 6 {
                                break;
                            }
                            idx[k] += 1;
                            if idx[k] < VS.len() {
                                break;
                            }
                            idx[k] = 0;
                            k += 1;
                        }
                        if k == 6 {
                            break;
                        }
                    }
                }
            }
        }
    }
    println!("{n} requests, {n101} upgraded");
}
