//! Scratch loom models of the second-round C12 review (not part of the tree).
use crate::loom::{Arc, AtomicBool, AtomicU32, AtomicWaker};
use crate::stream::MuxStream;
use crate::ws::Message;
use crate::EstablishedStreamData;
use alloc::boxed::Box;
use alloc::vec::Vec;
use bytes::Bytes;
use core::pin::Pin;
use core::task::{Context, Poll, Waker};
use loom::sync::Notify;
use loom::thread;
use tokio::sync::mpsc;

struct NotifyWaker {
    notify: Notify,
}
impl std::task::Wake for NotifyWaker {
    fn wake(self: std::sync::Arc<Self>) {
        self.notify.notify();
    }
    fn wake_by_ref(self: &std::sync::Arc<Self>) {
        self.notify.notify();
    }
}
fn nw() -> (std::sync::Arc<NotifyWaker>, Waker) {
    let n = std::sync::Arc::new(NotifyWaker {
        notify: Notify::new(),
    });
    let w = Waker::from(n.clone());
    (n, w)
}

struct Parts {
    stream: MuxStream,
    data: EstablishedStreamData,
    tx_msg_rx: mpsc::UnboundedReceiver<Message>,
    rx_frame_tx: mpsc::Sender<Bytes>,
    _dropped_rx: mpsc::UnboundedReceiver<u32>,
}

fn parts(credit: u32) -> Parts {
    let (rx_frame_tx, rx_frame_rx) = mpsc::channel(4);
    let (tx_msg_tx, tx_msg_rx) = mpsc::unbounded_channel();
    let (dropped_flows_tx, dropped_rx) = mpsc::unbounded_channel();
    let finish_sent = Arc::new(AtomicBool::new(false));
    let psh_send_remaining = Arc::new(AtomicU32::new(credit));
    let writer_waker = Arc::new(AtomicWaker::new());
    let data = EstablishedStreamData {
        sender: Some(rx_frame_tx.clone()),
        finish_sent: finish_sent.clone(),
        psh_send_remaining: psh_send_remaining.clone(),
        writer_waker: writer_waker.clone(),
    };
    let stream = MuxStream {
        rx_frame_rx,
        flow_id: 1,
        dest_host: Bytes::new(),
        dest_port: 0,
        finish_sent,
        psh_send_remaining,
        psh_recvd_since: 0,
        writer_waker,
        buf: Bytes::new(),
        tx_msg_tx,
        dropped_flows_tx,
        rwnd_threshold: 4,
    };
    Parts {
        stream,
        data,
        tx_msg_rx,
        rx_frame_tx,
        _dropped_rx: dropped_rx,
    }
}

fn pushes(rx: &mut mpsc::UnboundedReceiver<Message>) -> (usize, usize) {
    let mut push = 0;
    let mut fin = 0;
    while let Ok(Message::Binary(b)) = rx.try_recv() {
        let f = crate::frame::Frame::try_from(b).expect("frame");
        match f.payload {
            crate::frame::Payload::Push(_) => push += 1,
            crate::frame::Payload::Finish => fin += 1,
            _ => panic!("unexpected frame"),
        }
    }
    (push, fin)
}

/// H1: parked writer (real write path) || acknowledge(1) || do_shutdown from a third thread
#[test]
fn h1_writer_vs_ack_vs_local_shutdown() {
    loom::model(|| {
        let Parts {
            stream,
            data,
            mut tx_msg_rx,
            rx_frame_tx: _k,
            _dropped_rx,
        } = parts(0);
        let stream = std::sync::Arc::new(stream);
        let s2 = stream.clone();
        let psh = data.psh_send_remaining.clone();
        let t = thread::spawn(move || {
            data.acknowledge(1);
        });
        let u = thread::spawn(move || {
            s2.do_shutdown();
        });
        let (n, w) = nw();
        let cx = Context::from_waker(&w);
        let sent = loop {
            match stream.poll_write_push(&cx, b"x") {
                Poll::Ready(Some(())) => break true,
                Poll::Ready(None) => break false,
                Poll::Pending => n.notify.wait(),
            }
        };
        t.join().unwrap();
        u.join().unwrap();
        let (push, fin) = pushes(&mut tx_msg_rx);
        assert_eq!(fin, 1);
        assert_eq!(push, usize::from(sent));
        let left = psh.load(crate::loom::Ordering::SeqCst);
        assert_eq!(left, 1 - u32::from(sent));
    });
}

/// H2: the writer is polled with a different waker on its second poll || acknowledge(1)
#[test]
fn h2_waker_changes_between_polls() {
    loom::model(|| {
        let Parts {
            stream,
            data,
            tx_msg_rx: _t,
            rx_frame_tx: _k,
            _dropped_rx,
        } = parts(0);
        let t = thread::spawn(move || {
            data.acknowledge(1);
        });
        let (_na, wa) = nw();
        let (nb, wb) = nw();
        let cxa = Context::from_waker(&wa);
        let cxb = Context::from_waker(&wb);
        // First poll with waker A; whatever happens, the task "migrates" and polls again with B
        if stream.poll_obtain_write_permission(&cxa).is_pending() {
            loop {
                match stream.poll_obtain_write_permission(&cxb) {
                    Poll::Ready(Some(())) => break,
                    Poll::Ready(None) => panic!("closed"),
                    // only B's notifications count now
                    Poll::Pending => nb.notify.wait(),
                }
            }
        }
        t.join().unwrap();
    });
}

/// H3: vectored write path parked || close by the task
#[test]
fn h3_vectored_vs_close() {
    use tokio::io::AsyncWrite;
    loom::model(|| {
        let Parts {
            mut stream,
            data,
            mut tx_msg_rx,
            rx_frame_tx: _k,
            _dropped_rx,
        } = parts(1);
        let t = thread::spawn(move || {
            data.disallow_write();
        });
        let (n, w) = nw();
        let mut cx = Context::from_waker(&w);
        let bufs = [std::io::IoSlice::new(b"ab"), std::io::IoSlice::new(b"cd")];
        let mut ok = 0;
        for _ in 0..2 {
            let r = loop {
                match Pin::new(&mut stream).poll_write_vectored(&mut cx, &bufs) {
                    Poll::Ready(r) => break r,
                    Poll::Pending => n.notify.wait(),
                }
            };
            match r {
                Ok(4) => ok += 1,
                Ok(_) => panic!("short"),
                Err(_) => break,
            }
        }
        t.join().unwrap();
        assert!(ok <= 1, "two frames with one unit of credit");
        let (push, _) = pushes(&mut tx_msg_rx);
        assert_eq!(push, ok);
    });
}

/// Local side of a bridge: offers `chunks` one at a time, then stays pending for ever
/// (without registering anything); swallows writes.
struct Local {
    chunks: Vec<&'static [u8]>,
    eof_after: bool,
}
impl tokio::io::AsyncRead for Local {
    fn poll_read(
        self: Pin<&mut Self>,
        _: &mut Context<'_>,
        _: &mut tokio::io::ReadBuf<'_>,
    ) -> Poll<std::io::Result<()>> {
        unreachable!()
    }
}
impl tokio::io::AsyncBufRead for Local {
    fn poll_fill_buf(self: Pin<&mut Self>, _: &mut Context<'_>) -> Poll<std::io::Result<&[u8]>> {
        let this = self.get_mut();
        match this.chunks.first() {
            Some(c) => Poll::Ready(Ok(c)),
            None if this.eof_after => Poll::Ready(Ok(&[])),
            None => Poll::Pending,
        }
    }
    fn consume(self: Pin<&mut Self>, amt: usize) {
        let this = self.get_mut();
        assert_eq!(amt, this.chunks[0].len());
        this.chunks.remove(0);
    }
}
impl tokio::io::AsyncWrite for Local {
    fn poll_write(
        self: Pin<&mut Self>,
        _: &mut Context<'_>,
        b: &[u8],
    ) -> Poll<std::io::Result<usize>> {
        Poll::Ready(Ok(b.len()))
    }
    fn poll_flush(self: Pin<&mut Self>, _: &mut Context<'_>) -> Poll<std::io::Result<()>> {
        Poll::Ready(Ok(()))
    }
    fn poll_shutdown(self: Pin<&mut Self>, _: &mut Context<'_>) -> Poll<std::io::Result<()>> {
        Poll::Ready(Ok(()))
    }
}

/// H4: the bridge as the writer: local data is ready, no credit || acknowledge(1)
#[test]
fn h4_bridge_parked_vs_ack() {
    use core::future::Future;
    loom::model(|| {
        let Parts {
            stream,
            data,
            mut tx_msg_rx,
            rx_frame_tx: _k,
            _dropped_rx,
        } = parts(0);
        let t = thread::spawn(move || {
            data.acknowledge(1);
            data
        });
        let mut bridge = Box::pin(stream.into_copy_bidirectional_with_buf(Local {
            chunks: alloc::vec![b"hello".as_slice()],
            eof_after: false,
        }));
        let (n, w) = nw();
        let mut cx = Context::from_waker(&w);
        loop {
            match bridge.as_mut().poll(&mut cx) {
                Poll::Ready(r) => panic!("bridge ended {r:?}"),
                Poll::Pending => {}
            }
            let (push, _) = pushes(&mut tx_msg_rx);
            if push == 1 {
                break;
            }
            assert_eq!(push, 0);
            n.notify.wait();
        }
        let _d = t.join().unwrap();
    });
}

/// H5: the bridge as the writer, parked || close by the task: the bridge must end with an error
#[test]
fn h5_bridge_parked_vs_close() {
    use core::future::Future;
    loom::model(|| {
        let Parts {
            stream,
            mut data,
            mut tx_msg_rx,
            rx_frame_tx,
            _dropped_rx,
        } = parts(0);
        drop(rx_frame_tx);
        let t = thread::spawn(move || {
            data.disallow_write();
            // as `close_flow_local` does
            drop(data.disallow_read());
        });
        let mut bridge = Box::pin(stream.into_copy_bidirectional_with_buf(Local {
            chunks: alloc::vec![b"hello".as_slice()],
            eof_after: false,
        }));
        let (n, w) = nw();
        let mut cx = Context::from_waker(&w);
        loop {
            match bridge.as_mut().poll(&mut cx) {
                Poll::Ready(Err(e)) => {
                    assert_eq!(e.kind(), std::io::ErrorKind::BrokenPipe);
                    break;
                }
                Poll::Ready(Ok(r)) => panic!("bridge ended {r:?}"),
                Poll::Pending => {}
            }
            n.notify.wait();
        }
        let (push, _) = pushes(&mut tx_msg_rx);
        assert_eq!(push, 0);
        t.join().unwrap();
    });
}
