//! Shared by the harness binaries: argument parsing, result reporting, exit codes.
pub mod report;
pub mod watchdog;
pub use report::Report;

pub struct Args {
    pub id: String,
    pub tier: String,
    pub out: String,
    pub replay: Option<String>,
    pub threads: usize,
    pub seed: u64,
}

impl Args {
    pub fn thorough(&self) -> bool {
        self.tier == "thorough"
    }
    /// Parsed content of the `--replay` file, if any (the file written by /verif/check: {"replay": ...}).
    pub fn replay_json(&self) -> Option<serde_json::Value> {
        let p = self.replay.as_ref()?;
        let s = std::fs::read_to_string(p).expect("cannot read replay file");
        let v: serde_json::Value = serde_json::from_str(&s).expect("replay file is not JSON");
        Some(v.get("replay").cloned().unwrap_or(v))
    }
}

/// Message type engines may panic with to signal a machinery (non-verdict) failure.
#[derive(Debug)]
pub struct Machinery(pub String);

/// Parse the command line, run `dispatch`, write the report, exit 0/1/2.
pub fn main_with(dispatch: impl FnOnce(&Args) -> Report + std::panic::UnwindSafe, describe_panic: impl Fn(&(dyn std::any::Any + Send)) -> Option<String>) -> ! {
    let mut a = std::env::args().skip(1);
    let id = a.next().expect("usage: <bin> <ID> --tier T --out FILE [--replay FILE] [--threads N]");
    let mut args = Args {
        id,
        tier: "quick".into(),
        out: String::new(),
        replay: None,
        threads: std::thread::available_parallelism().map_or(8, usize::from),
        seed: std::env::var("VERIF_SEED").ok().and_then(|s| s.parse().ok()).unwrap_or(0),
    };
    while let Some(k) = a.next() {
        let mut v = || a.next().expect("missing value");
        match k.as_str() {
            "--tier" => args.tier = v(),
            "--out" => args.out = v(),
            "--replay" => args.replay = Some(v()),
            "--threads" => args.threads = v().parse().expect("threads"),
            other => panic!("unknown argument {other}"),
        }
    }
    watchdog::start(&args.id, &args.tier, &args.out, std::time::Duration::from_secs(20));
    let args_ref = std::panic::AssertUnwindSafe(&args);
    let r = std::panic::catch_unwind(move || dispatch(*args_ref));
    let rep: Report = match r {
        Ok(rep) => rep,
        Err(e) => {
            let msg = if let Some(m) = describe_panic(&*e) {
                m
            } else if let Some(m) = e.downcast_ref::<Machinery>() {
                m.0.clone()
            } else if let Some(s) = e.downcast_ref::<String>() {
                s.clone()
            } else if let Some(s) = e.downcast_ref::<&str>() {
                (*s).to_string()
            } else {
                "engine panic".to_string()
            };
            let mut rep = Report::new(&args.id, &args.tier, "?", "other");
            rep.machinery_error = Some(format!("engine panicked: {msg}"));
            rep
        }
    };
    if args.out.is_empty() {
        println!("{}", serde_json::to_string_pretty(&rep.to_json()).unwrap());
    } else {
        rep.write(&args.out);
    }
    if rep.machinery_error.is_some() {
        std::process::exit(2);
    }
    std::process::exit(i32::from(!rep.violations.is_empty()));
}
