//! Scratch stress test for C05 (not a deliverable)
#![allow(clippy::all, clippy::pedantic, clippy::nursery, missing_docs, unused)]

use penguin_mux::config::Options;
use penguin_mux::{Multiplexor, MuxStream};
use rand::rngs::SmallRng;
use rand::{Rng, RngExt, SeedableRng};
use std::sync::Arc;
use tokio::io::{AsyncRead, AsyncReadExt, AsyncWrite, AsyncWriteExt};
use tokio_tungstenite::{WebSocketStream, tungstenite::protocol::Role};

fn payload(seed: u64, len: usize) -> Vec<u8> {
    let mut r = SmallRng::seed_from_u64(seed);
    (0..len).map(|_| r.random::<u8>()).collect()
}

/// write `data` in random chunks (some empty), then shutdown; concurrently read to EOF
async fn talk<S: AsyncRead + AsyncWrite + Unpin + Send + 'static>(
    s: S,
    seed: u64,
    data: Vec<u8>,
    expect: Vec<u8>,
    read_first: bool,
) -> Result<(), String> {
    let (mut r, mut w) = tokio::io::split(s);
    let wt = async move {
        let mut rng = SmallRng::seed_from_u64(seed);
        let mut i = 0;
        while i < data.len() {
            let n = match rng.random_range(0..6) {
                0 => 0,
                1 => 1,
                2 => 17,
                3 => 1000,
                4 => 70000,
                _ => 300,
            };
            let n = n.min(data.len() - i);
            w.write_all(&data[i..i + n]).await.map_err(|e| format!("write: {e}"))?;
            if n == 0 {
                // raw zero-length write
                let z = w.write(&[]).await.map_err(|e| format!("write0: {e}"))?;
                assert_eq!(z, 0);
            }
            i += n;
            if rng.random_range(0..10) == 0 {
                tokio::task::yield_now().await;
            }
        }
        w.shutdown().await.map_err(|e| format!("shutdown: {e}"))?;
        Ok::<_, String>(w)
    };
    let rd = async move {
        let mut got = Vec::new();
        let mut rng = SmallRng::seed_from_u64(seed ^ 0x55);
        loop {
            let cap = match rng.random_range(0..4) {
                0 => 1,
                1 => 100,
                2 => 5000,
                _ => 100000,
            };
            let mut buf = vec![0u8; cap];
            let n = r.read(&mut buf).await.map_err(|e| format!("read: {e}"))?;
            if n == 0 {
                break;
            }
            got.extend_from_slice(&buf[..n]);
        }
        Ok::<_, String>((got, r))
    };
    let (got, _keep) = if read_first {
        let (got, r) = rd.await?;
        let w = wt.await?;
        (got, (r, w))
    } else {
        let (a, b) = tokio::join!(wt, rd);
        let w = a?;
        let (got, r) = b?;
        (got, (r, w))
    };
    if got != expect {
        return Err(format!(
            "data mismatch: got {} bytes, expected {}",
            got.len(),
            expect.len()
        ));
    }
    Ok(())
}

async fn one_round(round: u64, bridged: bool) -> Result<(), String> {
    let mut rng = SmallRng::seed_from_u64(round);
    let (c, s) = tokio::io::duplex(rng.random_range(64..4096));
    let client = WebSocketStream::from_raw_socket(c, Role::Client, None).await;
    let server = WebSocketStream::from_raw_socket(s, Role::Server, None).await;
    let oa = Options::new()
        .rwnd(rng.random_range(1..8))
        .default_rwnd_threshold(rng.random_range(1..10));
    let ob = Options::new()
        .rwnd(rng.random_range(1..8))
        .default_rwnd_threshold(rng.random_range(1..10));
    let ma = Arc::new(Multiplexor::new_with_opt(client, oa, None));
    let mb = Arc::new(Multiplexor::new_with_opt(server, ob, None));
    const NS: usize = 12;
    let mut jobs = tokio::task::JoinSet::new();
    let mb2 = mb.clone();
    jobs.spawn(async move {
        let mut inner = tokio::task::JoinSet::new();
        for _ in 0..NS {
            let st = mb2.accept_stream_channel().await.map_err(|e| format!("{e}"))?;
            let id = st.dest_port as u64;
            let up = payload(round * 1000 + id, (id as usize * 37123) % 400000);
            let down = payload(round * 1000 + id + 500, (id as usize * 91813) % 300000);
            let read_first = id % 3 == 0;
            if bridged {
                let (l1, l2) = tokio::io::duplex(1 + (id as usize * 713) % 9000);
                inner.spawn(async move {
                    st.into_copy_bidirectional(l1).await.map_err(|e| format!("bridge b: {e}"))?;
                    Ok::<(), String>(())
                });
                inner.spawn(talk(l2, id + 7, down, up, read_first));
            } else {
                inner.spawn(talk(st, id + 7, down, up, read_first));
            }
        }
        while let Some(r) = inner.join_next().await {
            r.map_err(|e| format!("join {e}"))??;
        }
        Ok::<(), String>(())
    });
    for id in 1..=NS as u64 {
        let ma = ma.clone();
        jobs.spawn(async move {
            let st = ma.new_stream_channel(b"x", id as u16).await.map_err(|e| format!("{e}"))?;
            let up = payload(round * 1000 + id, (id as usize * 37123) % 400000);
            let down = payload(round * 1000 + id + 500, (id as usize * 91813) % 300000);
            if bridged {
                let (l1, l2) = tokio::io::duplex(1 + (id as usize * 311) % 9000);
                let br = tokio::spawn(async move {
                    st.into_copy_bidirectional(l1).await.map_err(|e| format!("bridge a: {e}"))
                });
                talk(l2, id, up, down, false).await?;
                br.await.map_err(|e| format!("join {e}"))??;
                Ok(())
            } else {
                talk(st, id, up, down, false).await
            }
        });
    }
    while let Some(r) = jobs.join_next().await {
        r.map_err(|e| format!("join {e}"))??;
    }
    Ok(())
}

#[tokio::test(flavor = "multi_thread", worker_threads = 6)]
async fn stress_direct() {
    let n: u64 = std::env::var("N").ok().and_then(|s| s.parse().ok()).unwrap_or(20);
    for round in 0..n {
        let r = tokio::time::timeout(std::time::Duration::from_secs(60), one_round(round, false)).await;
        match r {
            Ok(Ok(())) => {}
            Ok(Err(e)) => panic!("round {round}: {e}"),
            Err(_) => panic!("round {round}: timeout"),
        }
    }
}

#[tokio::test(flavor = "multi_thread", worker_threads = 6)]
async fn stress_bridged() {
    let n: u64 = std::env::var("N").ok().and_then(|s| s.parse().ok()).unwrap_or(20);
    for round in 0..n {
        let r = tokio::time::timeout(std::time::Duration::from_secs(60), one_round(round, true)).await;
        match r {
            Ok(Ok(())) => {}
            Ok(Err(e)) => panic!("round {round}: {e}"),
            Err(_) => panic!("round {round}: timeout"),
        }
    }
}
