//! Shared scenario of C02/C03/C04: two real endpoints, a set of streams with
//! per-end plans, explored under the controlled scheduler; ledger + wire
//! monitor + (white-box) flow-digest oracles evaluated after every step.

use crate::apps::{EndPlan, SideCfg, Tag, World, opts, plan_str};
use crate::explore::RunOutput;
use crate::link::UNBOUNDED_CAP;
use crate::sim::{Fnv, Step};
use crate::wiremon::WireMon;
use std::collections::BTreeMap;

#[derive(Clone, Debug)]
pub struct StreamSpec {
    pub tag: Tag,
    /// side that opens the stream
    pub opener: usize,
    pub opener_plan: EndPlan,
    pub acceptor_plan: EndPlan,
}

#[derive(Clone, Debug)]
pub struct XferCfg {
    pub a: (u32, u32),
    pub b: (u32, u32),
    /// link capacity (messages per direction), 0 = unbounded
    pub cap: usize,
    pub streams: Vec<StreamSpec>,
    pub stream_buffer: usize,
    /// every write in the plans is one byte: frames consumed == bytes read
    pub one_byte_frames: bool,
    /// A sends this many datagrams and waits for as many echoes from B
    pub dgram_pingpong: usize,
    pub dgram_buffer: usize,
    /// the application on this side lets go of its Multiplexor handle at some point after all its
    /// writers have finished (streams live on); every such point is explored (fault budget 1)
    pub drop_mux_when_writers_done: Option<usize>,
    pub extra: XferExtra,
    pub horizon: u64,
}

/// Rarely used dimensions of a transfer scenario.
#[derive(Clone, Copy, Debug)]
pub struct XferExtra {
    /// A sends this many datagrams to B, where NOBODY takes datagrams out (only without the ping-pong)
    pub dgram_flood: usize,
    /// scripted flow-id generators (empty = a counter that never collides)
    pub rng_a: &'static [u32],
    pub rng_b: &'static [u32],
}

impl XferExtra {
    pub const NONE: Self = Self { dgram_flood: 0, rng_a: &[], rng_b: &[] };
}

impl XferCfg {
    /// Is the end of stream `tag` on `side` driven through `into_copy_bidirectional` (the application talks to a local pipe)?
    pub fn is_bridged(&self, tag: u8, side: usize, opener: usize) -> bool {
        self.streams.iter().any(|s| s.tag == tag && matches!(if side == opener { &s.opener_plan } else { &s.acceptor_plan }, EndPlan::Bridged(..)))
    }
    pub fn describe(&self) -> String {
        let ss: Vec<String> = self
            .streams
            .iter()
            .map(|s| format!("s{}(open by {}): opener {} / acceptor {}", s.tag, if s.opener == 0 { "A" } else { "B" }, plan_str(&s.opener_plan), plan_str(&s.acceptor_plan)))
            .collect();
        format!(
            "A(rwnd={},thr={}) B(rwnd={},thr={}) cap={} {}{}{}",
            self.a.0,
            self.a.1,
            self.b.0,
            self.b.1,
            if self.cap == 0 { "inf".to_string() } else { self.cap.to_string() },
            ss.join("; "),
            if self.extra.dgram_flood > 0 { format!("; A sends {} datagrams that nobody at B takes out", self.extra.dgram_flood) } else { String::new() },
            if self.extra.rng_a.is_empty() && self.extra.rng_b.is_empty() { String::new() } else { format!("; flow-id draws A={:?} B={:?}", self.extra.rng_a, self.extra.rng_b) }
        )
    }
}

#[derive(Clone, Copy, Debug, Default)]
pub struct Oracles {
    /// C02: prefix relation at every step, equality at clean EOF
    pub integrity: bool,
    /// C03: wire monitor credit rules + digest equation
    pub credit: bool,
    /// C04: at quiescence every planned future has completed
    pub progress: bool,
    /// names of futures that are allowed to be pending at quiescence (slow readers etc.)
    pub allow_pending_prefixes: &'static [&'static str],
}

pub const W_CREDIT_ZERO: u64 = 1;
pub const W_ACK_SENT: u64 = 2;
pub const W_RESET: u64 = 4;
pub const W_ALL_DONE: u64 = 8;
pub const W_TWO_STREAMS_INTERLEAVED: u64 = 16;
pub const W_MUX_DROPPED: u64 = 32;
/// the execution ran with every tracing span and event enabled, and spans/events were really produced
pub const W_TRACING_ON: u64 = 64;

pub fn build(cfg: &XferCfg) -> World {
    let cap = if cfg.cap == 0 { UNBOUNDED_CAP } else { cfg.cap };
    let a = SideCfg { opts: opts(cfg.a.0, cfg.a.1).stream_buffer_size(cfg.stream_buffer.max(1)).datagram_buffer_size(cfg.dgram_buffer.max(1)), rng: cfg.extra.rng_a.to_vec() };
    let b = SideCfg { opts: opts(cfg.b.0, cfg.b.1).stream_buffer_size(cfg.stream_buffer.max(1)).datagram_buffer_size(cfg.dgram_buffer.max(1)), rng: cfg.extra.rng_b.to_vec() };
    let mut w = World::two(cap, &a, &b);
    for side in 0..2 {
        let plans: BTreeMap<Tag, EndPlan> = cfg.streams.iter().filter(|s| s.opener != side).map(|s| (s.tag, s.acceptor_plan.clone())).collect();
        if !plans.is_empty() {
            let n = plans.len();
            w.spawn_acceptor(side, n, plans);
        }
    }
    for s in &cfg.streams {
        w.spawn_opener(s.opener, s.tag, vec![s.tag, b'h'], 1000 + u16::from(s.tag), s.opener_plan.clone());
    }
    if cfg.dgram_pingpong > 0 {
        let list = (0..cfg.dgram_pingpong).map(|i| crate::apps::dgram(7 + i as u32, b"dg", 53, &[i as u8, 0xd0])).collect();
        w.spawn_dgram_receiver(1, "dgecho.b", usize::MAX, true);
        w.spawn_dgram_sender(0, "dgping.a", list, cfg.dgram_pingpong, true);
    }
    if cfg.extra.dgram_flood > 0 {
        let list = (0..cfg.extra.dgram_flood).map(|i| crate::apps::dgram(90 + i as u32, b"fl", 9, &[i as u8, 0xf1])).collect();
        w.spawn_dgram_sender(0, "dgflood.a", list, 0, false);
    }
    w
}

fn push_viol(v: &mut Vec<(String, String)>, key: &str, desc: String) {
    if !v.iter().any(|(k, _)| k == key) {
        v.push((key.to_string(), desc));
    }
}

pub struct StepChecker {
    pub mon: WireMon,
    pub violations: Vec<(String, String)>,
    pub witnesses: u64,
    pub fps: Vec<u64>,
    last_wire_side: Option<(usize, u32)>,
}

impl StepChecker {
    pub fn new(cfg: &XferCfg) -> Self {
        let mut mon = WireMon::new();
        mon.expect_rwnd = [Some(cfg.a.0), Some(cfg.b.0)];
        Self { mon, violations: Vec::new(), witnesses: 0, fps: Vec::new(), last_wire_side: None }
    }

    fn viol(&mut self, key: &str, desc: String) {
        push_viol(&mut self.violations, key, desc);
    }

    pub fn after_step(&mut self, w: &World, cfg: &XferCfg, or: &Oracles, step: &Step, delivered: Option<&crate::link::Item>) {
        {
            let l = w.sim.link.lock();
            self.mon.absorb(&l);
        }
        if let (Step::Deliver(d), Some(item)) = (step, delivered) {
            self.mon.on_delivered(*d, item);
        }
        {
            let l = w.sim.link.lock();
            self.mon.absorb_consumed(&l);
        }
        let obs = w.obs.borrow();
        // ---- C02: prefix relation, no cross-talk
        if or.integrity {
            for ((tag, dir), d) in &obs.dirs {
                if d.read.len() > d.written.len() || d.read[..] != d.written[..d.read.len()] {
                    let k = d.read.iter().zip(d.written.iter()).take_while(|(a, b)| a == b).count();
                    let foreign = d.read.get(k).map(|b| (b >> 5, (b >> 4) & 1));
                    let desc = format!(
                        "stream {tag} dir {dir}: bytes read {:02x?} are not a prefix of bytes accepted by writes {:02x?} (first difference at offset {k}; the byte there belongs to stream/dir {foreign:?})",
                        &d.read[..d.read.len().min(24)],
                        &d.written[..d.written.len().min(24)]
                    );
                    let key = if foreign.is_some_and(|(t, dd)| (t, dd) != (*tag & 7, *dir)) { "integrity.crosstalk" } else { "integrity.prefix" };
                    self.viol(key, desc);
                }
                // When the application of side x has let go of its Multiplexor the connection is being torn
                // down: what the OTHER side accepted but had not transmitted yet is legitimately lost. For
                // that direction the reader must get everything that was TRANSMITTED (checked at the end).
                let teardown_dir = cfg.drop_mux_when_writers_done.is_some_and(|x| w.mux[x].is_none() && cfg.streams.iter().any(|st| st.tag == *tag && u8::from(st.opener != 1 - x) == *dir));
                if d.eof && d.read.len() < d.written.len() && d.shutdown && !teardown_dir {
                    // EOF reported before all data written before the shutdown was returned
                    let desc = format!("stream {tag} dir {dir}: reader saw end-of-stream after {} bytes but {} were accepted before the clean shutdown", d.read.len(), d.written.len());
                    self.viol("integrity.eof-early", desc);
                }
            }
        }
        // ---- C03: wire monitor + digest
        if or.credit {
            let vs: Vec<_> = self.mon.violations.drain(..).collect();
            for v in vs {
                self.viol(&v.key, v.desc);
            }
            for side in 0..2 {
                let Some(mux) = w.mux[side].as_ref() else { continue };
                if w.task_done(side) {
                    continue;
                }
                let dig = mux.verif_flow_digest();
                for f in dig {
                    if f.kind != 1 {
                        continue;
                    }
                    let Some(fl) = self.mon.flows.get(&f.id) else { continue };
                    let peer = 1 - side;
                    // which ledger direction does `side` write in?
                    let Some(opener) = fl.opener else { continue };
                    let wdir: u8 = u8::from(opener != side);
                    let tag = fl.host.first().copied().unwrap_or(0xff);
                    let Some(led) = obs.dirs.get(&(tag, wdir)) else { continue };
                    let Some(win) = fl.window[peer] else { continue };
                    if cfg.is_bridged(tag, side, opener) {
                        // the writer is the bridge, not the application: its frames are not application writes. What can be
                        // stated from outside: frames on the wire + credit still held never exceed window + credit returned
                        let have = i64::from(f.credit) + fl.pushes_sent[side] as i64;
                        let allowed = i64::from(win) + fl.acks_consumed[peer] as i64;
                        if have > allowed {
                            let desc = format!("side {side} flow {:#x} (bridged end): {} Push frames on the wire + send credit {} exceed the window advertised by the peer ({win}) + credit returned and processed ({})", f.id, fl.pushes_sent[side], f.credit, fl.acks_consumed[peer]);
                            push_viol(&mut self.violations, "credit.equation", desc);
                        }
                        continue;
                    }
                    // credit_X == window_Y - successful writes_X + credit of Acknowledge frames X's task has taken in
                    let expect = i64::from(win) - i64::from(led.writes_ok) + fl.acks_consumed[peer] as i64;
                    // a write may be in progress only between steps; at a step boundary the equation is exact
                    if i64::from(f.credit) != expect {
                        let desc = format!(
                            "side {side} flow {:#x}: send credit is {} but window advertised by the peer ({win}) - successful writes ({}) + credit returned and processed ({}) = {expect}",
                            f.id, f.credit, led.writes_ok, fl.acks_consumed[peer]
                        );
                        push_viol(&mut self.violations, "credit.equation", desc);
                    }
                    // queued inbound frames never exceed the window we advertised
                    if let Some(mywin) = fl.window[side] {
                        if f.queued as u64 > u64::from(mywin) {
                            push_viol(&mut self.violations, "credit.queue-over-window", format!("side {side} flow {:#x}: {} frames queued, window {mywin}", f.id, f.queued));
                        }
                    }
                    // one-byte frames: never acknowledge what the application has not consumed
                    if cfg.one_byte_frames {
                        let rdir = 1 - wdir;
                        if let Some(rl) = obs.dirs.get(&(tag, rdir)) {
                            if fl.acks_sent[side] > rl.read.len() as u64 {
                                let desc = format!(
                                    "side {side} flow {:#x}: acknowledged {} frames but the application has only consumed {}",
                                    f.id,
                                    fl.acks_sent[side],
                                    rl.read.len()
                                );
                                push_viol(&mut self.violations, "ack.unconsumed", desc);
                            }
                        }
                    }
                }
            }
            // a conforming pair never resets a stream that the resetting side's application still holds
            for (id, fl) in &self.mon.flows {
                let Some(opener) = fl.opener else { continue };
                let tag = fl.host.first().copied().unwrap_or(0xff);
                for side in 0..2 {
                    if fl.reset_sent[side] == 0 {
                        continue;
                    }
                    let wdir: u8 = u8::from(opener != side);
                    let wdone = obs.dirs.get(&(tag, wdir)).is_some_and(|d| d.writer_done);
                    let rdone = obs.dirs.get(&(tag, 1 - wdir)).is_some_and(|d| d.reader_done);
                    if !(wdone && rdone) {
                        let desc = format!("flow {id:#x} (stream {tag}): side {side} sent Reset while its application still uses the stream (writer done={wdone}, reader done={rdone})");
                        push_viol(&mut self.violations, "reset.unprovoked", desc);
                    }
                }
            }
            // one write = one Push: frames on the wire never exceed successful writes
            for (id, fl) in &self.mon.flows {
                let Some(opener) = fl.opener else { continue };
                let tag = fl.host.first().copied().unwrap_or(0xff);
                for side in 0..2 {
                    let wdir: u8 = u8::from(opener != side);
                    let ok = obs.dirs.get(&(tag, wdir)).map_or(0, |d| u64::from(d.writes_ok));
                    if cfg.is_bridged(tag, side, opener) {
                        continue;
                    }
                    if fl.pushes_sent[side] > ok {
                        let desc = format!("flow {id:#x}: side {side} put {} Push frames on the wire for {ok} successful writes", fl.pushes_sent[side]);
                        push_viol(&mut self.violations, "push.without-write", desc);
                    }
                }
            }
        }
        // ---- witnesses
        if self.mon.flows.values().any(|f| f.acks_sent[0] + f.acks_sent[1] > 0) {
            self.witnesses |= W_ACK_SENT;
        }
        if self.mon.flows.values().any(|f| f.reset_sent[0] + f.reset_sent[1] > 0) {
            self.witnesses |= W_RESET;
        }
        if let Some((s, f)) = self.mon.frames.last().and_then(|(s, f)| if f.op() == 4 { Some((*s, f.id())) } else { None }) {
            if let Some((ls, lf)) = self.last_wire_side {
                if ls == s && lf != f {
                    self.witnesses |= W_TWO_STREAMS_INTERLEAVED;
                }
            }
            self.last_wire_side = Some((s, f));
        }
        // ---- fingerprint (coverage only)
        let mut h = Fnv::default();
        for ((tag, dir), d) in &obs.dirs {
            h.byte(*tag);
            h.byte(*dir);
            h.u64(d.written.len() as u64);
            h.u64(d.read.len() as u64);
            h.byte(u8::from(d.shutdown) | u8::from(d.eof) << 1 | u8::from(d.writer_done) << 2 | u8::from(d.reader_done) << 3);
        }
        {
            let l = w.sim.link.lock();
            for d in 0..2 {
                h.u64(l.dirs[d].inflight.len() as u64);
                h.u64(l.dirs[d].ready.len() as u64);
                h.u64(l.dirs[d].sent);
            }
        }
        for side in 0..2 {
            if let Some(mux) = w.mux[side].as_ref() {
                for f in mux.verif_flow_digest() {
                    if f.kind == 1 && f.credit == 0 && !f.finish_sent {
                        self.witnesses |= W_CREDIT_ZERO;
                    }
                    h.u64(u64::from(f.id));
                    h.byte(f.kind);
                    h.u64(u64::from(f.credit));
                    h.byte(u8::from(f.finish_sent) | u8::from(f.read_open) << 1);
                    h.u64(f.queued as u64);
                }
            }
        }
        {
            // tasks in a canonical order (their indices depend on who happened to be spawned first)
            let mut ts: Vec<(&str, u8)> = w.sim.tasks.iter().enumerate().map(|(i, t)| (t.name.as_str(), u8::from(t.done) | u8::from(w.sim.is_runnable(i)) << 1)).collect();
            ts.sort_unstable();
            for (n, b) in ts {
                h.str(n);
                h.byte(b);
            }
        }
        self.fps.push(h.0);
    }

    pub fn at_end(&mut self, w: &World, _cfg: &XferCfg, or: &Oracles, horizon: bool) {
        let obs = w.obs.borrow();
        if or.integrity {
            for ((tag, dir), d) in &obs.dirs {
                let teardown_dir = _cfg.drop_mux_when_writers_done.is_some_and(|x| w.mux[x].is_none() && _cfg.streams.iter().any(|st| st.tag == *tag && u8::from(st.opener != 1 - x) == *dir));
                if teardown_dir {
                    // written by the side that did NOT drop its Multiplexor: everything it transmitted before the
                    // connection ended must be returned to the reader before end-of-stream
                    let y = _cfg.drop_mux_when_writers_done.map_or(0, |x| 1 - x);
                    if let Some(fid) = obs.flow_ids.get(&(*tag, y)) {
                        let on_wire: Vec<u8> = self.mon.frames.iter().filter(|(s, f)| *s == y && f.id() == *fid).filter_map(|(_, f)| if let crate::codec::RFrame::Push { data, .. } = f { Some(data.clone()) } else { None }).flatten().collect();
                        if d.eof && d.read != on_wire {
                            let desc = format!("stream {tag} dir {dir}: the connection was closed by the reader's side; the peer had transmitted {:02x?} before it ended but the reader got {:02x?} before end-of-stream", on_wire, d.read);
                            self.viol("integrity.transmitted-not-delivered", desc);
                        }
                    }
                    continue;
                }
                if d.shutdown && d.eof && d.read != d.written {
                    let desc = format!("stream {tag} dir {dir}: writer shut down cleanly after {} bytes, reader reached end-of-stream with {} bytes", d.written.len(), d.read.len());
                    self.viol("integrity.final-equality", desc);
                }
            }
        }
        let pend: Vec<String> = obs.pending().into_iter().filter(|n| !or.allow_pending_prefixes.iter().any(|p| n.starts_with(p))).collect();
        if pend.is_empty() && !horizon {
            self.witnesses |= W_ALL_DONE;
        }
        if or.progress {
            if horizon {
                self.viol("progress.livelock", "step horizon reached: the system never became quiescent".into());
            } else if !pend.is_empty() {
                let mut detail = String::new();
                for ((tag, dir), d) in &obs.dirs {
                    detail.push_str(&format!(" [s{tag} dir{dir}: written {} read {} shutdown={} eof={}]", d.written.len(), d.read.len(), d.shutdown, d.eof));
                }
                let mut names: Vec<String> = pend.iter().map(|n| n.split('.').next().unwrap_or(n).to_string()).collect();
                names.sort();
                names.dedup();
                self.viol(&format!("progress.stall.{}", names.join("+")), format!("quiescent (nothing left to run or deliver) with unfinished application futures {pend:?};{detail}"));
            }
        }
        for side in 0..2 {
            if let Some(i) = w.task_idx[side] {
                if let Some(p) = &w.sim.tasks[i].panicked {
                    self.viol("panic.task", format!("connection task of side {side} panicked: {p}"));
                }
            }
        }
        for t in &w.sim.tasks {
            if let Some(p) = &t.panicked {
                self.viol("panic.app", format!("task {} panicked: {p}", t.name));
            }
        }
        for (k, d) in &obs.violations {
            self.violations.push((k.clone(), d.clone()));
        }
    }
}

/// One complete execution under the current exploration context.
pub fn exec(cfg: &XferCfg, or: &Oracles, render: bool) -> RunOutput {
    let mut w = build(cfg);
    let mut ck = StepChecker::new(cfg);
    let mut horizon = false;
    let mut blocked = false;
    loop {
        if w.sim.steps >= cfg.horizon {
            horizon = true;
            break;
        }
        let en = w.sim.enabled();
        if en.is_empty() {
            break;
        }
        let mut kinds = vec![crate::explore::Cost::Sched; en.len()];
        let can_drop = cfg.drop_mux_when_writers_done.is_some_and(|side| {
            w.mux[side].is_some() && {
                let obs = w.obs.borrow();
                cfg.streams.iter().all(|s| {
                    let wdir = u8::from(s.opener != side);
                    obs.dirs.get(&(s.tag, wdir)).is_some_and(|d| d.writer_done)
                })
            }
        });
        if can_drop {
            kinds.push(crate::explore::Cost::Fault);
        }
        let c = if can_drop {
            crate::explore::choose(&kinds)
        } else {
            match w.sim.choose_enabled(&en) {
                Some(c) => c,
                None => {
                    blocked = true;
                    break;
                }
            }
        };
        if c >= en.len() {
            w.drop_mux(cfg.drop_mux_when_writers_done.unwrap_or(0));
            w.sim.log.push(Step::Extra(0));
            ck.witnesses |= W_MUX_DROPPED;
            continue;
        }
        let step = en[c].clone();
        let item = w.sim.apply(&step);
        ck.after_step(&w, cfg, or, &step, item.as_ref());
    }
    if !blocked {
        ck.at_end(&w, cfg, or, horizon);
    }
    let mut out = RunOutput {
        blocked,
        steps: w.sim.steps,
        fingerprints: std::mem::take(&mut ck.fps),
        witnesses: ck.witnesses,
        horizon,
        ..RunOutput::default()
    };
    // outcome: everything the applications observed
    let mut h = Fnv::default();
    {
        let obs = w.obs.borrow();
        for e in &obs.events {
            h.str(&format!("{e:?}"));
        }
        for (n, d) in &obs.futures {
            h.str(n);
            h.byte(u8::from(*d));
        }
    }
    out.outcome = h.0;
    out.violations = std::mem::take(&mut ck.violations);
    if render {
        out.rendering = Some(w.sim.render_log().join(" "));
    }
    w.sim.teardown();
    out
}
