//! C18 helper: an in-memory duplex stream with scripted delivery and a
//! runtime-free `block_on`.
//!
//! The stream hands out its input either all at once or one byte per poll with
//! a `Pending` in between, and at the end of its input it either reports EOF
//! or stays `Pending` for ever ("the peer has not sent more yet").

use std::future::Future;
use std::io;
use std::pin::Pin;
use std::task::{Context, Poll, Waker};
use tokio::io::{AsyncBufRead, AsyncRead, AsyncWrite, ReadBuf};

#[derive(Debug)]
pub struct Mock {
    pub input: Vec<u8>,
    pub pos: usize,
    /// deliver one byte per successful poll, with a `Pending` before each
    pub trickle: bool,
    /// at the end of the input: `Pending` for ever instead of EOF
    pub hang_at_end: bool,
    gate_open: bool,
    pub out: Vec<u8>,
    /// `out.len()` when `poll_flush` was last called
    pub flushed_upto: usize,
    pub write_trickle: bool,
    wgate_open: bool,
    /// number of reads attempted at the end of the input
    pub reads_at_end: usize,
}

impl Mock {
    pub fn new(input: &[u8], trickle: bool, hang_at_end: bool) -> Self {
        Self {
            input: input.to_vec(),
            pos: 0,
            trickle,
            hang_at_end,
            gate_open: false,
            out: Vec::new(),
            flushed_upto: 0,
            write_trickle: trickle,
            wgate_open: false,
            reads_at_end: 0,
        }
    }

    /// How many bytes the next successful read may deliver; `None` = Pending.
    fn ready(&mut self, cx: &mut Context<'_>) -> Option<usize> {
        let avail = self.input.len() - self.pos;
        if avail == 0 {
            self.reads_at_end += 1;
            if self.hang_at_end {
                STALLED.with(|s| s.set(true));
                return None; // never woken: the peer stays silent
            }
            return Some(0);
        }
        if self.trickle {
            if !self.gate_open {
                self.gate_open = true;
                cx.waker().wake_by_ref();
                return None;
            }
            self.gate_open = false;
            return Some(1);
        }
        Some(avail)
    }
}

impl AsyncRead for Mock {
    fn poll_read(self: Pin<&mut Self>, cx: &mut Context<'_>, buf: &mut ReadBuf<'_>) -> Poll<io::Result<()>> {
        let me = self.get_mut();
        if buf.remaining() == 0 {
            return Poll::Ready(Ok(()));
        }
        let Some(n) = me.ready(cx) else { return Poll::Pending };
        let n = n.min(buf.remaining());
        buf.put_slice(&me.input[me.pos..me.pos + n]);
        me.pos += n;
        Poll::Ready(Ok(()))
    }
}

impl AsyncBufRead for Mock {
    fn poll_fill_buf(self: Pin<&mut Self>, cx: &mut Context<'_>) -> Poll<io::Result<&[u8]>> {
        let me = self.get_mut();
        let Some(n) = me.ready(cx) else { return Poll::Pending };
        Poll::Ready(Ok(&me.input[me.pos..me.pos + n]))
    }
    fn consume(self: Pin<&mut Self>, amt: usize) {
        let me = self.get_mut();
        assert!(me.pos + amt <= me.input.len(), "consume past the filled buffer");
        me.pos += amt;
    }
}

impl AsyncWrite for Mock {
    fn poll_write(self: Pin<&mut Self>, cx: &mut Context<'_>, buf: &[u8]) -> Poll<io::Result<usize>> {
        let me = self.get_mut();
        if buf.is_empty() {
            return Poll::Ready(Ok(0));
        }
        if me.write_trickle {
            if !me.wgate_open {
                me.wgate_open = true;
                cx.waker().wake_by_ref();
                return Poll::Pending;
            }
            me.wgate_open = false;
            me.out.push(buf[0]);
            return Poll::Ready(Ok(1));
        }
        me.out.extend_from_slice(buf);
        Poll::Ready(Ok(buf.len()))
    }
    fn poll_flush(self: Pin<&mut Self>, _cx: &mut Context<'_>) -> Poll<io::Result<()>> {
        let me = self.get_mut();
        me.flushed_upto = me.out.len();
        Poll::Ready(Ok(()))
    }
    fn poll_shutdown(self: Pin<&mut Self>, _cx: &mut Context<'_>) -> Poll<io::Result<()>> {
        Poll::Ready(Ok(()))
    }
}

thread_local! {
    /// set by a `Mock` that has run dry in hang mode: no further progress is possible
    static STALLED: std::cell::Cell<bool> = const { std::cell::Cell::new(false) };
}

pub enum Ran<T> {
    Done(T),
    /// still `Pending` after the poll budget: the future waits for input
    Hung,
}

/// Poll `f` with a no-op waker until it completes or `max_polls` is used up.
pub fn block_on<F: Future>(f: F, max_polls: usize) -> Ran<F::Output> {
    let mut f = std::pin::pin!(f);
    let mut cx = Context::from_waker(Waker::noop());
    STALLED.with(|s| s.set(false));
    for _ in 0..max_polls {
        if let Poll::Ready(v) = f.as_mut().poll(&mut cx) {
            return Ran::Done(v);
        }
        if STALLED.with(std::cell::Cell::get) {
            // the source is silent for ever and the future did not finish on
            // what it got: one more poll to be sure it does not need a nudge
            if let Poll::Ready(v) = f.as_mut().poll(&mut cx) {
                return Ran::Done(v);
            }
            return Ran::Hung;
        }
    }
    Ran::Hung
}
